"""./check <PROPERTY> --tier quick|thorough [--replay FILE]"""
import argparse
import importlib
import os
import sys
import traceback

from .core import Ctx, MachineryError


def main(argv=None):
    ap = argparse.ArgumentParser()
    ap.add_argument("prop")
    ap.add_argument("--tier", default=os.environ.get("VERIF_TIER", "quick"), choices=["quick", "thorough"])
    ap.add_argument("--replay", default=None)
    ap.add_argument("--seed", type=int, default=None)
    args, rest = ap.parse_known_args(argv)
    if args.prop == "selftest":
        from . import selftest
        return selftest.main(rest)
    seed = args.seed if args.seed is not None else int(os.environ.get("VERIF_SEED", "20260929"))
    pid = args.prop.upper()
    ctx = Ctx(pid, args.tier, seed, replay_path=args.replay)
    ctx.extra_args = rest
    rc = 0
    try:
        mod = importlib.import_module("checks.%s" % pid.lower())
        mod.run(ctx)
    except MachineryError as e:
        print("MACHINERY-FAILURE property=%s %s" % (pid, e))
        ctx.note("machinery_failure", str(e)[:2000])
        rc = 2
    except Exception:
        traceback.print_exc()
        print("MACHINERY-FAILURE property=%s unexpected exception in the check itself" % pid)
        ctx.note("machinery_failure", traceback.format_exc()[-2000:])
        rc = 2
    finally:
        try:
            ev = ctx.write_evidence()
        finally:
            ctx.cleanup()
    if ctx.violations:
        rc = 1
    print("%s %s tier=%s seed=%d states=%d transitions=%d impl_traces=%d evals=%d violations=%d known=%d drift=%d wall=%.1fs"
          % ("PASS" if rc == 0 else ("FAIL" if rc == 1 else "ERROR"), pid, args.tier, seed, ctx.states, ctx.transitions,
             ctx.traces, max(ctx.evaluations, ctx.traces), len(ctx.violations), len(ctx.known_hits), len(ctx.drifts), ev["wall_s"]))
    return rc


if __name__ == "__main__":
    sys.exit(main())
