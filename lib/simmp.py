"""Deterministic scheduler over a fake ``multiprocessing`` (mechanism M1 of DESIGN.md).

The real parallel code of toasty looks ``Queue``, ``Event`` and ``Process`` up on the ``multiprocessing``
module at call time, so they can be substituted for the duration of a run.  Every fake "process" is a
thread; every primitive operation is a *sync point*: the thread posts the operation it wants to perform
together with a function computing the currently enabled outcomes, and blocks.  The scheduler waits until
every live actor is blocked, picks one enabled (actor, outcome), applies the effect atomically and releases
that actor.  Nothing else runs in between, so a run is a deterministic function of the choices.

The fake queue reproduces the step structure of CPython 3.12's multiprocessing.Queue:
  put    = acquire the bounded semaphore + append to the putting process's buffer (one step);
  feeder = a per-(queue, process) actor moving buffer -> pipe, one item per step;
  get(t) = step 1: take the reader lock, or time out because another reader holds it;
           step 2: poll the pipe: an item (releases semaphore and lock), or Empty only if the pipe is empty;
  close / join_thread (enabled only when this process's buffer is drained);
  Event.set / is_set; Process.start / join / exitcode / is_alive.
An uncaught exception in a fake process gives exit code 1 and is not propagated, as with real processes.
"""
import collections
import contextlib
import pickle
import queue as _q
import threading

TIMEOUT_OUTCOMES = ("timeout", "empty", "full_timeout", "join_timeout")


class Hang(Exception):
    """No enabled step can ever change the global state (or nothing is enabled at all)."""


class Killed(BaseException):
    pass


class Sched(object):
    def __init__(self):
        self.lock = threading.RLock()
        self.idle = threading.Condition(self.lock)
        self.running = 0          # actors currently executing real code (not blocked at a sync point, not finished)
        self.actors = collections.OrderedDict()
        self.trace = []
        self.tls = threading.local()
        self.queues = collections.OrderedDict()
        self.events = []
        self.procs = []
        self.nq = 0
        self.np = 0
        self.killed = False
        self.version = 0      # bumped by every effect that changes fake state (progress)

    # --- actor side ---
    def me(self):
        return getattr(self.tls, "name", None)

    def owner(self):
        """The simulated PROCESS the calling actor belongs to (a helper thread started inside a process acts on that
        process's queue buffers)."""
        return getattr(self.tls, "owner", None) or self.me()

    def sync(self, op, outcomes):
        """Post an operation; outcomes() -> {outcome_name: effect} for the currently enabled outcomes."""
        name = self.me()
        if name is None:
            raise RuntimeError("fake multiprocessing primitive used outside a simulated actor")
        a = self.actors[name]
        with self.lock:
            a["pending"] = (op, outcomes)
            a["state"] = "waiting"
            self.running -= 1
            if self.running == 0:
                self.idle.notify_all()
        a["go"].acquire()
        res = a.pop("result")
        if isinstance(res, BaseException):
            raise res
        return res

    def _new_actor(self, name, kind):
        a = dict(state="starting", pending=None, kind=kind, go=threading.Semaphore(0))
        with self.lock:
            self.actors[name] = a
            self.running += 1
        return a

    def _finish(self, name, code, exc=None):
        with self.lock:
            a = self.actors[name]
            a["state"] = "done"
            a["exitcode"] = code
            if exc is not None:
                a["exc"] = exc
            a["pending"] = None
            self.version += 1
            self.running -= 1
            if self.running == 0:
                self.idle.notify_all()

    def spawn(self, name, fn, kind="proc"):
        def run():
            self.tls.name = name
            code, exc = 0, None
            try:
                self.sync(("start",), lambda: {"ok": lambda: None})
                fn()
            except Killed:
                code = -9
            except SystemExit as e:
                # multiprocessing's bootstrap: sys.exit(None) -> 0, sys.exit(n) -> n, sys.exit("message") -> 1
                if e.code is None:
                    code = 0
                elif isinstance(e.code, int):
                    code = e.code
                else:
                    code = 1
                exc = e if code != 0 else None
            except BaseException as e:  # noqa - like a real process: exit code 1, nothing propagates
                code, exc = 1, e
            self._finish(name, code, exc)
        a = self._new_actor(name, kind)
        t = threading.Thread(target=run, daemon=True, name="sim-" + name)
        a["thread"] = t
        t.start()

    # --- scheduler side ---
    def quiesce(self):
        with self.lock:
            while self.running > 0:
                self.idle.wait()

    def enabled(self):
        """List of (actor, op, outcome) for every enabled outcome of every blocked actor."""
        self.quiesce()
        out = []
        for n, a in list(self.actors.items()):
            if a["state"] == "waiting":
                op, outs = a["pending"]
                for o in outs():
                    out.append((n, op, o))
        return out

    def step(self, name, outcome=None):
        with self.lock:
            while self.running > 0:
                self.idle.wait()
            a = self.actors[name]
            if a["state"] != "waiting":
                raise KeyError("actor %s is not waiting (%s)" % (name, a["state"]))
            op, outs = a["pending"]
            en = outs()
            if outcome is None:
                if len(en) != 1:
                    raise KeyError("actor %s op %s: outcomes %s, none chosen" % (name, op, list(en)))
                outcome = next(iter(en))
            if outcome not in en:
                raise KeyError("outcome %r of %s %s not enabled (enabled: %s)" % (outcome, name, op, list(en)))
            try:
                res = en[outcome]()
            except BaseException as e:
                res = e
            self.trace.append((name, op, outcome))
            a["result"] = res
            a["state"] = "running"
            self.running += 1
            a["go"].release()
            while self.running > 0:
                self.idle.wait()
        return op

    def pending(self, name):
        self.quiesce()
        a = self.actors.get(name)
        if a is None:
            return None
        if a["state"] == "done":
            return ("done",)
        return a["pending"][0]

    def alive(self, name):
        a = self.actors.get(name)
        return a is not None and a["state"] != "done"

    def all_done(self, names=None):
        self.quiesce()
        return all(a["state"] == "done" for n, a in self.actors.items()
                   if (names is None and a.get("kind") != "feeder") or (names is not None and n in names))

    def kill_all(self):
        """Terminate every blocked actor (used after a hang or at the end of a run)."""
        with self.lock:
            self.killed = True
            for a in self.actors.values():
                if a["state"] == "waiting":
                    a["result"] = Killed()
                    a["state"] = "running"
                    self.running += 1
                    a["go"].release()
        for a in list(self.actors.values()):
            t = a.get("thread")
            if t is not None:
                t.join(timeout=2.0)


S = None  # the current scheduler (one simulated run at a time per process)


def _bump():
    S.version += 1


PIPE_CAPACITY = 65536     # bytes an OS pipe holds before a writer blocks (Linux default)


class FakeQueue(object):
    def __init__(self, maxsize=0):
        S.nq += 1
        self.name = "q%d" % S.nq
        self.maxsize = maxsize
        S.queues[self.name] = self
        self.buf = collections.defaultdict(collections.deque)
        self.pipe = collections.deque()
        self.sizes = collections.deque()  # message sizes, parallel to self.pipe
        self.pipe_bytes = 0               # bytes written to the OS pipe and not yet received
        self.midwrite = None              # owner of the feeder blocked in the middle of a write (holds the write lock)
        self.inflight = 0
        self.rlock = None
        self.closed = set()
        self.joincancelled = set()
        self.dropped = 0
        self.nput = 0
        self.nget = 0

    def put(self, item, block=True, timeout=None):
        me = S.owner()
        if me in self.closed:
            raise ValueError("Queue %r is closed" % self)

        def outs():
            d = {}
            if self.maxsize <= 0 or self.inflight < self.maxsize:
                def eff():
                    self.inflight += 1
                    self.nput += 1
                    self.buf[me].append(item)
                    _ensure_feeder(self, me)
                    _bump()
                    return True
                d["ok"] = eff
            elif (not block) or timeout is not None:
                d["full_timeout"] = lambda: False
            return d
        if not S.sync(("put", self.name), outs):
            raise _q.Full()

    def get(self, block=True, timeout=None):
        me = S.me()
        timed = (not block) or timeout is not None

        def outs1():
            if self.rlock is None:
                def eff():
                    self.rlock = me
                    return True
                return {"acquired": eff}
            return {"timeout": lambda: False} if timed else {}
        if not S.sync(("rlock", self.name), outs1):
            raise _q.Empty()

        def outs2():
            if self.pipe:
                def eff():
                    self.inflight -= 1
                    self.nget += 1
                    self.rlock = None
                    _bump()
                    item = self.pipe.popleft()
                    self.pipe_bytes -= self.sizes.popleft()
                    if self.pipe_bytes <= PIPE_CAPACITY:
                        self.midwrite = None
                    return ("item", item)
                return {"item": eff}
            if timed:
                def eff2():
                    self.rlock = None
                    return ("empty", None)
                return {"empty": eff2}
            return {}
        kind, v = S.sync(("poll", self.name), outs2)
        if kind == "empty":
            raise _q.Empty()
        return v

    def get_nowait(self):
        return self.get(False)

    def put_nowait(self, item):
        return self.put(item, False)

    def qsize(self):
        return self.inflight

    def empty(self):
        return not self.pipe

    def close(self):
        me = S.owner()

        def eff():
            self.closed.add(me)
            _bump()
        S.sync(("close", self.name), lambda: {"ok": eff})

    def join_thread(self):
        me = S.owner()
        # after cancel_join_thread() the real join_thread() is a no-op (the finalizer is never set / is cancelled)
        S.sync(("join_thread", self.name),
               lambda: ({"ok": lambda: None} if ((not self.buf[me] and self.midwrite != me) or me in self.joincancelled) else {}))

    def cancel_join_thread(self):
        self.joincancelled.add(S.owner())


def _ensure_feeder(q, owner):
    fname = "feeder:%s:%s" % (q.name, owner)
    if fname in S.actors:
        return

    def feeder():
        while True:
            def outs():
                if q.midwrite is not None:
                    # a write larger than the free space of the OS pipe blocks (holding the queue's write lock) until
                    # readers have drained enough; the message is already visible to poll()
                    return {}
                if q.buf[owner]:
                    def eff():
                        item = q.buf[owner].popleft()
                        try:
                            size = len(pickle.dumps(item)) + 4      # the real feeder thread pickles here ...
                        except Exception:  # noqa
                            # ... and on failure drops the object and gives the slot back (Queue._feed, 3.12)
                            q.inflight -= 1
                            q.dropped += 1
                            _bump()
                            return True
                        q.pipe.append(item)
                        q.sizes.append(size)
                        q.pipe_bytes += size
                        if q.pipe_bytes > PIPE_CAPACITY:
                            q.midwrite = owner
                        _bump()
                        return True
                    return {"flush": eff}
                if owner in q.closed or not S.alive(owner):
                    return {"stop": lambda: False}
                return {}
            if not S.sync(("flush", q.name, owner), outs):
                break

    def run():
        S.tls.name = fname
        try:
            feeder()
        except Killed:
            pass
        finally:
            S._finish(fname, 0)
    a = S._new_actor(fname, "feeder")
    t = threading.Thread(target=run, daemon=True, name="sim-" + fname)
    a["thread"] = t
    t.start()


class FakeEvent(object):
    def __init__(self):
        self.flag = False
        S.events.append(self)

    def set(self):
        def eff():
            self.flag = True
            _bump()
        S.sync(("event_set",), lambda: {"ok": eff})

    def clear(self):
        def eff():
            self.flag = False
            _bump()
        S.sync(("event_clear",), lambda: {"ok": eff})

    def is_set(self):
        return S.sync(("is_set",), lambda: {"ok": lambda: self.flag})

    def wait(self, timeout=None):
        def outs():
            if self.flag:
                return {"ok": lambda: True}
            return {"timeout": lambda: False} if timeout is not None else {}
        return S.sync(("event_wait",), outs)


class FakeProcess(object):
    def __init__(self, group=None, target=None, name=None, args=(), kwargs=None, daemon=None):
        S.np += 1
        self.name = "w%d" % S.np
        self.target = target
        self.args = args
        self.kwargs = kwargs or {}
        self.daemon = daemon
        self.started = False
        S.procs.append(self)

    def start(self):
        self.started = True
        S.spawn(self.name, lambda: self.target(*self.args, **self.kwargs))
        _bump()

    def join(self, timeout=None):
        def outs():
            if not S.alive(self.name):
                return {"ok": lambda: None}
            return {"join_timeout": lambda: None} if timeout is not None else {}
        S.sync(("join", self.name), outs)

    def is_alive(self):
        return self.started and S.alive(self.name)

    @property
    def exitcode(self):
        a = S.actors.get(self.name)
        return None if a is None else a.get("exitcode")

    @property
    def pid(self):
        return 100000 + int(self.name[1:])

    @property
    def sentinel(self):
        """Handle usable with the (faked) multiprocessing.connection.wait()."""
        return self

    def terminate(self):
        pass

    def kill(self):
        pass


class FakeThread(object):
    """threading.Thread for helper threads that library code starts inside a simulated process (for instance to wait
    for a queue's feeder with a time limit): one more actor, acting on behalf of its process."""

    def __init__(self, group=None, target=None, name=None, args=(), kwargs=None, daemon=None):
        S.nt = getattr(S, "nt", 0) + 1
        self.owner = S.owner()
        self.name = "%s/t%d" % (self.owner, S.nt)
        self.target, self.args, self.kwargs, self.daemon = target, args, kwargs or {}, daemon
        self.started = False

    def start(self):
        self.started = True

        def body():
            S.tls.owner = self.owner
            self.target(*self.args, **self.kwargs)
        S.spawn(self.name, body, kind="thread")
        _bump()

    def join(self, timeout=None):
        def outs():
            if not S.alive(self.name):
                return {"ok": lambda: None}
            return {"join_timeout": lambda: None} if timeout is not None else {}
        S.sync(("join", self.name), outs)

    def is_alive(self):
        return self.started and S.alive(self.name)


class _ThreadingShim(object):
    """Stands in for the `threading` module inside toasty.par_util during a simulated run."""
    Thread = FakeThread

    def __getattr__(self, name):
        return getattr(threading, name)


def fake_connection_wait(object_list, timeout=None):
    """multiprocessing.connection.wait over process sentinels: returns those whose process has ended (blocks until at least
    one has, or times out)."""
    objs = list(object_list)

    def outs():
        ready = [o for o in objs if isinstance(o, FakeProcess) and not S.alive(o.name)]
        if ready:
            return {"ok": lambda: ready}
        return {"timeout": lambda: []} if timeout is not None else {}
    return S.sync(("conn_wait",), outs)


@contextlib.contextmanager
def installed():
    """Install the fake primitives on the multiprocessing module for one simulated run."""
    global S
    import multiprocessing as mp
    import warnings
    import multiprocessing.connection as mpc
    S = Sched()
    saved = (mp.Queue, mp.Event, mp.Process)
    saved_cw = warnings.catch_warnings
    saved_wait = mpc.wait
    mpc.wait = fake_connection_wait
    mp.Queue, mp.Event, mp.Process = FakeQueue, FakeEvent, FakeProcess

    class _NoCatch(object):  # warnings.catch_warnings is not thread-safe across sync points
        def __init__(self, *a, record=False, **k):
            self._record = record

        def __enter__(self):
            return [] if self._record else None

        def __exit__(self, *a):
            return False
    warnings.catch_warnings = _NoCatch
    pu = None
    try:
        import toasty.par_util as pu
    except Exception:  # noqa
        pu = None
    saved_thr = getattr(pu, "threading", None) if pu is not None else None
    if saved_thr is not None:
        pu.threading = _ThreadingShim()
    try:
        yield S
    finally:
        try:
            S.kill_all()
        finally:
            if saved_thr is not None:
                pu.threading = saved_thr
            mp.Queue, mp.Event, mp.Process = saved
            mpc.wait = saved_wait
            warnings.catch_warnings = saved_cw


def cb_sync(tag, payload=None, log=None):
    """Sync point for harness callbacks (cb_start / cb_end ...)."""
    who = S.me()

    def eff():
        if log is not None:
            log.append((tag, payload, who))
        _bump()
    S.sync((tag,), lambda: {"ok": eff})


# ----------------------------------------------------------------------------------------
# schedule policies
# ----------------------------------------------------------------------------------------

NONPROGRESS_OUTCOMES = ("timeout", "empty", "full_timeout", "join_timeout", "acquired")


def is_timeout(choice):
    return choice[2] in TIMEOUT_OUTCOMES


def nonprogress(choice):
    """A choice whose effect changes nothing but reader-lock ownership / the actor's own control state."""
    return choice[2] in NONPROGRESS_OUTCOMES or choice[1][0] == "is_set"


def run_schedule(S, choose, max_steps=200000, done=None, hang_rounds=30):
    """Drive the run: choose(enabled) -> index.  Returns ('done'|'hang'|'limit', steps).

    Hang rule (sound w.r.t. the spec's fairness, see DESIGN 3/M1): the run is declared non-terminating only
    if nothing is enabled while some process is alive, or if every enabled choice is a non-progress choice
    (a timeout, an Empty poll, a reader-lock acquisition, a flag read) and *hang_rounds* fair round-robin
    rounds over all blocked actors never enable anything else and never change the progress version
    (queue contents, semaphores, flags, callback log, process starts/exits)."""
    steps = 0
    while steps < max_steps:
        if done is not None and done():
            return "done", steps
        en = S.enabled()
        if not en:
            return ("done" if S.all_done() else "hang"), steps
        if all(nonprogress(c) for c in en):
            verdict, n = _probe_hang(S, hang_rounds)
            steps += n
            if verdict:
                return "hang", steps
            continue
        i = choose(en)
        S.step(en[i][0], en[i][2])
        steps += 1
    return "limit", steps


def _probe_hang(S, rounds):
    v0 = S.version
    n = 0
    for _ in range(rounds):
        en = S.enabled()
        if not en:
            return (not S.all_done()), n
        if S.version != v0 or not all(nonprogress(c) for c in en):
            return False, n
        first = {}
        for c in en:
            first.setdefault(c[0], c)
        for actor, c in first.items():
            if S.version != v0:
                return False, n
            try:
                S.step(actor, c[2])
            except KeyError:
                continue   # its outcome set changed because of an earlier step of this round (reader lock)
            n += 1
    en = S.enabled()
    return (S.version == v0 and bool(en) and all(nonprogress(c) for c in en)), n
