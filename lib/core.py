"""Core of the check framework: run context, evidence, known findings, verdicts.

Every property driver in checks/cNN.py exposes ``run(ctx)``.  The driver calls
``ctx.tlc(...)`` to model-check / simulate / evaluate the governing TLA+ module,
pushes the TLC-produced cases or behaviours through the real code, and reports

* ``ctx.violation(key, what, replay)``  -- a property monitor failed on the real code;
* ``ctx.drift(what)``                   -- code and implementation-shaped spec disagree
                                           (not an alarm by itself; see DESIGN 2.1);
* ``ctx.machinery(what)``               -- our own tooling failed (exit 2).

The evidence file is rewritten on every run from the counters kept here.
"""
import hashlib
import json
import os
import random
import shutil
import sys
import tempfile
import time

VERIF = os.path.dirname(os.path.dirname(os.path.abspath(__file__)))
SPEC_DIR = os.path.join(VERIF, "spec")
REPO = os.environ.get("VERIF_REPO", "/repo")
GUARD = "TOASTY_VERIF"


class MachineryError(Exception):
    pass


def load_known():
    known, fixed = {}, []
    path = os.path.join(VERIF, "known_findings.txt")
    if not os.path.exists(path):
        return known, fixed
    for line in open(path):
        line = line.strip()
        if not line or line.startswith("#"):
            continue
        if line.startswith("known:"):
            parts = line[len("known:"):].split()
            kv = dict(p.split("=", 1) for p in parts[:2] if "=" in p)
            rest = " ".join(parts[2:])
            known[(kv.get("property"), kv.get("key"))] = rest
        elif line.startswith("fixed:"):
            fixed.append(line)
    return known, fixed


class Ctx(object):
    def __init__(self, pid, tier, seed, replay_path=None):
        self.pid = pid
        self.tier = tier
        self.quick = tier == "quick"
        self.seed = seed
        self.replay_path = replay_path
        self.t0 = time.time()
        self.rng = random.Random(seed)
        self.scratch = tempfile.mkdtemp(prefix="verif-%s-" % pid.lower())
        self.states = 0
        self.transitions = 0
        self.traces = 0
        self.evaluations = 0
        self.nontrivial = set()
        self.nontrivial_count = 0
        self.samples = []
        self.sample_cap = 6
        self.notes = {}
        self.assumptions = []
        self.violations = []
        self.known_hits = []
        self.drifts = []
        self.tlc_runs = []
        self.exhaustive = None
        self.known, self.fixed = load_known()
        self.level = "model_checking"
        self.rule = ""

    # ---- scratch -------------------------------------------------------
    def mkdtemp(self, name="d"):
        return tempfile.mkdtemp(prefix=name + "-", dir=self.scratch)

    def cleanup(self):
        shutil.rmtree(self.scratch, ignore_errors=True)

    # ---- counting ------------------------------------------------------
    def count(self, n=1):
        self.evaluations += n

    def trace_ok(self, n=1):
        """n more TLC behaviours / traces / oracle cases pushed through the real code."""
        self.traces += n

    def distinct(self, key):
        """Register a distinct non-trivial case (hashable key)."""
        if len(self.nontrivial) < 2000000:
            self.nontrivial.add(key if isinstance(key, (int, str, tuple)) else repr(key))
        else:
            self.nontrivial_count += 1

    def sample(self, obj, force=False):
        if force or len(self.samples) < self.sample_cap:
            self.samples.append(obj)

    def note(self, k, v):
        self.notes[k] = v

    def add_note(self, k, n=1):
        self.notes[k] = self.notes.get(k, 0) + n

    def assume(self, text):
        if text not in self.assumptions:
            self.assumptions.append(text)

    # ---- verdicts ------------------------------------------------------
    def violation(self, key, what, replay=None):
        """A property monitor failed on the real code.

        *key* names the entry point and the failing input/schedule class; it is what
        known_findings.txt entries are matched against."""
        if (self.pid, key) in self.known:
            if key not in self.known_hits:
                self.known_hits.append(key)
                print("KNOWN-FINDING: property=%s %s [%s]" % (self.pid, self.known[(self.pid, key)], key))
            return False
        if any(v["key"] == key for v in self.violations):
            self.violations.append({"key": key, "what": what, "replay": None})
            return True
        h = hashlib.sha1((key + "|" + what).encode()).hexdigest()[:10]
        rdir = os.path.join(VERIF, "replay") if os.path.abspath(REPO) == "/repo" else os.path.join("/tmp", "verif-replay-scratch")
        os.makedirs(rdir, exist_ok=True)
        path = os.path.join(rdir, "%s-%s.json" % (self.pid, h))
        if len(self.violations) < 25:
            with open(path, "w") as f:
                json.dump({"property": self.pid, "key": key, "what": what, "seed": self.seed,
                           "tier": self.tier, "replay": replay}, f, indent=1, default=repr)
            print("VIOLATION property=%s replay=%s" % (self.pid, path))
            print("  what: %s [%s]" % (what, key))
        self.violations.append({"key": key, "what": what, "replay": path})
        sys.stdout.flush()
        return True

    def drift(self, what):
        if len(self.drifts) < 50:
            self.drifts.append(what)
            if len(self.drifts) <= 5:
                print("CONFORMANCE-DRIFT property=%s %s" % (self.pid, what))
        self.ndrift = getattr(self, "ndrift", 0) + 1

    def machinery(self, what):
        raise MachineryError(what)

    # ---- TLC -----------------------------------------------------------
    def tlc(self, module, **kw):
        from . import tlc as _tlc
        r = _tlc.run(self, module, **kw)
        self.tlc_runs.append(r.summary())
        if kw.get("count", True):
            self.states += r.distinct
            self.transitions += r.generated
        return r

    # ---- evidence ------------------------------------------------------
    def write_evidence(self):
        cov = {
            "states": self.states,
            "transitions": self.transitions,
            "traces_validated_against_impl": self.traces,
            "evaluations": max(self.evaluations, self.traces),
            "distinct_nontrivial": len(self.nontrivial) + self.nontrivial_count,
            "rule": self.rule,
            "samples": self.samples[: self.sample_cap + 4] or [{"note": "the run ended before it recorded a sample case", "tlc_runs": self.tlc_runs[:2]}],
            "tlc_runs": self.tlc_runs,
            "conformance_drift": self.drifts,
            "known_findings_hit": self.known_hits,
        }
        if self.exhaustive is not None:
            cov["exhaustive"] = bool(self.exhaustive)
        cov.update(self.notes)
        ev = {
            "property_id": self.pid,
            "tier": self.tier,
            "seed": self.seed,
            "level": self.level,
            "coverage": cov,
            "assumptions": self.assumptions,
            "wall_s": round(time.time() - self.t0, 2),
            "violations": len(self.violations),
        }
        # runs against a scratch copy of the repository (mutants, fixes under test) must not overwrite the evidence
        # of the tree under /repo
        d = os.path.join(VERIF, "evidence") if os.path.abspath(REPO) == "/repo" else os.path.join("/tmp", "verif-evidence-scratch")
        if self.pid.startswith("G"):
            # growth specifications (DESIGN section 7) are not tied to a listed property: their evidence lives apart
            d = os.path.join(VERIF, "evidence-growth") if os.path.abspath(REPO) == "/repo" else d
        os.makedirs(d, exist_ok=True)
        tmp = os.path.join(d, ".%s.json.tmp" % self.pid)
        with open(tmp, "w") as f:
            json.dump(ev, f, indent=1, default=repr)
        os.replace(tmp, os.path.join(d, "%s.json" % self.pid))
        return ev
