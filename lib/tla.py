"""Helpers to write TLA+ literals / generated wrapper modules from Python values."""


def lit(o):
    if isinstance(o, bool):
        return "TRUE" if o else "FALSE"
    if isinstance(o, int):
        return str(o)
    if isinstance(o, str):
        return '"%s"' % o
    if isinstance(o, (tuple, list)):
        return "<<" + ", ".join(lit(x) for x in o) + ">>"
    if isinstance(o, (set, frozenset)):
        return "{" + ", ".join(sorted(lit(x) for x in o)) + "}"
    if isinstance(o, dict):
        return "[" + ", ".join("%s |-> %s" % (k, lit(v)) for k, v in o.items()) + "]"
    raise TypeError(type(o))


def module(name, extends, defs):
    """defs: list of (name, tla-expression-text) or raw strings."""
    lines = ["---- MODULE %s ----" % name, "EXTENDS " + ", ".join(extends)]
    for d in defs:
        if isinstance(d, str):
            lines.append(d)
        else:
            lines.append("%s == %s" % d)
    lines.append("====")
    return "\n".join(lines) + "\n"
