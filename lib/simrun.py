"""Running real toasty parallel code under the deterministic scheduler (lib/simmp.py):
schedule policies, outcome classification, and the table-driven replay of TLC behaviours (mechanism M2)."""
import contextlib
import io
import sys

from . import simmp


class Outcome(object):
    def __init__(self):
        self.status = None      # 'returned' | 'raised' | 'hang' | 'limit'
        self.exc = None
        self.steps = 0
        self.trace = []
        self.workers_alive_at_return = []
        self.maxsizes = {}

    def __repr__(self):
        return "<Outcome %s steps=%d exc=%r>" % (self.status, self.steps, self.exc)


# ------------------------------------------------------------------------------------------
# schedule policies: functions (rng) -> choose(enabled) -> index
# ------------------------------------------------------------------------------------------

def pol_random(rng):
    return lambda en: rng.randrange(len(en))


def pol_weighted(rng, weight):
    """weight(choice) -> relative weight (0 = only if nothing else)."""
    def choose(en):
        ws = [weight(c) for c in en]
        if sum(ws) <= 0:
            return rng.randrange(len(en))
        r = rng.random() * sum(ws)
        acc = 0.0
        for i, w in enumerate(ws):
            acc += w
            if r < acc:
                return i
        return len(en) - 1
    return choose


def _prefer(rng, pred_first, pred_last=None, p=0.85):
    """Adversarial but fair with probability 1: with probability p follow the preference, else choose uniformly
    (an always-preferred timeout could otherwise spin for ever, which no fair scheduler allows)."""
    def choose(en):
        if rng.random() >= p:
            return rng.randrange(len(en))
        first = [i for i, c in enumerate(en) if pred_first(c)]
        if first:
            return rng.choice(first)
        if pred_last is not None:
            rest = [i for i, c in enumerate(en) if not pred_last(c)]
            if rest:
                return rng.choice(rest)
        return rng.randrange(len(en))
    return choose


def is_feeder(c):
    return c[0].startswith("feeder:")


def pol_starve_feeder(rng):
    """Never run a feeder flush unless nothing else is enabled; fire timeouts eagerly."""
    return _prefer(rng, simmp.is_timeout, is_feeder)


def pol_eager_timeout(rng):
    return _prefer(rng, simmp.is_timeout)


def pol_late_timeout(rng):
    return _prefer(rng, lambda c: False, simmp.is_timeout)


def pol_main_first(rng):
    """The parent races ahead of everybody (late workers)."""
    return _prefer(rng, lambda c: c[0] == "main" or is_feeder(c))


def pol_main_last(rng):
    return _prefer(rng, lambda c: False, lambda c: c[0] == "main")


def pol_stall_worker(rng, worker="w1", op="cb_end"):
    """One worker is never scheduled at a given operation while anything else can run."""
    return _prefer(rng, lambda c: False, lambda c: c[0] == worker and c[1][0] == op)


def pol_priority(rng, rank, noise=0.03):
    """Choose among the enabled choices of the best (lowest) rank; with probability `noise` choose uniformly."""
    def choose(en):
        if rng.random() < noise:
            return rng.randrange(len(en))
        rs = [rank(c) for c in en]
        best = min(rs)
        return rng.choice([i for i, r in enumerate(rs) if r == best])
    return choose


def pol_flag_race(rng):
    """The C03 race: the workers run ahead through their (empty) fetches, but a flag read that FOLLOWS an empty
    fetch is delayed as long as anything else can run; the producer and its feeder run only when no worker can do
    anything else."""
    box = {}

    def last_outcome(actor):
        S = box.get("S")
        if S is None:
            return None
        for a, _op, o in reversed(S.trace):
            if a == actor:
                return o
        return None

    def rank(c):
        if c[1][0] == "is_set" and last_outcome(c[0]) in ("empty", "timeout"):
            return 3
        if c[0].startswith("w") and c[1][0] not in ("cb_start", "cb_end"):
            return 0
        if c[0] == "main" or is_feeder(c):
            return 1
        return 2
    choose = pol_priority(rng, rank)
    choose.bind = lambda S: box.__setitem__("S", S)
    return choose


def pol_workers_last(rng):
    """The producer finishes everything before any worker is scheduled."""
    return pol_priority(rng, lambda c: 0 if (c[0] == "main" or is_feeder(c)) else 1)


POLICIES = {
    "random": pol_random,
    "starve-feeder": pol_starve_feeder,
    "eager-timeout": pol_eager_timeout,
    "late-timeout": pol_late_timeout,
    "main-first": pol_main_first,
    "main-last": pol_main_last,
    "stall-w1-cb": lambda rng: pol_stall_worker(rng, "w1", "cb_end"),
    "stall-w2-get": lambda rng: pol_stall_worker(rng, "w2", "rlock"),
    "flag-race": pol_flag_race,
    "workers-last": pol_workers_last,
}


@contextlib.contextmanager
def quiet():
    old = sys.stdout
    sys.stdout = io.StringIO()
    try:
        yield
    finally:
        sys.stdout = old


def run(main_fn, choose, max_steps=15000, hang_rounds=30):
    """Run main_fn() as the parent process of a simulated multi-process execution."""
    out = Outcome()
    with simmp.installed() as S:
        with quiet():
            S.spawn("main", main_fn, kind="main")
            if hasattr(choose, "bind"):
                choose.bind(S)
            status, steps = simmp.run_schedule(S, choose, max_steps=max_steps, hang_rounds=hang_rounds,
                                               done=lambda: not S.alive("main") and S.pending("main") == ("done",))
            a = S.actors["main"]
            out.steps = steps
            out.trace = list(S.trace)
            out.maxsizes = {q.name: q.maxsize for q in S.queues.values()}
            if a["state"] == "done":
                out.exc = a.get("exc")
                out.status = "raised" if out.exc is not None else "returned"
                out.workers_alive_at_return = [p.name for p in S.procs if p.started and S.alive(p.name)]
            else:
                out.status = "hang" if status == "hang" else "limit"
    return out


# ------------------------------------------------------------------------------------------
# replay of a TLC behaviour
# ------------------------------------------------------------------------------------------

class ReplayMismatch(Exception):
    def __init__(self, step, act, why, detail=None):
        Exception.__init__(self, "step %d %s: %s" % (step, act, why))
        self.step, self.act, self.why, self.detail = step, act, why, detail


def replay(main_fn, behaviour, setup, do_action, project, expect, max_setup=1000):
    """Step the real code through a TLC behaviour.

    setup(S)                 drive the run to the spec's initial state
    do_action(S, rec)        perform the sim steps that correspond to spec step `rec` (raises KeyError if not enabled)
    project(S)               abstract state of the real run (dict)
    expect(rec)              the spec's state for the same keys (dict)
    Returns (nsteps, final S-derived info dict).  Raises ReplayMismatch."""
    with simmp.installed() as S:
        with quiet():
            S.spawn("main", main_fn, kind="main")
            setup(S)
            st, ex = project(S), expect(behaviour[0])
            if st != ex:
                raise ReplayMismatch(0, "Init", "initial state differs", {k: (st[k], ex[k]) for k in st if st[k] != ex.get(k)})
            n = 0
            for rec in behaviour[1:]:
                n += 1
                try:
                    do_action(S, rec)
                except KeyError as e:
                    raise ReplayMismatch(n, rec.get("act"), "spec action not enabled in the code: %s" % (e,), None)
                st, ex = project(S), expect(rec)
                if st != ex:
                    raise ReplayMismatch(n, rec.get("act"), "state differs after the step",
                                         {k: (st[k], ex.get(k)) for k in st if st[k] != ex.get(k)})
            a = S.actors["main"]
            info = {"main_done": a["state"] == "done", "exc": a.get("exc")}
    return n, info
