"""The lattice embedding psi of spec/ToastLattice.tla: lattice point -> unit vector on the sphere.

A lattice point at refinement R is (i, j), 0 <= i, j <= 2^R (i = column, j = row, row 0 on top).  The nine
level-1 points are anchored by the documented layout (ToastLattice!Anchor, emitted by TLC); every other point is
the great-circle midpoint of its defining pair (ToastLattice!Def).  `def_pair` is the closed form of Def; every
check that uses it first validates it against the table TLC emits for a whole lattice (validate_def).

Trusted side condition: normalize(a + b) is the great-circle midpoint of unit vectors a, b (checked by its
identity in check_midpoint)."""
import numpy as np


def lvl(i, j, R):
    """Level at which the point first appears (ToastLattice!Lvl)."""
    v = i | j
    if v == 0:
        return 0
    tz = (v & -v).bit_length() - 1
    return max(R - tz, 0)


def inc(n, x, y):
    h = 1 << (n - 1)
    return (x >= h) == (y >= h)


def def_pair(i, j, R):
    """ToastLattice!Def in closed form: the two lattice points (at the same refinement R) whose midpoint (i, j) is,
    or None for the nine anchored points."""
    L = lvl(i, j, R)
    if L <= 1:
        return None
    s = 1 << (R - L)
    a, b = i // s, j // s
    if a % 2 == 1 and b % 2 == 0:
        return ((i - s, j), (i + s, j))
    if a % 2 == 0 and b % 2 == 1:
        return ((i, j - s), (i, j + s))
    if inc(L - 1, a // 2, b // 2):
        return ((i - s, j + s), (i + s, j - s))
    return ((i - s, j - s), (i + s, j + s))


def validate_def(table, R):
    """table: list of [[i, j], [[a, b], [c, d]] or []] emitted by TLC for the whole lattice at refinement R.
    Returns the number of points compared; raises AssertionError on the first disagreement."""
    n = 0
    for p, d in table:
        mine = def_pair(p[0], p[1], R)
        exp = None if not d else frozenset(tuple(q) for q in d)
        got = None if mine is None else frozenset(mine)
        assert got == exp, "lib/lattice.def_pair(%s, R=%d) = %s but TLC's Def gives %s" % (p, R, mine, d)
        n += 1
    return n


def lonlat_to_vec(lon, lat):
    """toasty's convention (_equ_to_xyz): x = cos lon cos lat, y = sin lat, z = sin lon cos lat."""
    lon = np.asarray(lon, dtype=float)
    lat = np.asarray(lat, dtype=float)
    cl = np.cos(lat)
    return np.stack([np.cos(lon) * cl, np.sin(lat), np.sin(lon) * cl], axis=-1)


def vec_to_lonlat(v):
    v = np.asarray(v, dtype=float)
    lat = np.arcsin(np.clip(v[..., 1], -1, 1))
    lon = np.arctan2(v[..., 2], v[..., 0]) % (2 * np.pi)
    return lon, lat


def _norm(v):
    return v / np.linalg.norm(v, axis=-1, keepdims=True)


class Psi(object):
    def __init__(self, anchors):
        """anchors: {(i, j) at R = 1: (lon90, latcode)} from TLC (latcode 0 equator, 1 north pole, 3 south pole)."""
        self.memo = {}
        for (i, j), (lon90, latc) in anchors.items():
            lat = {0: 0.0, 1: np.pi / 2, 3: -np.pi / 2}[latc]
            self.memo[(1, i, j)] = lonlat_to_vec(lon90 * np.pi / 2, lat)

    @staticmethod
    def canon(i, j, R):
        if R == 0:
            return (1, 2 * i, 2 * j)
        while R > 1 and (i | j) & 1 == 0:
            i >>= 1
            j >>= 1
            R -= 1
        return (R, i, j)

    def vec(self, i, j, R):
        key = self.canon(i, j, R)
        v = self.memo.get(key)
        if v is not None:
            return v
        R2, i2, j2 = key
        (a, b) = def_pair(i2, j2, R2)
        v = _norm(self.vec(a[0], a[1], R2) + self.vec(b[0], b[1], R2))
        self.memo[key] = v
        return v

    def corners(self, n, x, y):
        """ul, ur, lr, ll of tile (n, x, y)."""
        return [self.vec(x, y, n), self.vec(x + 1, y, n), self.vec(x + 1, y + 1, n), self.vec(x, y + 1, n)]

    def centre(self, n, x, y):
        return self.vec(2 * x + 1, 2 * y + 1, n + 1)

    def grid(self, n, x, y, k):
        """(2^k, 2^k, 3) array: [r, c] = centre of tile (n + k, 2^k x + c, 2^k y + r), built level by level from Def
        (vectorised; agrees with vec() - see selfcheck)."""
        assert n >= 1
        c = self.corners(n, x, y)
        # g[row, col] over the (2^m + 1)^2 lattice points of level n + m inside the tile
        g = np.empty((2, 2, 3))
        g[0, 0], g[0, 1], g[1, 1], g[1, 0] = c[0], c[1], c[2], c[3]
        increasing = inc(n, x, y)       # constant inside a tile of level >= 1
        for m in range(k + 1):
            size = g.shape[0]
            ng = np.empty((2 * size - 1, 2 * size - 1, 3))
            ng[0::2, 0::2] = g
            ng[0::2, 1::2] = _norm(g[:, :-1] + g[:, 1:])          # horizontal edges
            ng[1::2, 0::2] = _norm(g[:-1, :] + g[1:, :])          # vertical edges
            if increasing:
                ng[1::2, 1::2] = _norm(g[1:, :-1] + g[:-1, 1:])   # ll + ur
            else:
                ng[1::2, 1::2] = _norm(g[:-1, :-1] + g[1:, 1:])   # ul + lr
            g = ng
        # after k + 1 refinements the odd-odd points are the centres of the level n + k tiles
        return g[1::2, 1::2]


def check_midpoint(a, b, m, tol=1e-12):
    """The identity that defines the great-circle midpoint: unit length, equidistant, coplanar, on the short arc."""
    return (abs(np.dot(m, m) - 1) < tol and abs(np.dot(m, a) - np.dot(m, b)) < tol
            and abs(np.dot(np.cross(a, b), m)) < tol and np.dot(m, a + b) > 0)
