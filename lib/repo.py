"""Import toasty from the tree under test ($VERIF_REPO, default /repo) - always the current working tree,
never an installed copy.  The compiled extension is rebuilt from toasty/_libtoasty.c with gcc when the
tree has no usable .so or its .c is newer than its .so (Cython is not available in this sandbox, so a
.pyx edit cannot be compiled by anyone here; the situation is reported, not ignored)."""
import glob
import hashlib
import importlib.machinery
import importlib.util
import os
import subprocess
import sys
import sysconfig

from .core import REPO, GUARD, VERIF

_done = {}


def _sha(path):
    h = hashlib.sha256()
    with open(path, "rb") as f:
        h.update(f.read())
    return h.hexdigest()


def _build_so(c_path, outdir):
    import numpy
    suffix = sysconfig.get_config_var("EXT_SUFFIX")
    out = os.path.join(outdir, "_libtoasty" + suffix)
    cmd = ["gcc", "-shared", "-fPIC", "-O1", "-w", "-I" + sysconfig.get_paths()["include"],
           "-I" + numpy.get_include(), c_path, "-o", out, "-lm"]
    subprocess.run(cmd, check=True)
    return out


def setup(ctx=None):
    """Put REPO first on sys.path and make sure toasty._libtoasty is loadable from it."""
    if _done:
        return _done
    os.environ[GUARD] = "1"
    os.environ.setdefault("PYTHONHASHSEED", "0")
    if REPO in sys.path:
        sys.path.remove(REPO)
    sys.path.insert(0, REPO)
    for k in [k for k in sys.modules if k == "toasty" or k.startswith("toasty.")]:
        del sys.modules[k]
    info = {"repo": REPO, "libtoasty": None, "pyx_note": None}
    tdir = os.path.join(REPO, "toasty")
    sos = glob.glob(os.path.join(tdir, "_libtoasty*.so"))
    c_path = os.path.join(tdir, "_libtoasty.c")
    need_build = False
    if not sos:
        need_build = True
    elif os.path.exists(c_path) and os.path.getmtime(c_path) > os.path.getmtime(sos[0]) + 1:
        need_build = True
    if need_build:
        src = c_path if os.path.exists(c_path) else "/repo/toasty/_libtoasty.c"
        outdir = (ctx.mkdtemp("so") if ctx is not None else os.path.join("/tmp", "verif-so-%d" % os.getpid()))
        os.makedirs(outdir, exist_ok=True)
        so = _build_so(src, outdir)
        import toasty  # the package itself is pure python
        loader = importlib.machinery.ExtensionFileLoader("toasty._libtoasty", so)
        spec = importlib.util.spec_from_loader("toasty._libtoasty", loader)
        mod = importlib.util.module_from_spec(spec)
        loader.exec_module(mod)
        sys.modules["toasty._libtoasty"] = mod
        toasty._libtoasty = mod
        info["libtoasty"] = "rebuilt from %s" % src
    else:
        info["libtoasty"] = os.path.basename(sos[0])
    import toasty
    if not os.path.abspath(toasty.__file__).startswith(os.path.abspath(REPO)):
        raise RuntimeError("toasty imported from %s, not from %s" % (toasty.__file__, REPO))
    # pyx edited but not compilable here?
    pyx = os.path.join(tdir, "_libtoasty.pyx")
    ref = os.path.join(VERIF, "lib", "pyx.sha256")
    if os.path.exists(pyx) and os.path.exists(ref):
        if _sha(pyx) != open(ref).read().strip():
            info["pyx_note"] = "toasty/_libtoasty.pyx differs from the version the available _libtoasty.c was generated from; Cython is not installed, so the edit cannot be compiled or exercised here"
    _done.update(info)
    if ctx is not None:
        ctx.note("tree_under_test", info)
    return info
