"""Run a function that starts real worker processes inside a forked child with a wall-clock backstop.
The timeout is only a backstop for genuine hangs (generous: 20x the expected duration); verdicts never
depend on timing otherwise."""
import multiprocessing as mp
import os
import pickle
import signal
import time


def run_guarded(fn, timeout):
    """-> ("ok", value) | ("raised", repr) | ("timeout", None).  fn runs in a forked child in its own process
    group, so that everything it started can be killed."""
    r, w = os.pipe()
    pid = os.fork()
    if pid == 0:
        code = 0
        try:
            os.close(r)
            os.setpgid(0, 0)
            try:
                out = ("ok", fn())
            except BaseException as e:  # noqa
                out = ("raised", repr(e))
            with os.fdopen(w, "wb") as f:
                pickle.dump(out, f)
        except BaseException:  # noqa
            code = 3
        finally:
            os._exit(code)
    os.close(w)
    t0 = time.time()
    data = b""
    os.set_blocking(r, False)
    done = False
    while time.time() - t0 < timeout:
        try:
            chunk = os.read(r, 1 << 16)
            if chunk == b"":
                done = True
                break
            data += chunk
        except BlockingIOError:
            p, st = os.waitpid(pid, os.WNOHANG)
            if p == pid:
                # child gone; drain
                try:
                    while True:
                        chunk = os.read(r, 1 << 16)
                        if not chunk:
                            break
                        data += chunk
                except BlockingIOError:
                    pass
                done = True
                pid = None
                break
            time.sleep(0.02)
    os.close(r)
    if pid is not None:
        if not done:
            try:
                os.killpg(pid, signal.SIGKILL)
            except ProcessLookupError:
                pass
        try:
            os.waitpid(pid, 0)
        except ChildProcessError:
            pass
        try:
            os.killpg(pid, signal.SIGKILL)     # stragglers (daemonic workers) of a finished child
        except (ProcessLookupError, PermissionError):
            pass
    if not done:
        return ("timeout", None)
    if not data:
        return ("raised", "child died without a result")
    return pickle.loads(data)
