"""Run a function that starts real worker processes inside a forked child with a wall-clock backstop.
The timeout is only a backstop for genuine hangs (generous: 20x the expected duration); verdicts never
depend on timing otherwise."""
import multiprocessing as mp
import os
import pickle
import signal
import time


def run_guarded(fn, timeout):
    """-> ("ok", value) | ("raised", repr) | ("timeout", None).  fn runs in a forked child in its own process
    group, so that everything it started can be killed."""
    r, w = os.pipe()
    pid = os.fork()
    if pid == 0:
        code = 0
        try:
            os.close(r)
            os.setpgid(0, 0)
            try:
                out = ("ok", fn())
            except BaseException as e:  # noqa
                out = ("raised", repr(e))
            with os.fdopen(w, "wb") as f:
                pickle.dump(out, f)
        except BaseException:  # noqa
            code = 3
        finally:
            os._exit(code)
    os.close(w)
    t0 = time.time()
    data = b""
    os.set_blocking(r, False)
    done = False
    while time.time() - t0 < timeout:
        try:
            chunk = os.read(r, 1 << 16)
            if chunk == b"":
                done = True
                break
            data += chunk
        except BlockingIOError:
            p, st = os.waitpid(pid, os.WNOHANG)
            if p == pid:
                # child gone; drain
                try:
                    while True:
                        chunk = os.read(r, 1 << 16)
                        if not chunk:
                            break
                        data += chunk
                except BlockingIOError:
                    pass
                done = True
                pid = None
                break
            time.sleep(0.02)
    os.close(r)
    if pid is not None:
        if not done:
            try:
                os.killpg(pid, signal.SIGKILL)
            except ProcessLookupError:
                pass
        try:
            os.waitpid(pid, 0)
        except ChildProcessError:
            pass
        try:
            os.killpg(pid, signal.SIGKILL)     # stragglers (daemonic workers) of a finished child
        except (ProcessLookupError, PermissionError):
            pass
    if not done:
        return ("timeout", None)
    if not data:
        return ("raised", "child died without a result")
    return pickle.loads(data)


class TimeLimitExceeded(Exception):
    pass


class time_limit(object):
    """with time_limit(seconds): ...  -- raises TimeLimitExceeded in the main thread if the body runs longer.
    A backstop for sequential code that stops returning (a genuine non-termination is then reported as such);
    the limit is far above the normal duration, so verdicts on terminating code never depend on it."""

    def __init__(self, seconds):
        self.seconds = seconds

    def _handler(self, signum, frame):
        raise TimeLimitExceeded("no result after %s s" % self.seconds)

    def __enter__(self):
        self.old = signal.signal(signal.SIGALRM, self._handler)
        signal.setitimer(signal.ITIMER_REAL, self.seconds)
        return self

    def __exit__(self, *a):
        signal.setitimer(signal.ITIMER_REAL, 0)
        signal.signal(signal.SIGALRM, self.old)
        return False
