"""./check selftest [--only C03] [--jobs 4] [--seeded]

Demonstrates the binding between specification and code (DESIGN 10): every patch in mutants/ (and, with --seeded,
every kept sub-agent change in seeded/*/patch.diff) is applied to a scratch copy of /repo (outside /repo and /verif,
removed afterwards), the owning property's quick check is run with VERIF_REPO pointing at the copy, and a
VIOLATION line is required.  Also runs the legacy-protocol TLC configs that must be refuted.
A development aid, not a registered check."""
import argparse
import concurrent.futures
import glob
import json
import os
import shutil
import subprocess
import sys
import tempfile
import time

from .core import VERIF


def run_one(job):
    name, pid, patches = job
    d = tempfile.mkdtemp(prefix="selftest-repo-")
    t0 = time.time()
    try:
        subprocess.run(["rsync", "-a", "--exclude", ".git", "/repo/", d + "/"], check=True)
        for p in patches:
            r = subprocess.run(["patch", "-p1", "-s", "--no-backup-if-mismatch", "-i", p], cwd=d, stdout=subprocess.PIPE, stderr=subprocess.STDOUT, text=True)
            if r.returncode != 0:
                return name, pid, "PATCH-FAILED", r.stdout[-300:], time.time() - t0
        env = dict(os.environ, VERIF_REPO=d)
        try:
            r = subprocess.run([os.path.join(VERIF, "check"), pid, "--tier", "quick"], cwd=VERIF, env=env, stdout=subprocess.PIPE,
                               stderr=subprocess.STDOUT, text=True, timeout=1500)
            out = r.stdout
            rc = r.returncode
        except subprocess.TimeoutExpired as e:
            out = (e.stdout or b"").decode(errors="replace") if isinstance(e.stdout, bytes) else (e.stdout or "")
            rc = -9
        viol = [l for l in out.splitlines() if l.startswith("VIOLATION")]
        what = [l.strip() for l in out.splitlines() if l.strip().startswith("what:")]
        if rc == 1 and viol:
            keys = sorted({w[w.rindex("[") + 1:-1] for w in what if w.rstrip().endswith("]") and "[" in w})
            return name, pid, "CAUGHT", (what[0][:200] if what else "") + " ||KEYS|| " + ",".join(keys[:6]), time.time() - t0
        if rc == 0:
            drift = [l for l in out.splitlines() if l.startswith("CONFORMANCE-DRIFT")]
            return name, pid, "MISSED", ("drift only: " + drift[0][:160]) if drift else "check passed", time.time() - t0
        return name, pid, "ERROR rc=%s" % rc, out[-300:].replace("\n", " | "), time.time() - t0
    finally:
        shutil.rmtree(d, ignore_errors=True)


def refactors(args):
    """refactors/*.patch are property-PRESERVING changes (restructured code, renamed variables, a different but equally valid
    order); the checks named in the accompanying .txt must pass on them: no VIOLATION, exit status 0 (drift lines allowed)."""
    jobs = []
    for p in sorted(glob.glob(os.path.join(VERIF, "refactors", "*.patch"))):
        txt = open(p[:-6] + ".txt").read()
        checks = txt.splitlines()[0].split(":", 1)[1].split()
        for pid in checks:
            if args.only and pid != args.only:
                continue
            jobs.append((os.path.basename(p), pid, [p]))
    print("selftest: %d (refactor, check) pairs" % len(jobs))
    bad = 0
    with concurrent.futures.ThreadPoolExecutor(max_workers=args.jobs) as ex:
        for name, pid, verdict, info, dt in ex.map(run_one, jobs):
            quiet = verdict == "MISSED"          # the check passed: what is wanted here
            print("%-48s %-4s %-18s %5.0fs  %s" % (name, pid, "QUIET" if quiet else "ALARM (" + verdict + ")", dt, "" if quiet else info[:160]))
            sys.stdout.flush()
            if not quiet:
                bad += 1
    print("selftest: %d of %d pairs quiet" % (len(jobs) - bad, len(jobs)))
    return 0 if bad == 0 else 1


def main(argv):
    ap = argparse.ArgumentParser()
    ap.add_argument("--only", default=None)
    ap.add_argument("--jobs", type=int, default=3)
    ap.add_argument("--seeded", action="store_true")
    ap.add_argument("--no-mutants", action="store_true")
    ap.add_argument("--refactors", action="store_true", help="property-preserving changes (refactors/*.patch): every listed check must stay quiet")
    args = ap.parse_args(argv)
    jobs = []
    if not args.no_mutants:
        for p in sorted(glob.glob(os.path.join(VERIF, "mutants", "*.patch"))):
            base = os.path.basename(p)
            pid = base.split("-")[0]
            if args.only and pid != args.only:
                continue
            jobs.append((base, pid, [p]))
    if args.seeded:
        for m in sorted(glob.glob(os.path.join(VERIF, "seeded", "*", "meta.json"))):
            meta = json.load(open(m))
            pid = meta["property"]
            if args.only and pid != args.only:
                continue
            jobs.append(("seeded/" + os.path.basename(os.path.dirname(m)), pid, [os.path.join(os.path.dirname(m), "patch.diff")]))
    if args.refactors:
        return refactors(args)
    print("selftest: %d changes" % len(jobs))
    bad = 0
    with concurrent.futures.ThreadPoolExecutor(max_workers=args.jobs) as ex:
        for name, pid, verdict, info, dt in ex.map(run_one, jobs):
            keys = []
            if "||KEYS||" in info:
                info, k = info.split(" ||KEYS|| ")
                keys = [x for x in k.split(",") if x]
            print("%-52s %-4s %-14s %5.0fs  %s" % (name, pid, verdict, dt, info))
            sys.stdout.flush()
            if name.startswith("seeded/"):
                mp = os.path.join(VERIF, name, "meta.json")
                meta = json.load(open(mp))
                meta["recheck"] = {"rc": 1 if verdict == "CAUGHT" else 0, "verdict": verdict, "keys": keys, "wall_s": round(dt, 1),
                                   "verif_commit": subprocess.run(["git", "-C", VERIF, "rev-parse", "--short", "HEAD"], stdout=subprocess.PIPE, text=True).stdout.strip()}
                json.dump(meta, open(mp, "w"), indent=1)
            if verdict != "CAUGHT":
                bad += 1
    print("selftest: %d of %d changes detected" % (len(jobs) - bad, len(jobs)))
    return 0 if bad == 0 else 1
