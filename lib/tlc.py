"""Thin runner around TLC: copies the spec directory into the run's scratch area,
adds generated wrapper modules / cfg text, runs TLC under a timeout and parses what it says."""
import json
import os
import re
import shutil
import subprocess
import time

from .core import SPEC_DIR, MachineryError

JAR = "/opt/veriftools/tla/tla2tools.jar:/opt/veriftools/tla/CommunityModules-deps.jar"


class TlcResult(object):
    def __init__(self):
        self.ok = False           # TLC finished and found no error
        self.violated = None      # name of violated invariant / property, "deadlock", "assumption", ...
        self.generated = 0
        self.distinct = 0
        self.depth = 0
        self.output = ""
        self.printed = []         # raw PrintT lines (strings)
        self.wall = 0.0
        self.module = None
        self.mode = None
        self.cfg = None
        self.timed_out = False
        self.dir = None
        self.coverage = {}

    def summary(self):
        return {"module": self.module, "mode": self.mode, "ok": self.ok, "violated": self.violated,
                "states_generated": self.generated, "distinct_states": self.distinct, "depth": self.depth,
                "wall_s": round(self.wall, 2), "cfg": self.cfg}

    def json_lines(self, tag):
        """PrintT(<<tag, ToJson(x)>>) lines -> list of decoded objects."""
        out = []
        needle = '<<"%s", "' % tag
        for line in self.printed:
            if not line.startswith(needle):
                continue
            body = line[len(needle) - 1: line.rindex('"') + 1]
            out.append(json.loads(json.loads(body)))
        return out


_RE_STATES = re.compile(r"(\d+) states generated, (\d+) distinct states found")
_RE_SIM = re.compile(r"The number of states generated: (\d+)")
_RE_DEPTH = re.compile(r"The depth of the complete state graph search is (\d+)")
_RE_INV = re.compile(r"Error: Invariant (\S+) is violated")
_RE_ACTP = re.compile(r"Error: Action property (\S+) is violated")
_RE_COV = re.compile(r"^<(\w+) line \d+, col \d+ to line \d+, col \d+ of module (\w+)>: (\d+):(\d+)", re.M)


def run(ctx, module, cfg=None, cfg_text=None, extra=None, simulate=None, depth=None, workers=16,
        timeout=600, env=None, seed=None, dfs=False, coverage=False, expect_violation=False, count=True,
        deadlock=False, dump_dot=None, jvm_opts=None):
    """Run TLC on spec/<module>.tla.

    cfg       name of an existing cfg file in spec/ (default <module>.cfg)
    cfg_text  text of a cfg to write instead
    extra     {filename: text} additional generated modules written next to the copied specs
    simulate  number of behaviours for -simulate (None = exhaustive BFS)
    """
    wd = ctx.mkdtemp("tlc")
    for fn in os.listdir(SPEC_DIR):
        if fn.endswith(".tla") or fn.endswith(".cfg"):
            shutil.copy(os.path.join(SPEC_DIR, fn), wd)
    for fn, text in (extra or {}).items():
        with open(os.path.join(wd, fn), "w") as f:
            f.write(text)
    cfgname = cfg or (module + ".cfg")
    if cfg_text is not None:
        cfgname = module + "_gen.cfg"
        with open(os.path.join(wd, cfgname), "w") as f:
            f.write(cfg_text)
    if not os.path.exists(os.path.join(wd, cfgname)):
        raise MachineryError("no cfg %s for module %s" % (cfgname, module))
    cmd = ["java", "-XX:+UseParallelGC"]
    if dfs:
        cmd.append("-Dtlc2.tool.queue.IStateQueue=StateDeque")
    cmd += list(jvm_opts or [])
    cmd += ["-cp", JAR, "tlc2.TLC", "-metadir", os.path.join(wd, "meta"), "-noGenerateSpecTE",
            "-config", cfgname]
    if simulate is not None:
        cmd += ["-simulate", "num=%d" % simulate]
        if depth is not None:
            cmd += ["-depth", str(depth)]
        cmd += ["-seed", str(seed if seed is not None else ctx.seed)]
    if not deadlock:
        pass  # deadlock checking is controlled by the cfg (CHECK_DEADLOCK FALSE)
    if coverage:
        cmd += ["-coverage", "1"]
    if dump_dot:
        cmd += ["-dump", "dot,actionlabels", dump_dot]
    cmd += ["-workers", str(workers), module + ".tla"]
    e = dict(os.environ)
    e.update(env or {})
    r = TlcResult()
    r.module, r.cfg, r.dir = module, cfgname, wd
    r.mode = "simulate" if simulate is not None else "exhaustive"
    t0 = time.time()
    try:
        p = subprocess.run(cmd, cwd=wd, env=e, stdout=subprocess.PIPE, stderr=subprocess.STDOUT,
                           timeout=timeout, text=True, errors="replace")
        out = p.stdout
        rc = p.returncode
    except subprocess.TimeoutExpired as ex:
        out = ex.stdout if isinstance(ex.stdout, str) else (ex.stdout or b"").decode(errors="replace")
        rc = -9
        r.timed_out = True
    r.wall = time.time() - t0
    r.output = out
    for line in out.splitlines():
        if line.startswith("<<") or line.startswith('"') or line.startswith("[") or line.startswith("{"):
            r.printed.append(line)
    m = None
    for m in _RE_STATES.finditer(out):
        pass
    if m:
        r.generated, r.distinct = int(m.group(1)), int(m.group(2))
    else:
        m = None
        for m in _RE_SIM.finditer(out):
            pass
        if m:
            r.generated = int(m.group(1))
            r.distinct = r.generated
    m = _RE_DEPTH.search(out)
    if m:
        r.depth = int(m.group(1))
    if coverage:
        for mm in _RE_COV.finditer(out):
            r.coverage[mm.group(1)] = r.coverage.get(mm.group(1), 0) + int(mm.group(3))
    mi = _RE_INV.search(out) or _RE_ACTP.search(out)
    if mi:
        r.violated = mi.group(1)
    elif "Temporal properties were violated" in out:
        r.violated = "temporal"
    elif "Deadlock reached" in out:
        r.violated = "deadlock"
    elif "Assumption" in out and "is false" in out:
        r.violated = "assumption"
    elif "Error:" in out or (rc not in (0,) and not r.timed_out):
        r.violated = r.violated or "error"
    r.ok = (rc == 0) and r.violated is None and not r.timed_out
    if r.timed_out and simulate is None:
        raise MachineryError("TLC timed out after %ss on %s/%s" % (timeout, module, cfgname))
    if r.violated == "error" and not expect_violation:
        tail = "\n".join(out.splitlines()[-40:])
        raise MachineryError("TLC failed on %s/%s:\n%s" % (module, cfgname, tail))
    if not r.ok and not expect_violation and not r.timed_out:
        tail = "\n".join(out.splitlines()[-60:])
        raise MachineryError("TLC reports %s violated on spec %s/%s (the specified design itself is wrong):\n%s"
                             % (r.violated, module, cfgname, tail))
    return r


def parse_sim_stream(records, frozen_keys):
    """Split the per-state records emitted from an always-true invariant during `-simulate -workers 1`
    (each with 'lvl' = TLCGet("level")) into behaviours.  TLC evaluates the invariant on every initial state
    once (lvl 1) and then on the states of each simulated behaviour from lvl 2 on; the behaviour's initial state is
    the lvl-1 record that agrees with it on the frozen (never-changing) variables."""
    inits, behs, cur, last = [], [], None, 0
    for rec in records:
        if rec["lvl"] == 1:
            inits.append(rec)
            continue
        if rec["lvl"] == 2 and not (cur is not None and last == 2 and rec == cur[-1]):
            init = [r for r in inits if all(r[k] == rec[k] for k in frozen_keys)]
            if len(init) != 1:
                raise MachineryError("cannot identify the initial state of a simulated behaviour (%d candidates)" % len(init))
            cur = [init[0]]
            behs.append(cur)
            last = 1
        if cur is not None and rec["lvl"] == last and rec == cur[-1]:
            # TLC re-emits an unchanged state at the same level (a stuttering step - a polling action that found nothing
            # to do, taken again - or the end of a behaviour): not a step of the behaviour
            continue
        if cur is None or rec["lvl"] != last + 1:
            raise MachineryError("simulation stream out of order at level %s" % rec["lvl"])
        cur.append(rec)
        last = rec["lvl"]
    return behs
