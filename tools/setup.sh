#!/bin/sh
# Offline setup after a fresh restore: nothing to download or build ahead of time.
# Checks import toasty from /repo's working tree at run time and (re)build the C extension themselves
# if the tree has no usable one.  Here we only verify the toolchain the checks rely on.
set -e
cd "$(dirname "$0")/.."
mkdir -p evidence replay
/venv/bin/python -c "import numpy, astropy, PIL, filelock" 
java -cp /opt/veriftools/tla/tla2tools.jar tlc2.TLC -h >/dev/null 2>&1 || true
test -f /opt/veriftools/tla/tla2tools.jar
ls /repo/toasty/_libtoasty*.so >/dev/null 2>&1 || { test -f /repo/toasty/_libtoasty.c && echo "note: no compiled _libtoasty in /repo; checks will build it from _libtoasty.c with gcc"; }
echo "setup ok"
