#!/venv/bin/python
"""Regenerate /verif/MANIFEST.json from checks/registry.py."""
import json, os, sys
sys.path.insert(0, '/verif')
from checks import registry
props = [json.loads(l)['id'] for l in open('/verif/properties.jsonl')]
BASE = "cd /repo && env -u TOASTY_VERIF /venv/bin/python -m pytest -ra -q -p no:cacheprovider --timeout=900 --continue-on-collection-errors"
hooks_file = '/verif/hooks.json'
hooks = json.load(open(hooks_file)) if os.path.exists(hooks_file) else {"source_commits": [], "enable": "export TOASTY_VERIF=1 (./check sets it); no source hooks are installed: every observation point is reached from outside (DESIGN.md section 2)"}
m = {
 "version": 1,
 "setup_cmd": "cd /verif && ./tools/setup.sh",
 "hooks": {"guard": "TOASTY_VERIF", "enable": hooks["enable"], "baseline_off_cmd": BASE, "source_commits": hooks["source_commits"], "add_only": True},
 "engines": [
  {"name": "tlc", "path": "/verif/spec", "serves_properties": sorted(registry.CHECKS), "kind_free_text": "TLA+ specifications model-checked / simulated / evaluated by TLC 1.8; lib/tlc.py runs them"},
  {"name": "simmp", "path": "/verif/lib/simmp.py", "serves_properties": [p for p in ["C01", "C03", "C06", "C09", "C19"] if p in registry.CHECKS], "kind_free_text": "deterministic scheduler over a fake multiprocessing (Queue/Event/Process) used to replay TLC behaviours into the real parallel code and to record traces for TLC trace validation"},
 ],
 "checks": [],
 "not_applicable": [],
 "notes": "All checks: ./check <ID> --tier quick|thorough. Evidence is rewritten on every run. known_findings.txt lists known/fixed defects. DESIGN.md explains the approach."
}
for p in props:
    if p in registry.CHECKS:
        c = registry.CHECKS[p]
        m["checks"].append({
          "property_id": p,
          "quick_cmd": "./check %s --tier quick" % p,
          "thorough_cmd": "./check %s --tier thorough" % p,
          "evidence_file": "/verif/evidence/%s.json" % p,
          "replay_cmd_template": "./check %s --replay {path}" % p,
          "engine": "tlc",
          "level_claimed": {"category": c["category"], "text": c["text"], "design_ref": c["design_ref"]},
          "level_note": c["note"],
          "technique": c["technique"],
        })
    else:
        m["not_applicable"].append({"property_id": p, "reason": registry.NOT_APPLICABLE.get(p, registry.NOT_BUILT_REASON)})
json.dump(m, open('/verif/MANIFEST.json', 'w'), indent=1)
print("wrote MANIFEST.json:", len(m["checks"]), "checks,", len(m["not_applicable"]), "not applicable")
