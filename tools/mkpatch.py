#!/venv/bin/python
"""tools/mkpatch.py <out.patch> <repo-relative-file> <<< python-literal list of (old, new) pairs on stdin
Creates a unified diff (patch -p1) against /repo's current working tree."""
import ast, difflib, sys
out, rel = sys.argv[1], sys.argv[2]
pairs = ast.literal_eval(sys.stdin.read())
src = open('/repo/' + rel).read()
new = src
for old, rep in pairs:
    assert new.count(old) == 1, (old[:50], new.count(old))
    new = new.replace(old, rep)
d = difflib.unified_diff(src.splitlines(True), new.splitlines(True), 'a/' + rel, 'b/' + rel)
open(out, 'a').write(''.join(d))
print("wrote", out)
