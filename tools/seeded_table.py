#!/venv/bin/python
"""Markdown table of the independently seeded changes (seeded/*/meta.json) for DESIGN.md section 10."""
import glob, json, os
rows = []
for m in sorted(glob.glob('/verif/seeded/*/meta.json')):
    d = json.load(open(m))
    slug = os.path.basename(os.path.dirname(m))
    now = d.get('recheck') or {}
    caught = (d.get('check_rc') == 1)
    hist = d.get('history', '')
    if hist:
        verdict = ('caught now' if now.get('rc', d.get('check_rc')) == 1 else 'NOT caught') + ' - ' + hist.split(';')[0].split('. ')[0]
    else:
        verdict = 'caught by the first version of the check' if caught else ('caught now - missed by the version of the check it was first run against' if now.get('rc') == 1 else 'missed')
    own = now.get('rc', d.get('check_rc')) == 1
    other = d.get('caught_by_other_check')
    if other and not own:
        verdict = 'caught by the sibling check %s (%s)' % (other['check'], other.get('note', '').split(';')[0])
    elif other:
        verdict += ' (also caught by ' + other['check'] + ')'
    keys = (now.get('keys') or d.get('check_violation_keys') or [])[:3]
    if other and not own:
        keys = other.get('keys', [])[:3]
    rows.append('| `%s` | %s | %s | %s | %s |' % (slug, d['property'], d.get('needs', '').replace('|', '/'), verdict, ', '.join('`%s`' % k for k in keys)))
print('| seeded change | property | needs, to manifest | result | monitor keys that fire |')
print('|---|---|---|---|---|')
print('\n'.join(rows))
