#!/bin/sh
# usage: tools/confirm_many.sh <listfile> [jobs]   -- listfile lines:  <seed-dir>|<PROPERTY>|<slug>|<needs text>
# Confirms and files independently seeded changes (tools/confirm_seed.py), <jobs> at a time (default 4).
cd /verif
jobs=${2:-4}
n=0
while IFS='|' read -r dir pid slug needs; do
  [ -z "$dir" ] && continue
  ( tools/confirm_seed.py "$dir" "$pid" "$slug" --needs "$needs" > /tmp/seed/conf-$slug.log 2>&1
    echo "$slug: $(grep -E 'check_last|NOT CONFIRMED|kept as' /tmp/seed/conf-$slug.log | tr '\n' ' ' | cut -c1-260)" ) &
  n=$((n+1))
  if [ $((n % jobs)) -eq 0 ]; then wait; fi
done < "$1"
wait
