#!/venv/bin/python
"""tools/confirm_seed.py <seed-dir> <PROPERTY> <slug> [--needs "text"]
Confirms an independently written property-breaking change and files it under seeded/<slug>/:
  1. fresh scratch git worktree of /repo (outside /repo and /verif) with the compiled extension copied in;
  2. the demonstration passes on the unchanged tree;
  3. the patch applies; the demonstration now fails;
  4. the repository's test suite gives the baseline result (46 passed, the 3 known failures) with the patch;
  5. the property's quick check is run against the patched tree (VERIF_REPO) and its verdict recorded;
  6. the worktree is removed.
"""
import json, os, shutil, subprocess, sys, time
seed, pid, slug = sys.argv[1], sys.argv[2], sys.argv[3]
needs = sys.argv[sys.argv.index("--needs") + 1] if "--needs" in sys.argv else ""
nocheck = "--no-check" in sys.argv
wt = "/tmp/seedconf-%s" % slug
def sh(cmd, **kw):
    return subprocess.run(cmd, shell=True, stdout=subprocess.PIPE, stderr=subprocess.STDOUT, text=True, **kw)
sh("git -C /repo worktree remove --force %s" % wt)
r = sh("git -C /repo worktree add --detach %s HEAD" % wt); assert r.returncode == 0, r.stdout
sh("cp /repo/toasty/_libtoasty*.so /repo/toasty/_libtoasty.c %s/toasty/" % wt)
res = {"property": pid, "slug": slug, "needs": needs, "repo_head": sh("git -C /repo rev-parse --short HEAD").stdout.strip(), "ran": []}
try:
    env = dict(os.environ, PYTHONPATH=wt); env.pop("TOASTY_VERIF", None)
    demo = os.path.join(seed, "demo.py")
    r = sh("cd %s && timeout 900 /venv/bin/python %s" % (wt, demo), env=env); res["demo_unchanged_rc"] = r.returncode
    res["ran"].append("demo.py on unchanged worktree -> rc %d" % r.returncode)
    r = sh("cd %s && git apply %s" % (wt, os.path.join(seed, "patch.diff"))); assert r.returncode == 0, "patch does not apply: " + r.stdout
    r = sh("cd %s && timeout 900 /venv/bin/python %s" % (wt, demo), env=env); res["demo_changed_rc"] = r.returncode
    res["demo_changed_tail"] = r.stdout[-400:]
    res["ran"].append("demo.py with patch -> rc %d" % r.returncode)
    r = sh("cd %s && /venv/bin/python -m pytest -q -p no:cacheprovider --timeout=900 toasty/tests 2>&1 | tail -6" % wt, env=env)
    res["suite_with_patch"] = r.stdout.strip().splitlines()[-1] if r.stdout.strip() else ""
    fails = sorted(l.split()[1] for l in r.stdout.splitlines() if l.startswith("FAILED"))
    res["suite_failures"] = fails
    res["ran"].append("pytest toasty/tests with patch -> %s" % res["suite_with_patch"])
    base = ["toasty/tests/test_avm.py::TestAvm::test_check_cli_good", "toasty/tests/test_study.py::TestStudy::test_avm", "toasty/tests/test_study.py::TestStudy::test_avm_from"]
    res["suite_ok"] = (fails == base and "46 passed" in res["suite_with_patch"])
    if not nocheck:
        t0 = time.time()
        r = sh("cd /verif && timeout 1500 ./check %s --tier quick" % pid, env=dict(os.environ, VERIF_REPO=wt))
        lines = r.stdout.splitlines()
        res["check_rc"] = r.returncode
        res["check_wall_s"] = round(time.time() - t0, 1)
        res["check_violation_keys"] = sorted({l[l.rindex("[") + 1:-1] for l in lines if l.strip().startswith("what:") and l.rstrip().endswith("]")})[:8]
        res["check_drift"] = [l[:200] for l in lines if l.startswith("CONFORMANCE-DRIFT")][:3]
        res["check_last"] = lines[-1] if lines else ""
        res["ran"].append("./check %s --tier quick with VERIF_REPO=<patched worktree> -> rc %d" % (pid, r.returncode))
    res["confirmed"] = bool(res["demo_unchanged_rc"] == 0 and res["demo_changed_rc"] != 0 and res["suite_ok"])
finally:
    sh("git -C /repo worktree remove --force %s" % wt)
    shutil.rmtree(wt, ignore_errors=True)
print(json.dumps(res, indent=1))
if res.get("confirmed"):
    out = "/verif/seeded/%s" % slug
    os.makedirs(out, exist_ok=True)
    for fn in ("patch.diff", "demo.py", "notes.md"):
        if os.path.exists(os.path.join(seed, fn)):
            shutil.copy(os.path.join(seed, fn), out)
    json.dump(res, open(os.path.join(out, "meta.json"), "w"), indent=1)
    print("kept as", out)
else:
    print("NOT CONFIRMED - not kept")
