#!/usr/bin/env python3-vt
"""Validate MANIFEST.json and every evidence file against the schemas (run with python3-vt)."""
import glob, json, sys, jsonschema
ok = True
m = json.load(open('/verif/MANIFEST.json'))
try:
    jsonschema.validate(m, json.load(open('/root/.vp/MANIFEST.schema.json'))); print("MANIFEST ok: %d checks, %d n/a" % (len(m['checks']), len(m.get('not_applicable', []))))
except Exception as e:
    ok = False; print("MANIFEST INVALID", e)
es = json.load(open('/root/.vp/EVIDENCE.schema.json'))
for f in sorted(glob.glob('/verif/evidence/*.json')):
    try:
        jsonschema.validate(json.load(open(f)), es); print("evidence ok", f)
    except Exception as e:
        ok = False; print("EVIDENCE INVALID", f, str(e)[:300])
props = [json.loads(l)['id'] for l in open('/verif/properties.jsonl')]
claimed = {c['property_id'] for c in m['checks']}; na = {c['property_id'] for c in m.get('not_applicable', [])}
for p in props:
    if p not in claimed and p not in na: ok = False; print("property neither claimed nor n/a:", p)
    if p in claimed and p in na: ok = False; print("property both claimed and n/a:", p)
sys.exit(0 if ok else 1)
