#!/bin/sh
# usage: tools/with_mutant.sh <patch-file|-e 'sed-expr' file> -- <command...>
# Makes a scratch copy of /repo (outside /repo and /verif), applies the change, runs the command with
# VERIF_REPO pointing at it, removes the copy.
set -e
d=$(mktemp -d /tmp/mutrepo.XXXXXX)
trap 'rm -rf "$d"' EXIT
rsync -a --exclude .git /repo/ "$d"/
if [ "$1" = "-e" ]; then
  sed -i "$2" "$d/$3"; shift 3
  ( cd /repo && diff -u "$OLDPWD/dev/null" /dev/null >/dev/null 2>&1 || true )
else
  ( cd "$d" && patch -p1 -s < "$1" ); shift 1
fi
[ "$1" = "--" ] && shift
VERIF_REPO="$d" "$@"
