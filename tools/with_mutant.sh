#!/bin/sh
# usage: tools/with_mutant.sh <patch-file> [<patch-file> ...] -- <command...>
#        tools/with_mutant.sh -e '<sed-expr>' <file-relative-to-repo> -- <command...>
# Makes a scratch copy of /repo (outside /repo and /verif), applies the change(s), runs the command with
# VERIF_REPO pointing at the copy, removes the copy.
set -e
d=$(mktemp -d /tmp/mutrepo.XXXXXX)
trap 'rm -rf "$d"' EXIT
rsync -a --exclude .git /repo/ "$d"/
if [ "$1" = "-e" ]; then
  cp "$d/$3" "$d/$3.orig"
  sed -i "$2" "$d/$3"
  if cmp -s "$d/$3" "$d/$3.orig"; then echo "with_mutant: sed expression changed nothing" >&2; exit 3; fi
  rm -f "$d/$3.orig"
  shift 3
else
  while [ "$1" != "--" ]; do
    p=$(realpath "$1"); ( cd "$d" && patch -p1 -s --no-backup-if-mismatch < "$p" ); shift
  done
fi
[ "$1" = "--" ] && shift
VERIF_REPO="$d" "$@"
