"""C12 - point lookup returns the tile and pixel that actually contain the point.

Spec: the lookup part of spec/ToastLattice.tla - Admissible(p, d) (the tiles of depth d whose closed cell holds the
lattice point p or a point sewn to it by the fold), the descent state machine (LookupHolds, NeverStuck, LookupNested)
and T_LookupCentre; TLC emits Admissible for every lattice point of the bounded lattice at every depth.
spec/ToastQuery.tla adds the query as the caller writes it: points that are no lattice points (the unit square holding
them, T_UnitCell / T_InteriorPoint: the closed form used deeper than TLC's lattice; TLC emits the holders of every unit
square) and the number format of the query as a variable of the lookup machine (the answer is owed to the point denoted).
Binding: test points are generated FROM the lattice (tile centres, pixel centres, edge midpoints, corners, the
equator diamond, the prime-meridian seam, the poles, the sewn boundary), mapped to the sphere by psi, shifted by
multiples of 2 pi, and fed to the real toast_tile_for_point / toast_pixel_for_point in both coordinate systems; the
returned tile must be in TLC's admissible set (closed form deeper, for strictly interior points), the tiles for
increasing depths must be nested, and the fractional pixel must be within 2 px of the pixel whose centre is nearest.
Points given by their coordinates instead (integer numbers of radians; values exactly representable in a narrow float)
are first located in the lattice (the unit square / face of the cell complex whose psi-image holds them, with a margin),
judged by TLC's tables of that unit square / face, and asked in every type a caller may write the two numbers in.
"""
import decimal
import fractions
import json
import os
import random
import threading

import numpy as np

from lib import repo, lattice, guard, tla
from lib.core import MachineryError
from checks import toastlat

TWOPI = 2 * np.pi

QCFG = """SPECIFICATION QSpec
CONSTANTS
 R = %(R)d
 MaxDepth = %(D)d
 K = 1
INVARIANT LookupHolds
INVARIANT NeverStuck
PROPERTY LookupNested
CHECK_DEADLOCK FALSE
"""


def query_tlc(ctx, R, D):
    """TLC on spec/ToastQuery.tla: the theorems about points that are no lattice points, the lookup machine with the format of
    the query as a variable, and the table unit square -> the tiles of depth 1..D that hold it.  {"R", "D", "units": {u: [pos]}}"""
    outp = os.path.join(ctx.scratch, "toastquery-%d-%d.json" % (R, D))
    defs = ["ASSUME %s" % th for th in ("T_CellPos", "T_UnitCell", "T_UnitNested", "T_InteriorPoint", "T_SpellingFree", "T_FormatsNest")]
    defs += ["UnitTable == LET us == SetToSeq(Units) IN [i \\in DOMAIN us |-> [u |-> us[i], cells |-> [d \\in 1..MaxDepth |-> SetToSeq(UnitHolders(us[i], d))]]]",
             "ASSUME JsonSerialize(IOEnv.OUT, [R |-> R, D |-> MaxDepth, units |-> UnitTable])"]
    ctx.tlc("MCToastQuery", extra={"MCToastQuery.tla": tla.module("MCToastQuery", ["ToastQuery", "Json", "IOUtils", "SequencesExt"], defs)},
            cfg_text=QCFG % dict(R=R, D=D), env={"OUT": outp}, timeout=3000)
    raw = json.load(open(outp))
    return {"R": raw["R"], "D": raw["D"], "units": {tuple(x["u"]): [[tuple(q) for q in lst] for lst in x["cells"]] for x in raw["units"]}}


def cell_distances(psi, d, x, y, v):
    """Signed distances (rad; > 0 inside) of the unit vector v from the four great circles that bound the cell (d, x, y) of the
    lattice (corners by psi; edges ul-ur, ur-lr, lr-ll, ll-ul), and the length of the cell's shortest edge."""
    c = psi.corners(d, x, y)
    ctr = psi.centre(d, x, y)
    dist, short = [], np.inf
    for k in range(4):
        a, b = c[k], c[(k + 1) % 4]
        nrm = np.cross(a, b)
        nrm = nrm / np.linalg.norm(nrm)
        if np.dot(nrm, ctr) < 0:
            nrm = -nrm
        dist.append(float(np.dot(nrm, v)))
        short = min(short, float(np.linalg.norm(a - b)))
    return dist, short


def locate(psi, v, depth):
    """The cells of depth 1..depth of the lattice that hold the unit vector v, by descent (at every level the child v lies deepest
    inside): [(x, y, margin, distance)], distance (rad) of v from the cell's boundary, margin = distance / the cell's shortest edge."""
    out = []
    x = y = 0
    for d in range(1, depth + 1):
        best = None
        for cx, cy in ((2 * x, 2 * y), (2 * x + 1, 2 * y), (2 * x, 2 * y + 1), (2 * x + 1, 2 * y + 1)):
            dist, short = cell_distances(psi, d, cx, cy, v)
            m = min(dist) / short
            if best is None or m > best[2]:
                best = (cx, cy, m, min(dist))
        x, y = best[0], best[1]
        out.append(best)
    return out


# a located point is judged at a depth only if it lies at least this far inside its cell: (fraction of the cell's shortest edge, radians).
# Rounding in double precision moves a corner or an edge by ~1e-15 rad; the smallest cells asked about (depth 26) are 5e-8 rad wide.
MARGIN = (1e-5, 1e-11)


def expectation(t, qt, psi, v, dmax):
    """What the lattice says about the point v of the sphere: {depth: set of admissible tile positions} for the depths
    0..dmax at which v is judged.  A point strictly inside (by MARGIN) a unit square of ToastQuery's lattice: the holders TLC
    lists for that unit square to TLC's depth, its ancestors' closed form (ToastQuery!T_UnitCell, T_InteriorPoint) below, as
    deep as v stays strictly inside; a point ON a vertex or an edge of the cell complex of ToastLattice's level R - 1: TLC's
    Admissible table of the lattice point that represents that face, to TLC's depth; any other point (close to a boundary, not on
    it): not judged from the depth on at which it gets close."""
    exp = {0: {(0, 0, 0)}}
    loc = locate(psi, v, max(dmax, qt["R"], t.R - 1))
    bad = [d for d, (_, _, m, a) in enumerate(loc, 1) if m < MARGIN[0] or a < MARGIN[1]]
    first_bad = bad[0] if bad else len(loc) + 1
    if first_bad > qt["R"]:
        u = (loc[qt["R"] - 1][0], loc[qt["R"] - 1][1])
        for d in range(1, min(qt["D"], dmax) + 1):
            cells = qt["units"][u][d - 1]
            if cells != [(d, loc[d - 1][0], loc[d - 1][1])]:
                raise MachineryError("locating a point in the lattice: unit square %s at depth %d is held by %s according to TLC, by %s according to psi" % (u, d, cells, loc[d - 1]))
            exp[d] = set(cells)
        g = min(first_bad - 1, len(loc))
        for d in range(qt["D"] + 1, min(dmax, g) + 1):
            exp[d] = {(d, loc[g - 1][0] >> (g - d), loc[g - 1][1] >> (g - d))}
        return exp, "interior"
    if first_bad <= t.R - 1:
        n = t.R - 1
        x, y = loc[n - 1][0], loc[n - 1][1]
        dist, short = cell_distances(psi, n, x, y, v)
        on = [k for k in range(4) if abs(dist[k]) < 1e-12]
        off_ok = all(dist[k] > max(MARGIN[0] * short, MARGIN[1]) for k in range(4) if k not in on)
        cor = [(x, y), (x + 1, y), (x + 1, y + 1), (x, y + 1)]
        rep = None
        if off_ok and len(on) == 1:
            a, b = cor[on[0]], cor[(on[0] + 1) % 4]
            rep = (a[0] + b[0], a[1] + b[1])                       # the edge's midpoint, a lattice point of refinement R
        elif off_ok and len(on) == 2 and (on[1] - on[0]) in (1, 3):
            k = on[1] if on[1] - on[0] == 1 else on[0]              # the corner the two edges share
            rep = (2 * cor[k][0], 2 * cor[k][1])
        if rep is not None:
            for d in range(1, min(t.D, dmax) + 1):
                exp[d] = set(t.adm[rep][d - 1])
            return exp, "face"
    return exp, "ambiguous"


def is_narrow(o):
    """A numpy scalar / 0-d array type in which numpy computes at less than double precision (float16 / float32; the integer
    types of 8 and 16 bits, whose cosine is a float16 / float32)."""
    dt = getattr(o, "dtype", None)
    return dt is not None and ((dt.kind == "f" and dt.itemsize < 8) or (dt.kind in "iu" and dt.itemsize < 4))


def spellings(val):
    """The ways a caller may write the real number val (a Python float; every spelling listed denotes exactly val):
    [(name, object, may_be_refused)] - may_be_refused: number types the entry points need not accept (a TypeError is not judged)."""
    out = [("float", float(val), False), ("np.float64", np.float64(val), False), ("0-d float64 array", np.array(val, dtype=np.float64), False),
           ("np.longdouble", np.longdouble(val), True), ("Fraction", fractions.Fraction(val), True), ("Decimal", decimal.Decimal(val), True)]
    if val == int(val) and abs(val) < 100:
        iv = int(val)
        out += [("int", iv, False), ("np.int64", np.int64(iv), False), ("np.int32", np.int32(iv), False), ("0-d int64 array", np.array(iv, dtype=np.int64), False),
                ("np.int16", np.int16(iv), False), ("np.int8", np.int8(iv), False)]
        if iv >= 0:
            out += [("np.uint8", np.uint8(iv), False), ("np.uint64", np.uint64(iv), False)]
    if float(np.float32(val)) == val:
        out += [("np.float32", np.float32(val), False), ("0-d float32 array", np.array(val, dtype=np.float32), False)]
    with np.errstate(over="ignore"):
        if float(np.float16(val)) == val:
            out += [("np.float16", np.float16(val), False)]
    return out


def run(ctx):
    repo.setup(ctx)
    from toasty import toast
    q = ctx.quick
    ctx.rule = ("points = every lattice point of the bounded lattice (x both coordinate systems x longitude shifts) at every depth to MaxDepth, judged against TLC's "
                "Admissible table; plus seeded interior points (pixel and sub-pixel centres) to depth 10 judged by the closed form; plus points given by coordinates "
                "(integer radians; float32 / float16 values) located in the lattice and asked in every number type that denotes them; distinct = distinct "
                "(coordinate system, lattice point or located point and its spelling, depth)")
    R, D = (5, 4) if q else (6, 5)
    t = toastlat.run_tlc(ctx, R, D, 1, adm=True)
    S = 2 ** R
    box = {"worstpix": 0.0}
    # ToastQuery (units, formats) is checked by a second TLC run while the lookups of (a)-(c) are replayed; its table is first
    # needed by (d)
    RQ, DQ = (4, 4) if q else (6, 5)
    qbox = {}

    def _query_tlc():
        try:
            qbox["tables"] = query_tlc(ctx, RQ, DQ)
        except BaseException as e:  # noqa - handed to the main thread
            qbox["error"] = e
    qthread = threading.Thread(target=_query_tlc)

    def query_tables():
        qthread.join()
        if "error" in qbox:
            raise qbox["error"]
        return qbox["tables"]

    def work(csname, cs):
        """The checks for one coordinate system, as a coroutine: it yields after every call into the library so that the
        two coordinate systems can be interleaved call by call (state kept between calls must not leak across them)."""
        worstpix = 0.0
        psi = toastlat.psi_for(t, csname)
        # ---- (a) every lattice point against TLC's admissible sets
        pts = sorted(t.adm)
        if q:
            special = [p for p in pts if p[0] in (0, S // 2, S) or p[1] in (0, S // 2, S) or p[0] + p[1] in (S // 2, S, 3 * S // 2) or abs(p[0] - p[1]) == S // 2]
            rest = [p for p in pts if p not in set(special)]
            pts = special + ctx.rng.sample(rest, 250)
        for p in pts:
            v = psi.vec(p[0], p[1], R)
            lon, lat = lattice.vec_to_lonlat(v)
            lon, lat = float(lon), float(lat)
            interior = (p[0] % 2 == 1 and p[1] % 2 == 1)       # strictly inside a cell of every depth <= R - 1
            shifts = [0.0] if not interior else [0.0, TWOPI, -TWOPI, 3 * TWOPI]
            if abs(abs(lat) - np.pi / 2) < 1e-12:
                lons = [lon, 1.0, 4.0]                        # any longitude is this pole
            else:
                lons = [lon]
                # a point on one of the meridians that bound the level-1 quadrants (0, pi/2, ...): the same point written with
                # the last bit of its longitude either way, and - on the prime meridian - as the tiny negative residue of a
                # subtraction that should have given zero; all of them are this boundary point to rounding
                kq = round(lon / (np.pi / 2))
                if abs(lon - kq * np.pi / 2) < 1e-12:
                    base_l = kq * np.pi / 2
                    lons += [float(np.nextafter(base_l, -np.inf)), float(np.nextafter(base_l, np.inf))]
                    if kq == 0:
                        lons += [-5e-324, -1e-17, 1e-17, -1e-300]
                    if kq == 4:
                        lons += [0.0, -1e-17]
            base = None
            for lon0 in lons:
                for sh in shifts:
                    chain = []
                    for d in range(1, D + 1):
                        ctx.count()
                        try:
                            with guard.time_limit(20):
                                tile = toast.toast_tile_for_point(d, lat, lon0 + sh, coordsys=cs)
                        except guard.TimeLimitExceeded:
                            ctx.violation("C12:tile_for_point:no-result", "toast_tile_for_point(%d, %.6f, %.6f, %s) did not return within 20 s" % (d, lat, lon0 + sh, csname), {"p": p, "cs": csname})
                            return
                        except Exception as e:  # noqa
                            ctx.violation("C12:tile_for_point:raises", "toast_tile_for_point(%d, %.6f, %.6f, %s) raised %r" % (d, lat, lon0 + sh, csname, e), {"p": p, "cs": csname})
                            break
                        yield
                        pos = tuple(tile.pos)
                        toastlat.scribble(tile)      # the caller owns the returned tile; later lookups must not depend on it
                        chain.append(pos)
                        ctx.distinct((csname, p, d))
                        if pos not in t.adm[p][d - 1]:
                            ctx.violation("C12:tile_for_point:containment", "lattice point %s/2^%d (lat %.4f lon %.4f, shift %+.0f*2pi) [%s] depth %d: returned tile %s does not contain it; tiles that do: %s"
                                          % (p, R, lat, lon0, sh / TWOPI, csname, d, pos, sorted(t.adm[p][d - 1])), {"p": p, "R": R, "cs": csname, "depth": d})
                        if len(chain) > 1 and (pos[0] != chain[-2][0] + 1 or pos[1] // 2 != chain[-2][1] or pos[2] // 2 != chain[-2][2]):
                            ctx.violation("C12:tile_for_point:nesting", "point %s [%s]: tile %s at depth %d is not inside tile %s returned at depth %d" % (p, csname, pos, d, chain[-2], d - 1), {"p": p, "cs": csname})
                    ctx.trace_ok()
                    if interior:
                        if base is None:
                            base = chain
                        elif chain != base:
                            ctx.violation("C12:tile_for_point:periodicity", "point %s [%s]: longitude shifted by %+.0f*2pi gives %s instead of %s" % (p, csname, sh / TWOPI, chain, base), {"p": p, "cs": csname})
        # depth 0
        t0 = toast.toast_tile_for_point(0, 0.3, 1.0, coordsys=cs)
        if tuple(t0.pos) != (0, 0, 0):
            ctx.violation("C12:tile_for_point:depth0", "depth 0 lookup returns %s" % (tuple(t0.pos),), {"cs": csname})
        # ---- (b) interior points far deeper: closed form (the unique cell holding a point that lies on no cell boundary)
        for it_ in range(40 if q else 600):
            # one lookup in three goes far deeper (to depth 26), where tile edges are of the order of 1e-7 rad and any absolute
            # tolerance in the containment arithmetic would swallow whole tiles
            dmax = ctx.rng.randint(5, 10) if it_ % 3 else ctx.rng.randint(18, 26)
            if it_ % 3 == 1:
                dmax = ctx.rng.randint(11, 15)
            RR = dmax + 3
            i, j = 2 * ctx.rng.randrange(2 ** (RR - 1)) + 1, 2 * ctx.rng.randrange(2 ** (RR - 1)) + 1
            if it_ % 3 == 1:
                # ... a third of them close to (not on) the equator - the diamond |i - S/2| + |j - S/2| = S/2 inscribed in the square -
                # where the tiles' edges bend most
                S_ = 2 ** RR
                off_ = ctx.rng.choice([2, 4, 10, 30, 100, 400]) * ctx.rng.choice([-1, 1])
                a_ = abs(i - S_ // 2)
                b_ = S_ // 2 - a_ + off_
                if 0 < b_ < S_ // 2:
                    j = S_ // 2 + ctx.rng.choice([-1, 1]) * b_
                    j |= 1
                    j = min(S_ - 1, max(1, j))
            v = psi.vec(i, j, RR)
            lon, lat = map(float, lattice.vec_to_lonlat(v))
            prev = None
            for d in sorted({1, 2, dmax // 2, dmax - 1, dmax}):
                tile = toast.toast_tile_for_point(d, lat, lon, coordsys=cs)
                yield
                pos = tuple(tile.pos)
                toastlat.scribble(tile)
                exp = (d, i >> (RR - d), j >> (RR - d))
                ctx.count()
                ctx.distinct((csname, (i, j, RR), d))
                if pos != exp:
                    ctx.violation("C12:tile_for_point:containment-deep", "interior point (%d, %d)/2^%d [%s] depth %d: returned %s, the cell holding it is %s" % (i, j, RR, csname, d, pos, exp), {"cs": csname, "point": (i, j, RR)})
                prev = pos
        # ---- (c) the fractional pixel
        for _ in range(170 if q else 1500):
            d = ctx.rng.choice([0, 1, 1, 2, 3, 4, 6, 8])
            sub = ctx.rng.choice([0, 1, 3])                      # pixel centres exactly, or sub-pixel offsets
            RR = d + 9 + sub
            i, j = 2 * ctx.rng.randrange(2 ** (RR - 1)) + 1, 2 * ctx.rng.randrange(2 ** (RR - 1)) + 1
            if ctx.rng.random() < 0.45:
                # close to (not on) one of the meridians lon = k pi/2 (the centre cross of the square: cos or sin of the longitude
                # vanishes there) or lon = pi/4 + k pi/2 (its diagonals); move the point to within a fraction of a pixel .. a few pixels of one
                S_ = 2 ** RR
                w_ = ctx.rng.choice([1, 1, 3, 7, 15, 33, 129])                                 # odd offset in lattice units: a fraction of a pixel to a few pixels
                kind_ = ctx.rng.choice(["cross-x", "cross-x", "cross-y", "cross-y", "diag", "anti"])
                if kind_ == "cross-x":
                    i = min(S_ - 1, max(1, S_ // 2 + ctx.rng.choice([-1, 1]) * w_))
                elif kind_ == "cross-y":
                    j = min(S_ - 1, max(1, S_ // 2 + ctx.rng.choice([-1, 1]) * w_))
                elif kind_ == "diag":
                    j = min(S_ - 1, max(1, i + ctx.rng.choice([-1, 1]) * (w_ + 1)))
                else:
                    j = min(S_ - 1, max(1, S_ - i + ctx.rng.choice([-1, 1]) * (w_ + 1)))
                i |= 1
                j |= 1
            elif ctx.rng.random() < 0.6:
                # bias towards the borders of the tile's pixel grid (rows / columns 0-4 and 251-255), where stamp
                # clipping and neighbouring-tile effects live
                def edge(coord):
                    unit = 1 << (sub + 1)                       # lattice units per pixel at refinement RR
                    tile0 = (coord // (256 * unit)) * 256 * unit
                    px = ctx.rng.choice([0, 1, 2, 3, 4, 251, 252, 253, 254, 255])
                    return tile0 + px * unit + (2 * ctx.rng.randrange(unit // 2) + 1 if unit > 1 else 1)
                if ctx.rng.random() < 0.7:
                    i = edge(i)
                if ctx.rng.random() < 0.7:
                    j = edge(j)
            v = psi.vec(i, j, RR)
            lon, lat = map(float, lattice.vec_to_lonlat(v))
            if abs(lat) > np.pi / 2 - np.radians(1.0):
                continue
            ctx.count()
            near_quarter = min(abs((lon - kq_ * np.pi / 2 + np.pi) % TWOPI - np.pi) for kq_ in range(4))
            if near_quarter < np.radians(0.2):
                ctx.add_note("pixel_lookups_within_0.2deg_of_a_quarter_meridian")
            shift = ctx.rng.choice([0, 0, 1, -1, 2, -2, 3, -3]) * TWOPI     # any real longitude: the same point
            lon_q = lon + shift
            try:
                tile, x, y = toast.toast_pixel_for_point(d, lat, lon_q, coordsys=cs)
            except Exception as e:  # noqa
                ctx.violation("C12:pixel_for_point:raises", "toast_pixel_for_point(%d, %.6f, %.6f, %s) raised %r" % (d, lat, lon, csname, e), {"cs": csname, "depth": d})
                continue
            yield
            exp = (d, i >> (RR - d), j >> (RR - d)) if d > 0 else (0, 0, 0)
            if tuple(tile.pos) != exp:
                ctx.violation("C12:pixel_for_point:tile", "toast_pixel_for_point depth %d [%s]: tile %s, the cell holding the point is %s" % (d, csname, tuple(tile.pos), exp), {"cs": csname})
                continue
            # pixel of that tile whose centre is nearest to the point
            if d == 0:
                g = np.block([[psi.grid(1, 0, 0, 7), psi.grid(1, 1, 0, 7)], [psi.grid(1, 0, 1, 7), psi.grid(1, 1, 1, 7)]]) if False else None
                parts = [[psi.grid(1, 0, 0, 7), psi.grid(1, 1, 0, 7)], [psi.grid(1, 0, 1, 7), psi.grid(1, 1, 1, 7)]]
                g = np.concatenate([np.concatenate(parts[0], axis=1), np.concatenate(parts[1], axis=1)], axis=0)
            else:
                g = psi.grid(exp[0], exp[1], exp[2], 8)
            r, c = np.unravel_index(np.argmax(g @ v), (256, 256))
            err = max(abs(float(x) - c), abs(float(y) - r))
            worstpix = max(worstpix, err)
            box["worstpix"] = max(box["worstpix"], worstpix)
            ctx.distinct((csname, "pix", (i, j, RR), d))
            if not (err <= 2.0):
                ctx.violation("C12:pixel_for_point:position", "depth %d [%s] lat %.5f lon %.5f (%+d turns): returned pixel (x %.2f, y %.2f), the nearest pixel centre is (col %d, row %d)"
                              % (d, csname, lat, lon, round(shift / TWOPI), float(x), float(y), c, r), {"cs": csname, "depth": d, "lat": lat, "lon": lon_q})
        # ---- (d) the point as the caller writes it: the same real numbers in every number type that denotes them exactly
        qt = query_tables()
        rs = random.Random("%d-%s-spellings" % (ctx.seed, csname))

        def ask(fn, d, la, lo, refusable):
            """One call of an entry point with spelled coordinates -> its result, or None (refused / raised, already reported)."""
            ctx.count()
            try:
                with guard.time_limit(20):
                    return fn(d, la[1], lo[1], coordsys=cs)
            except guard.TimeLimitExceeded:
                ctx.violation("C12:%s:no-result" % fn.__name__[6:], "%s(%d, %s %r, %s %r, %s) did not return within 20 s" % (fn.__name__, d, la[0], la[1], lo[0], lo[1], csname), {"cs": csname})
            except TypeError as e:
                if refusable:
                    ctx.add_note("spelled_queries_refused_with_TypeError(%s)" % (la[0] if la[2] else lo[0]))
                else:
                    ctx.violation("C12:%s:raises" % fn.__name__[6:], "%s(%d, %s %r, %s %r, %s) raised %r" % (fn.__name__, d, la[0], la[1], lo[0], lo[1], csname, e), {"cs": csname, "depth": d})
            except Exception as e:  # noqa
                ctx.violation("C12:%s:raises" % fn.__name__[6:], "%s(%d, %s %r, %s %r, %s) raised %r" % (fn.__name__, d, la[0], la[1], lo[0], lo[1], csname, e), {"cs": csname, "depth": d})
            return None

        def pairs_of(latv, lonv, n_cross):
            """(lat spelling, lon spelling): both coordinates in the same type, for every type that can write both, and every type
            for one coordinate with a Python float for the other (n_cross of them by lot; None = all)."""
            L, M = spellings(latv), spellings(lonv)
            names_m = dict((m[0], m) for m in M)
            same = [(l, names_m[l[0]]) for l in L if l[0] in names_m]
            cross = [(l, M[0]) for l in L[1:]] + [(L[0], m) for m in M[1:]]
            if n_cross is not None and len(cross) > n_cross:
                cross = rs.sample(cross, n_cross)
            return same + cross

        def judge_tile(latv, lonv, la, lo, d, exp, what):
            tile = ask(toast.toast_tile_for_point, d, la, lo, la[2] or lo[2])
            if tile is None:
                return
            pos = tuple(tile.pos)
            toastlat.scribble(tile)
            ctx.distinct((csname, "spelled", (latv, lonv), (la[0], lo[0]), d))
            if pos not in exp:
                narrow = is_narrow(la[1]) or is_narrow(lo[1])
                ctx.violation("C12:tile_for_point:narrow-float-query" if narrow else "C12:tile_for_point:query-spelling",
                              "%s: lat = %s %r, lon = %s %r [%s] depth %d: returned tile %s does not hold the point these numbers denote (lat %r, lon %r); the lattice's tile(s) for it: %s"
                              % (what, la[0], la[1], lo[0], lo[1], csname, d, pos, latv, lonv, sorted(exp)), {"cs": csname, "depth": d, "lat": latv, "lon": lonv, "lat_type": la[0], "lon_type": lo[0]})

        def judge_pixel(latv, lonv, la, lo, d, exp, v):
            res = ask(toast.toast_pixel_for_point, d, la, lo, la[2] or lo[2])
            if res is None:
                return
            tile, x, y = res
            narrow = is_narrow(la[1]) or is_narrow(lo[1])
            key = "narrow-float-query" if narrow else "query-spelling"
            rep = {"cs": csname, "depth": d, "lat": latv, "lon": lonv, "lat_type": la[0], "lon_type": lo[0]}
            pos = tuple(tile.pos)
            ctx.distinct((csname, "spelled-pix", (latv, lonv), (la[0], lo[0]), d))
            if pos not in exp:
                ctx.violation("C12:pixel_for_point:" + key, "lat = %s %r, lon = %s %r [%s] depth %d: toast_pixel_for_point returns tile %s, the lattice's tile(s) for the point: %s"
                              % (la[0], la[1], lo[0], lo[1], csname, d, pos, sorted(exp)), rep)
                return
            if d == 0:
                parts = [[psi.grid(1, 0, 0, 7), psi.grid(1, 1, 0, 7)], [psi.grid(1, 0, 1, 7), psi.grid(1, 1, 1, 7)]]
                g = np.concatenate([np.concatenate(parts[0], axis=1), np.concatenate(parts[1], axis=1)], axis=0)
            else:
                g = psi.grid(pos[0], pos[1], pos[2], 8)
            r, c = np.unravel_index(np.argmax(g @ v), (256, 256))
            err = max(abs(float(x) - c), abs(float(y) - r))
            box["worstpix_spelled" if not narrow else "worstpix_narrow"] = max(box.get("worstpix_spelled" if not narrow else "worstpix_narrow", 0.0), err)
            if not (err <= 2.0):
                ctx.violation("C12:pixel_for_point:" + key, "lat = %s %r, lon = %s %r [%s] depth %d: returned pixel (x %.2f, y %.2f), the nearest pixel centre is (col %d, row %d)"
                              % (la[0], la[1], lo[0], lo[1], csname, d, float(x), float(y), c, r), rep)

        # (d1) whole numbers of radians: the equator written 0, latitude 1 / -1, longitudes 0 .. 6 and a few outside [0, 2 pi)
        int_depths = list(range(0, 13)) + ([] if q else [16, 20, 24])
        n_pt = 0
        for latv in (0.0, 1.0, -1.0):
            for lonv in (0.0, 1.0, 2.0, 3.0, 4.0, 5.0, 6.0) + ((-2.0, 8.0) if q else (-1.0, -2.0, -7.0, 7.0, 8.0, 13.0, 44.0)):
                n_pt += 1
                v = lattice.lonlat_to_vec(lonv, latv)
                exp, kind = expectation(t, qt, psi, v, max(int_depths))
                ctx.add_note("spelled_points_%s" % kind)
                judged = [d for d in int_depths if d in exp]
                for la, lo in pairs_of(latv, lonv, 2 if q else None):
                    # quick: one depth per spelling by lot (mostly >= 2, where the descent by containment score begins); every
                    # spelling still meets every point, and with 21 points x 2 systems every depth
                    ds = [rs.choice([d for d in judged if d >= 2] or judged) if rs.random() < 0.85 else rs.choice(judged)] if q else judged
                    for d in ds:
                        judge_tile(latv, lonv, la, lo, d, exp[d], "whole radians")
                        yield
                    ctx.trace_ok()
                # ... and the pixel (these points are more than a degree away from the poles)
                # (quick: every third point, the types taken in turn)
                pix_pairs = pairs_of(latv, lonv, None)
                same_ = [pr for pr in pix_pairs if pr[0][0] == pr[1][0]]
                for la, lo in ([same_[(5 * n_pt) % len(same_)]] if n_pt % 3 == 0 else []) if q else pix_pairs:
                    d = rs.choice([d for d in (0, 1, 2, 3, 4, 6, 8) if d in exp])
                    judge_pixel(latv, lonv, la, lo, d, exp[d], v)
                    yield
        # (d2) values of a narrow float type (float32, float16): lattice points (interior, as in (b)) rounded to the type; the point
        # asked about is the exact value of the rounded numbers, located in the lattice anew
        for it_ in range(12 if q else 240):
            narrow_t, dcap = (np.float32, 26) if it_ % 4 else (np.float16, 16)
            RR = dcap + 3
            i, j = 2 * rs.randrange(2 ** (RR - 1)) + 1, 2 * rs.randrange(2 ** (RR - 1)) + 1
            lon, lat = map(float, lattice.vec_to_lonlat(psi.vec(i, j, RR)))
            with np.errstate(over="ignore"):
                latv, lonv = float(narrow_t(lat)), float(narrow_t(lon))
            if abs(latv) > np.pi / 2 - np.radians(1.0):
                continue
            v = lattice.lonlat_to_vec(lonv, latv)
            exp, kind = expectation(t, qt, psi, v, dcap)
            ctx.add_note("spelled_points_%s" % kind)
            judged = sorted(d for d in exp if d >= 1)
            if not judged:
                continue
            deep = [d for d in judged if d >= dcap - 5]
            for la, lo in pairs_of(latv, lonv, 2 if q else None):
                ds = [rs.choice(deep) if deep and rs.random() < 0.6 else rs.choice(judged)] if q else judged[::2] + deep
                for d in sorted(set(ds)):
                    judge_tile(latv, lonv, la, lo, d, exp[d], "%s values" % narrow_t.__name__)
                    yield
                ctx.trace_ok()
            pix_pairs = pairs_of(latv, lonv, None)
            same_ = [pr for pr in pix_pairs if pr[0][0] == pr[1][0]]
            for la, lo in ([same_[(5 * it_) % len(same_)]] if it_ % 4 == 1 else []) if q else pix_pairs:
                d = rs.choice([d for d in (0, 1, 2, 3, 4, 6, 8) if d in exp])
                judge_pixel(latv, lonv, la, lo, d, exp[d], v)
                yield

    def threaded():
        """Lookups are pure functions of their arguments: the answers are the same when several threads of one process ask at the
        same time (an interpreter switching threads every few bytecodes, as a busy server would)."""
        import sys as _sys
        import threading as _th
        rng = __import__("random").Random(ctx.seed + 12)
        qs = []
        for csname, cs in toastlat.coordsystems():
            psi = toastlat.psi_for(t, csname)
            for _ in range(30 if q else 200):
                d = rng.randint(2, 9)
                RR = d + 2
                i, j = 2 * rng.randrange(2 ** (RR - 1)) + 1, 2 * rng.randrange(2 ** (RR - 1)) + 1
                lon, lat = map(float, lattice.vec_to_lonlat(psi.vec(i, j, RR)))
                qs.append((csname, cs, d, lat, lon, (d, i >> (RR - d), j >> (RR - d))))
        got = {}

        def worker(k):
            for n_, (csname, cs, d, lat, lon, exp) in enumerate(qs):
                if n_ % 4 == k:
                    for rep_ in range(3):
                        try:
                            got[(n_, rep_)] = tuple(toast.toast_tile_for_point(d, lat, lon, coordsys=cs).pos)
                        except Exception as e:  # noqa
                            got[(n_, rep_)] = repr(e)
        old_int = _sys.getswitchinterval()
        _sys.setswitchinterval(1e-6)
        try:
            ths = [_th.Thread(target=worker, args=(k,)) for k in range(4)]
            # the four threads work on disjoint questions, at the same time
            for th in ths:
                th.start()
            for th in ths:
                th.join()
        finally:
            _sys.setswitchinterval(old_int)
        for (n_, rep_), pos in sorted(got.items()):
            csname, cs, d, lat, lon, exp = qs[n_]
            ctx.count()
            if pos != exp:
                ctx.violation("C12:tile_for_point:concurrent-threads", "lookup depth %d lat %.5f lon %.5f [%s] asked while three other threads were looking up other points: returned %s, "
                              "the cell holding the point is %s" % (d, lat, lon, csname, pos, exp), {"cs": csname, "depth": d, "lat": lat, "lon": lon})
                break
    def deepest():
        """Depths 27-30, tile centres next to the square's corners, edges and centre cross.  To depth 28 the lookup is exact; at
        depths 29 and 30 (tiles of 3e-9 / 1.5e-9 rad) its half-space scores fall below double precision and the returned tile is up
        to 4 tiles away from the one holding the point - a genuine, recorded finding (known_findings.txt), reported under a key of
        its own so that any other containment failure is still a violation."""
        rng = __import__("random").Random(20260929)
        for csname, cs in toastlat.coordsystems():
            psi = toastlat.psi_for(t, csname)
            for n in (27, 28, 29, 30):
                h = 2 ** (n - 1)
                for k in range(24 if q else 200):
                    x = rng.choice([0, 1, 2, 2 ** n - 1, 2 ** n - 2, h - 2, h - 1, h, h + 1, rng.randrange(2 ** n)])
                    y = rng.choice([0, 1, 2, 2 ** n - 1, 2 ** n - 2, h - 2, h - 1, h, h + 1, rng.randrange(2 ** n)])
                    lon, lat = map(float, lattice.vec_to_lonlat(psi.centre(n, x, y)))
                    pos = tuple(toast.toast_tile_for_point(n, lat, lon, coordsys=cs).pos)
                    ctx.count()
                    if pos != (n, x, y):
                        key = "C12:tile_for_point:containment-deep" if n <= 28 else "C12:tile_for_point:depth-29-30-double-precision"
                        ctx.violation(key, "centre of tile (%d, %d, %d) [%s]: the lookup at depth %d returns %s" % (n, x, y, csname, n, pos), {"cs": csname, "pos": (n, x, y)})
    deepest()
    threaded()
    qthread.start()
    gens = [work(n_, c_) for n_, c_ in toastlat.coordsystems()]
    while gens:
        for g in list(gens):
            try:
                next(g)
            except StopIteration:
                gens.remove(g)
    worstpix = box["worstpix"]
    ctx.note("worst_pixel_error_px", worstpix)
    ctx.note("worst_pixel_error_px_spelled_queries", box.get("worstpix_spelled", 0.0))
    ctx.note("worst_pixel_error_px_narrow_type_queries", box.get("worstpix_narrow", 0.0))
    pmid = sorted(t.adm)[len(t.adm) // 2 + 3]
    ctx.sample({"lattice_point": list(pmid), "R": R, "admissible_by_depth": [sorted(s) for s in t.adm[pmid]]})
    ctx.sample({"lattice_point": [0, 0], "note": "south pole (a corner of the square)", "admissible_depth2": sorted(t.adm[(0, 0)][1])})
    ctx.assume("a point given by coordinates is located in the lattice by the great circles through psi's corners; it is judged only where it lies at least 1e-5 of a cell edge and 1e-11 rad inside its cell, or exactly on a face of TLC's cell complex")
    ctx.assume("normalize(a + b) is the great-circle midpoint; psi validated against the real tile corners by C04")
    ctx.assume("the 2-pixel clause is judged for points at least one degree from the poles, as the property states")
