"""G09 (growth specification, DESIGN.md section 7) - how a Builder turns astrometry into the WWT ImageSet / Place
description, and what a reader of that description gets back.

Specs: spec/Astrometry.tla (+ MCAstrometry.tla; MCAstrometryBuiltin.tla/.cfg for a stand-alone run) - the exact-arithmetic
transcription of Builder.apply_wcs_info / apply_avm_info / default_tiled_study_astrometry, ImageSet.set_position_from_wcs
(Encode), ImageSet.wcs_headers_from_position (DecodeSky), WWT's TangentTile reading of a tiled study (DecodeTan, an
assumption), pyavm's rescaling; a case machine (parity flip, AVM at its reference size) with the contract as invariants;
spec/AstrometryHistory.tla (+ MCAstrometryHistory.tla) - one Builder object and its directory under Prepare / Astro /
Toast / SetName / Thumb / Write / Restore in any order, with ghosts for what the history promises.

Binding (spec -> code): every case TLC emits is lifted to a real astropy WCS (CD or PC/CDELT form) / pyavm AVM object and
run through the real Builder methods; every ImageSet / Place field is compared with TLC's exact value (1e-9), refusals
must coincide, and the description is read back (real wcs_headers_from_position for SkyImage; the TangentTile reader for
Tan, applied to the REAL field values) into an astropy WCS whose sky positions at the image corners, the reference pixel
and the centre are compared with TLC's plane positions deprojected by astropy.  Histories (crafted, seeded random, TLC
walks) are replayed on a real Builder / directory / FitsTiler reuse path, everything compared after every command.
"""
import math
import os
import shutil
import tempfile
from fractions import Fraction as F

from lib import repo, tla

TOL = 1e-9

# ------------------------------------------------------------------------------------------------
# numbers out of TLC
# ------------------------------------------------------------------------------------------------


def qf(q):
    return q[0] / q[1]


def sf(s):
    return qf(s["q"]) * math.sqrt(s["r"])


def dir_deg(d):
    return math.degrees(math.atan2(d[1], d[0]))


def ang_diff(a, b):
    return abs((a - b + 180.0) % 360.0 - 180.0)


# ------------------------------------------------------------------------------------------------
# inputs (Python enumerates inputs only; what they mean comes from TLC)
# ------------------------------------------------------------------------------------------------
CV1 = (F(418, 5), F(-27, 5))
CV0 = (F(0), F(0))
CVP = (F(-10), F(89))
U1 = F(1, 4000)
U2 = F(3, 10000)


def exact_matrix(bd, sg, g=1):
    b, d = bd
    return (g * sg * d, g * b, -g * sg * b, g * d)


DIRS_QUICK = [(0, 1), (0, -1), (1, 0), (-1, 0), (3, 4), (-4, 3), (3, -4), (-3, -4), (5, 12), (12, -5), (1, 1), (-1, 7)]
DIRS_MORE = [(8, 15), (-15, 8), (7, -24), (-20, -21), (2, 5), (-12, -5), (4, -3), (-3, 4)]
# accepted although not expressible (Approximated), refused for their shape, singular
SPECIAL = [(-20, 0, 0, -21), (-20, 0, 0, 21), (-30, 1, 0, -30), (-29, 2, -1, -30),
           (-10, 0, 0, -12), (-20, 2, 0, -20), (-20, 0, 0, -22), (-39, 0, 0, -43), (1, 1, 1, 1), (0, 0, 0, 0), (-1, 0, 0, -2)]
SPECIAL_MORE = [(21, 0, 0, -20), (-41, 1, 2, 40), (-25, -1, 1, -25), (12, -5, -6, -12), (-3, 0, 0, 3), (-100, 0, 0, -111)]
SIZES = [(1, 1), (1, 7), (200, 300), (256, 256), (257, 100), (300, 200), (513, 2), (1024, 1025)]
SIZES_MORE = [(2, 1), (255, 256), (512, 512), (513, 513), (96, 45), (2048, 3)]
TAGS = ["centre", "first", "corner", "edge", "frac", "outside"]
AVM_DIMS = [(600, 400, 600, 400), (600, 400, 300, 200), (300, 200, 600, 400), (600, 400, 150, 100), (600, 400, 300, 230), (100, 100, 200, 200)]
AVM_DIMS_MORE = [(2048, 1024, 512, 256), (90, 60, 600, 400), (400, 400, 100, 103), (1, 1, 7, 7)]


def tq(q, pre=""):
    q = F(q)
    return "%sQ(%d, %d)" % (pre, q.numerator, q.denominator)


def tset(items):
    return "{" + ", ".join(items) + "}"


def tmat(m):
    return "<<" + ", ".join(str(int(v)) for v in m) + ">>"


def tpair(p):
    return "<<%d, %d>>" % (p[0], p[1])


def tcv(cv, pre=""):
    return "<<%s, %s>>" % (tq(cv[0], pre), tq(cv[1], pre))


def tstr(s):
    return '"%s"' % s


def case_space(quick):
    """-> TLA text of MCCases (a union of products; see MCAstrometry.tla)."""
    dirs = DIRS_QUICK + ([] if quick else DIRS_MORE)
    mats = [exact_matrix(bd, sg) for bd in dirs for sg in (1, -1)] + [exact_matrix((3, 4), 1, 2), exact_matrix((0, 1), -1, 3)]
    mats += SPECIAL + ([] if quick else SPECIAL_MORE)
    sizes = SIZES + ([] if quick else SIZES_MORE)
    avm_dims = AVM_DIMS + ([] if quick else AVM_DIMS_MORE)
    M = tset(tmat(m) for m in mats)
    S = tset(tpair(s) for s in sizes)
    T = tset(tstr(t) for t in TAGS)
    cv1, cvs = tset([tcv(CV1)]), tset([tcv(CV0), tcv(CV1), tcv(CVP)])
    u1, us = tset([tq(U1)]), tset([tq(U1), tq(U2)])
    ex34 = tset(tmat(exact_matrix((3, 4), sg)) for sg in (1, -1))
    parts = []
    if quick:
        parts.append('WcsCases({"wcs"}, {"study"}, %s, %s, %s, %s, %s, {"tan"})' % (M, S, T, cv1, u1))
        parts.append('WcsCases({"ens"}, {"study"}, %s, {<<200, 300>>, <<300, 200>>, <<1, 7>>}, {"frac", "outside"}, %s, %s, {"tan"})' % (M, cv1, u1))
        parts.append('WcsCases({"wcs"}, {"study"}, %s, {<<200, 300>>, <<300, 200>>}, {"frac"}, %s, %s, {"tan"})' % (ex34, cvs, us))
    else:
        parts.append('WcsCases({"wcs", "ens"}, {"study"}, %s, %s, %s, %s, %s, {"tan"})' % (M, S, T, cv1, u1))
        parts.append('WcsCases({"wcs", "ens"}, {"study"}, %s, {<<200, 300>>, <<300, 200>>, <<513, 2>>}, {"frac", "edge"}, %s, %s, {"tan"})' % (M, cvs, us))
    parts.append('WcsCases({"wcs", "ens"}, {"study"}, {<<-1, 0, 0, -1>>, <<-1, 0, 0, 1>>}, {<<300, 200>>, <<200, 100>>}, {"centre"}, %s, %s, {"gal"})' % (cv1, u1))
    parts.append('WcsCases({"wcs"}, {"toast"}, %s \\cup {<<-10, 0, 0, -12>>, <<-20, 0, 0, -21>>}, {<<300, 200>>, <<200, 100>>}, {"centre", "outside"}, %s, %s, {"tan"})' % (ex34, cvs, u1))
    adirs = tset(tpair(d) for d in [(1, 0), (4, 3), (-5, 12), (0, -1)] + ([] if quick else [(1, 1), (-3, -4), (15, 8)]))
    D = tset("<<%d, %d, %d, %d>>" % d for d in avm_dims)
    parts.append('AvmScaleCases(%s, %s, {"centre", "first", "outside"}, %s, %s, {"tan"}, {TRUE})' % (adirs, D, cv1, u1))
    parts.append('AvmScaleCases({<<4, 3>>}, {<<600, 400, 300, 200>>, <<600, 400, 150, 100>>}, {"frac"}, %s, %s, {"tan"}, {TRUE})' % (cvs, us))
    parts.append('AvmScaleCases({<<4, 3>>}, {<<600, 400, 300, 200>>}, {"centre"}, %s, %s, {"tan", "gal"}, {TRUE, FALSE})' % (cv1, u1))
    parts.append('AvmCdCases({<<-1, 0, 0, 1>>, <<-4, -3, -3, 4>>, <<-1, 0, 0, -1>>, <<-20, 0, 0, 21>>}, %s, {"centre", "first"}, %s, %s)' % (D, cv1, u1))
    parts.append('DefaultCases(%s)' % S)
    return "\n    \\cup ".join(parts)


CASE_INVARIANTS = ["WellFormed", "FlipIsParitys", "RoundTripIdentity", "CornersReproduced", "LevelsMatchTiling", "LegacyFields",
                   "ParityRefusedIff", "BottomsUpIffNegDet", "EnsureNormalises", "AvmScaleFormIsBottomsUp", "ExpressibleAccepted",
                   "MisdescribedIffNotExact", "AcceptedWithinFivePercent", "OneScaleOneAngle", "RefusedUnchanged",
                   "UntiledRotationFormula", "TwinRotationsDiffer", "PlaceCentred", "PlaceOnDescribedCentre", "PlaceZoomFromHeight",
                   "ViewHoldsHeight", "AvmExactAtReference", "AvmHalfPixel", "AvmCdMatrixNotRescaled", "DefaultIsCentred",
                   "ToastKeepsGeometry", "ServedFileMatchesIffFullTile"]
CASE_PROPERTIES = ["TwinStep", "AvmReferenceStep"]
CASE_IDEALS = ["AcceptedOnlyIfExpressible", "RotationIndependentOfStorageParity", "AvmCornersKeepSky", "AvmParityRespected",
               "ViewContainsImage", "PlaceFollowsImageRotation", "DefaultViewShowsImage", "ToastUntouched", "ServedFileMatches"]


def case_cfg(invariants, properties=(), emit=True):
    lines = ["SPECIFICATION Spec", "CONSTANTS", " Cases <- MCCases"]
    lines += ["INVARIANT %s" % i for i in invariants]
    if emit:
        lines.append("INVARIANT Emit")
    lines += ["PROPERTY %s" % p for p in properties]
    lines.append("CHECK_DEADLOCK FALSE")
    return "\n".join(lines) + "\n"


# ------------------------------------------------------------------------------------------------
# lifting to real objects
# ------------------------------------------------------------------------------------------------
_SCRATCH = {}


def _workdir(scratch):
    d = _SCRATCH.get(scratch)
    if d is None:
        d = tempfile.mkdtemp(prefix="g09w-", dir=scratch)
        _SCRATCH[scratch] = d
    return d


def make_wcs(W, form):
    """TLC's linear WCS [cr, m, u, cv, ctype] -> astropy WCS, in CD form or in CDELT + PC form."""
    from astropy.wcs import WCS
    w = WCS(naxis=2)
    w.wcs.ctype = ["RA---TAN", "DEC--TAN"] if W["ctype"] == "tan" else ["GLON-TAN", "GLAT-TAN"]
    w.wcs.crval = [qf(W["cv"][0]), qf(W["cv"][1])]
    w.wcs.crpix = [qf(W["cr"][0]), qf(W["cr"][1])]
    u = qf(W["u"])
    m = W["m"]
    if form == "cd":
        w.wcs.cd = [[u * m[0], u * m[1]], [u * m[2], u * m[3]]]
    else:
        w.wcs.cdelt = [-u, u]
        w.wcs.pc = [[-float(m[0]), -float(m[1])], [float(m[2]), float(m[3])]]
    return w


def make_avm(c, meta=None, flip_scale_sign=False):
    """The AVM of an "avm" case: ReferenceDimension (rw, rh), ReferencePixel cr, Scale + Rotation or CDMatrix."""
    from pyavm import AVM
    a = AVM()
    a.Spatial.CoordinateFrame = "ICRS" if c["ctype"] == "tan" else "GAL"
    a.Spatial.CoordsystemProjection = "TAN"
    a.Spatial.Equinox = "J2000"
    if c["hasdim"]:
        a.Spatial.ReferenceDimension = [c["rw"], c["rh"]]
    a.Spatial.ReferenceValue = [qf(c["cv"][0]), qf(c["cv"][1])]
    a.Spatial.ReferencePixel = [qf(c["cr"][0]), qf(c["cr"][1])]
    u = qf(c["u"])
    m = c["m"]
    if c["form"] == "scale":
        x, y = m[3], -m[1]                     # m = << -x, -y, -y, x >>
        s = u * math.hypot(x, y)
        a.Spatial.Scale = [s, -s] if flip_scale_sign else [-s, s]      # pyavm enforces the signs
        a.Spatial.Rotation = math.degrees(math.atan2(y, x))
    else:
        a.Spatial.CDMatrix = [u * m[0], u * m[1], u * m[2], u * m[3]]
    if meta:
        if meta["title"]:
            a.Title = meta["title"]
        if meta["desc"]:
            a.Description = meta["desc"]
        if meta["credit"]:
            a.Credit = meta["credit"]
        if meta["url"]:
            a.ReferenceURL = meta["url"]
    return a


def deproject(cv, plane):
    """(xi, eta) degrees in the tangent plane at cv -> (ra, dec) degrees, through astropy."""
    from astropy.wcs import WCS
    w = WCS(naxis=2)
    w.wcs.ctype = ["RA---TAN", "DEC--TAN"]
    w.wcs.crval = [qf(cv[0]), qf(cv[1])]
    w.wcs.crpix = [0.0, 0.0]
    w.wcs.cd = [[1.0, 0.0], [0.0, 1.0]]
    ra, dec = w.wcs_pix2world([[qf(plane[0]), qf(plane[1])]], 1)[0]
    return float(ra), float(dec)


def sep_deg(a, b):
    r1, d1, r2, d2 = map(math.radians, (a[0], a[1], b[0], b[1]))
    v1 = (math.cos(d1) * math.cos(r1), math.cos(d1) * math.sin(r1), math.sin(d1))
    v2 = (math.cos(d2) * math.cos(r2), math.cos(d2) * math.sin(r2), math.sin(d2))
    cr = (v1[1] * v2[2] - v1[2] * v2[1], v1[2] * v2[0] - v1[0] * v2[2], v1[0] * v2[1] - v1[1] * v2[0])
    return math.degrees(math.atan2(math.sqrt(sum(c * c for c in cr)), sum(p * q for p, q in zip(v1, v2))))


def zero_sampler(lon, lat):
    import numpy as np
    return np.zeros(lon.shape + (3,), dtype=np.uint8)


def new_builder(base):
    from toasty.builder import Builder
    from toasty.pyramid import PyramidIO
    return Builder(PyramidIO(base, default_format="png"))


def snap(b):
    i, p = b.imgset, b.place
    return {"levels": int(i.tile_levels), "proj": i.projection.value, "dst": i.data_set_type.value, "wf": int(i.width_factor),
            "cx": float(i.center_x), "cy": float(i.center_y), "rot": float(i.rotation_deg), "bu": bool(i.bottoms_up),
            "base": float(i.base_degrees_per_tile), "offx": float(i.offset_x), "offy": float(i.offset_y),
            "name": i.name, "desc": i.description, "credits": i.credits, "curl": i.credits_url, "thumb": i.thumbnail_url,
            "pdst": p.data_set_type.value, "ra": float(p.ra_hr) * 15.0, "dec": float(p.dec_deg), "prot": float(p.rotation_deg),
            "zoom": float(p.zoom_level), "pname": p.name, "pthumb": p.thumbnail}


def near(a, b, scale):
    return abs(a - b) <= TOL * max(abs(scale), 1e-300)


def diff_set(got, st, w, h):
    """Real ImageSet snapshot against TLC's [levels, proj, dst, wf, cv, rot, bu, base, offx, offy] -> [(field, message)]."""
    out = []
    for f, g, e in (("tile_levels", got["levels"], st["levels"]), ("projection", got["proj"], st["proj"]), ("data_set_type", got["dst"], st["dst"]),
                    ("width_factor", got["wf"], st["wf"]), ("bottoms_up", got["bu"], st["bu"])):
        if g != e:
            out.append((f, "%s = %r, specified %r" % (f, g, e)))
    cx, cy = qf(st["cv"][0]), qf(st["cv"][1])
    if not near(got["cx"], cx, max(1.0, abs(cx))) or not near(got["cy"], cy, max(1.0, abs(cy))):
        out.append(("center", "center = (%r, %r), specified (%r, %r)" % (got["cx"], got["cy"], cx, cy)))
    er = dir_deg(st["rot"])
    if ang_diff(got["rot"], er) > TOL * 360.0:
        out.append(("rotation_deg", "rotation_deg = %r, specified %r (direction %s)" % (got["rot"], er, st["rot"])))
    eb = sf(st["base"])
    if not near(got["base"], eb, eb):
        out.append(("base_degrees_per_tile", "base_degrees_per_tile = %r, specified %r" % (got["base"], eb)))
    ex, ey = sf(st["offx"]), sf(st["offy"])
    if st["proj"] == "Tan":
        sc = max(eb, abs(ex), abs(ey))
    else:
        sc = max(w, h, abs(ex), abs(ey), 1)
    if not near(got["offx"], ex, sc):
        out.append(("offset_x", "offset_x = %r, specified %r" % (got["offx"], ex)))
    if not near(got["offy"], ey, sc):
        out.append(("offset_y", "offset_y = %r, specified %r" % (got["offy"], ey)))
    return out


def sky_tol(extent):
    return TOL * extent + 1e-10


def diff_place(got, pl, extent):
    out = []
    if got["pdst"] != pl["dst"]:
        out.append(("place.data_set_type", "place.data_set_type = %r, specified %r" % (got["pdst"], pl["dst"])))
    exp = deproject(pl["cv"], pl["cen"])
    s = sep_deg((got["ra"], got["dec"]), exp)
    if s > sky_tol(extent):
        out.append(("place.centre", "the Place is at RA %r deg, Dec %r deg; the image centre is at %r, %r (%.3g deg away)" % (got["ra"], got["dec"], exp[0], exp[1], s)))
    er = dir_deg(pl["rot"])
    if ang_diff(got["prot"], er) > TOL * 360.0:
        out.append(("place.rotation_deg", "place.rotation_deg = %r, specified %r" % (got["prot"], er)))
    ez = sf(pl["zoom"])
    if not near(got["zoom"], ez, ez if ez else 1.0):
        out.append(("place.zoom_level", "place.zoom_level = %r, specified %r" % (got["zoom"], ez)))
    return out


def tangent_tile_reader(imgset, w, h):
    """How a WWT client places a tiled study, applied to the REAL field values (the observer of the tiled description; the
    assumption stated in Astrometry.tla): -> (CRPIX1, CRPIX2, [[cd11, cd12], [cd21, cd22]]) of the w x h image."""
    from toasty.study import StudyTiling
    t = StudyTiling(w, h)
    tx, ty, sx, sy = t.image_to_tile(0, 0)
    gx0, gy0 = tx * 256 + sx, ty * 256 + sy
    base = float(imgset.base_degrees_per_tile)
    p2n = 256 * 2 ** int(imgset.tile_levels)
    S = base / p2n
    th = math.radians(float(imgset.rotation_deg))
    c, s = math.cos(th), math.sin(th)
    x0 = (base / imgset.width_factor - float(imgset.offset_x)) / S - gx0
    y0 = (base / 2.0 + float(imgset.offset_y)) / S - gy0
    return x0 + 0.5, y0 + 0.5, [[-c * S, -s * S], [s * S, -c * S]]


def read_back(b, w, h):
    """The description read back into (crpix1, crpix2, cd) - the library's own inverse for untiled images."""
    i = b.imgset
    if i.projection.value == "SkyImage":
        hd = i.wcs_headers_from_position(height=h)
        return hd["CRPIX1"], hd["CRPIX2"], [[hd["CD1_1"], hd["CD1_2"]], [hd["CD2_1"], hd["CD2_2"]]]
    return tangent_tile_reader(i, w, h)


def wcs_of(crx, cry, cd, cx, cy):
    from astropy.wcs import WCS
    w = WCS(naxis=2)
    w.wcs.ctype = ["RA---TAN", "DEC--TAN"]
    w.wcs.crval = [cx, cy]
    w.wcs.crpix = [crx, cry]
    w.wcs.cd = cd
    return w


def diff_readback(b, rec, w, h, extent):
    """-> findings [(field, message)], displacement (max over key pixels, degrees) of the read-back sky positions from TLC's."""
    out = []
    crx, cry, cd = read_back(b, w, h)
    dec = rec["dec"]
    f = sf(dec["lin"]["f"])
    k = dec["lin"]["k"]
    scale = max(abs(f * v) for v in k) or 1.0
    for got, idx in ((cd[0][0], 0), (cd[0][1], 1), (cd[1][0], 2), (cd[1][1], 3)):
        if not near(got, f * k[idx], scale):
            out.append(("readback.cd", "the description reads back as CD = %r, specified %r" % (cd, [f * v for v in k])))
            break
    if dec["cr"][0][1] != 0 and dec["cr"][1][1] != 0:
        ex, ey = qf(dec["cr"][0]), qf(dec["cr"][1])
        sc = max(w, h, abs(ex), abs(ey))
        if not near(crx, ex, sc) or not near(cry, ey, sc):
            out.append(("readback.crpix", "the description reads back as CRPIX = (%r, %r), specified (%r, %r)" % (crx, cry, ex, ey)))
    rw = wcs_of(crx, cry, cd, float(b.imgset.center_x), float(b.imgset.center_y))
    worst = 0.0
    for p in rec["pts"]:
        px = [qf(p["px"][0]), qf(p["px"][1])]
        ra, dc = rw.wcs_pix2world([px], 1)[0]
        exp = deproject(rec["app"]["cv"], p["plane"])
        worst = max(worst, sep_deg((float(ra), float(dc)), exp))
    return out, worst


# ------------------------------------------------------------------------------------------------
# replay of the case machine's states (pool worker)
# ------------------------------------------------------------------------------------------------
def call_case(b, c, given, form, variant):
    """Run the real call of the case on Builder b.  -> exception or None."""
    import warnings
    from toasty.image import ImageDescription
    w, h = c["w"], c["h"]
    try:
        with warnings.catch_warnings():
            warnings.simplefilter("ignore")
            if c["kind"] == "default":
                b.default_tiled_study_astrometry()
            elif c["kind"] == "avm":
                b.apply_avm_info(make_avm(c, flip_scale_sign=bool(variant % 2)), w, h)
            elif c["kind"] == "ens":
                d = ImageDescription(shape=(h, w), wcs=make_wcs(given, form))
                d.ensure_negative_parity()
                b.apply_wcs_info(d.wcs, w, h)
            else:
                b.apply_wcs_info(make_wcs(given, form), w, h)
    except Exception as e:  # noqa
        return e
    return None


def replay_cases(job):
    """-> (findings [(sev, key, message, replay)], stats)."""
    recs, scratch, seed = job
    repo.setup()
    import warnings
    warnings.simplefilter("ignore")
    from toasty.image import ImageDescription
    base = tempfile.mkdtemp(prefix="g09c-", dir=scratch)
    findings, stats = [], {"n": 0, "accepted": 0, "refused": 0, "readback": 0, "approx": [], "avm": [], "twins": []}
    toast_dir = None
    for idx, rec in enumerate(recs):
        c = rec["case"]
        w, h = c["w"], c["h"]
        variant = (c["w"] * 7 + c["h"] * 3 + sum(abs(v) for v in c["m"]) + rec["seq"] + seed) % 4
        form = "cd" if variant < 2 else "pc"
        rep = {"case": c, "header_form": form}
        kind = c["kind"]
        what = {"wcs": "apply_wcs_info", "ens": "ensure_negative_parity + apply_wcs_info", "avm": "apply_avm_info",
                "default": "default_tiled_study_astrometry"}[kind]
        try:
            if c["pre"] == "toast":
                toast_dir = tempfile.mkdtemp(prefix="t-", dir=base)
                b = new_builder(toast_dir)
                b.toast_base(zero_sampler, 1, parallel=1, cli_progress=False)
            else:
                b = new_builder(os.path.join(base, "p"))
                b.prepare_study_tiling(ImageDescription(shape=(h, w)))
        except Exception as e:  # noqa
            findings.append(("V", "G09:%s:prepare" % kind, "preparing the Builder raised %r" % (e,), rep))
            continue
        before = snap(b)
        pre_diff = diff_set(before, rec["pre"], w, h)
        if pre_diff:
            findings.append(("V", "G09:%s:prepared-state" % kind, "before the call: %s" % "; ".join(m for _f, m in pre_diff), rep))
            continue
        exc = call_case(b, c, rec["given"], form, variant)
        after = snap(b)
        stats["n"] += 1
        if toast_dir:
            shutil.rmtree(toast_dir, ignore_errors=True)
            toast_dir = None
        if (exc is None) != rec["ok"]:
            findings.append(("V", "G09:%s:refusal" % kind,
                             "%s %s; specified: %s" % (what, "raised %r" % (exc,) if exc is not None else "accepted the input",
                                                       "accepted" if rec["ok"] else "refused (%s)" % rec["err"]), rep))
            continue
        if exc is not None:
            stats["refused"] += 1
            if after != before:
                changed = sorted(k for k in after if after[k] != before[k])
                findings.append(("V", "G09:%s:refused-but-changed" % kind, "%s raised %r and left the Builder changed in %s" % (what, exc, changed), rep))
            want_exc = Exception if rec["err"] == "parity" else ValueError
            if rec["err"] in ("parity", "ctype", "nonsquare", "cd1", "cd2", "nodim", "aspect") and type(exc) is not want_exc:
                findings.append(("D", "exception-type", "%s refused (%s) with %s, the model expects %s" % (what, rec["err"], type(exc).__name__, want_exc.__name__), rep))
            continue
        stats["accepted"] += 1
        judged = rec["exact"] or kind == "default"          # Approximated / TOAST descriptions: implementation-shaped, not the contract
        app = rec["app"]
        pix = sf({"q": app["u"], "r": max(1, app["m"][2] ** 2 + app["m"][3] ** 2)}) if kind != "default" else 1.0 / 256
        extent = max(w, h) * pix
        diffs = diff_set(after, rec["set"], w, h)
        if kind != "default":
            diffs += diff_place(after, rec["place"], extent)
        else:
            ez = sf(rec["place"]["zoom"])
            if not near(after["zoom"], ez, 1.0) or after["ra"] != 0.0 or after["dec"] != 0.0:
                diffs.append(("place", "place zoom / RA / Dec = %r / %r / %r, specified %r / 0 / 0" % (after["zoom"], after["ra"], after["dec"], ez)))
        for f, m in diffs:
            findings.append(("V" if judged else "D", "G09:%s:%s" % (kind, f), "after %s: %s" % (what, m), rep))
        if diffs:
            continue
        if rec["hasdec"] and kind != "default":
            try:
                rb, worst = diff_readback(b, rec, w, h, extent)
            except Exception as e:  # noqa
                findings.append(("V", "G09:%s:readback" % kind, "reading the description back raised %r" % (e,), rep))
                continue
            stats["readback"] += 1
            for f, m in rb:
                findings.append(("V" if judged else "D", "G09:%s:%s" % (kind, f), "after %s: %s" % (what, m), rep))
            if rec["exact"]:
                if worst > sky_tol(extent):
                    findings.append(("V", "G09:%s:sky" % kind, "after %s the description puts a corner / the reference pixel / the centre %.3g deg (%.3g pixels) "
                                     "from where the WCS puts it" % (what, worst, worst / pix), rep))
            else:
                stats["approx"].append((worst / (math.hypot(w, h) * pix), worst / pix, {"m": app["m"], "w": w, "h": h, "cr": [qf(app["cr"][0]), qf(app["cr"][1])], "proj": rec["set"]["proj"]}))
        if kind == "avm" and rec["exact"] and rec["hasdec"]:
            # the AVM's own statement about the corners of its reference image (real pyavm WCS) against the description
            try:
                with warnings.catch_warnings():
                    warnings.simplefilter("ignore")
                    own = make_avm(c).to_wcs()
                crx, cry, cd = read_back(b, w, h)
                rw = wcs_of(crx, cry, cd, after["cx"], after["cy"])
                worst, lift = 0.0, 0.0
                for p in rec["avm"]["pts"]:
                    ra0, dc0 = own.wcs_pix2world([[qf(p["ref"][0]), qf(p["ref"][1])]], 1)[0]
                    lift = max(lift, sep_deg((float(ra0), float(dc0)), deproject(c["cv"], p["plane"])))
                    ra1, dc1 = rw.wcs_pix2world([[qf(p["target"][0]), qf(p["target"][1])]], 1)[0]
                    worst = max(worst, sep_deg((float(ra0), float(dc0)), (float(ra1), float(dc1))))
                if lift > sky_tol(extent):
                    findings.append(("M", "", "the lifted AVM does not say what TLC's AVM says (%.3g deg apart)" % lift, rep))
                stats["avm"].append((worst / pix, c["form"], qf(rec["avm"]["k"]), rec["ideal"]["AvmCornersKeepSky"], {"dims": [c["rw"], c["rh"], w, h], "m": c["m"]}))
            except Exception as e:  # noqa
                findings.append(("D", "avm-own", "could not evaluate the AVM's own WCS: %r" % (e,), rep))
    shutil.rmtree(base, ignore_errors=True)
    return findings, stats



# ------------------------------------------------------------------------------------------------
# the history machine: command alphabet and scripts (inputs), replay on a real Builder / directory
# ------------------------------------------------------------------------------------------------
NOMETA = {"title": "", "desc": "", "credit": "", "url": ""}


def hcase(kind, w, h, m, cr, cv, u=U1, ctype="tan", rw=0, rh=0, form="", hasdim=False):
    return {"kind": kind, "w": w, "h": h, "pre": "study", "m": tuple(m), "u": F(u), "cr": (F(cr[0]), F(cr[1])), "cv": cv, "ctype": ctype,
            "rw": rw, "rh": rh, "form": form, "hasdim": hasdim}


def centre(w, h):
    return (F(w + 1, 2), F(h + 1, 2))


K = {
    "tiled": hcase("wcs", 300, 200, (-4, 3, -3, -4), centre(300, 200), CV1),
    "tiled0": hcase("wcs", 300, 200, (-4, 3, -3, -4), (F(10), F(-3, 2)), CV0),
    "untiled-bu": hcase("wcs", 200, 100, (-4, -3, -3, 4), (1, 1), CV1),
    "untiled-rot": hcase("wcs", 200, 100, (0, 5, -5, 0), (F(401, 4), F(301, 4)), CVP, u=U2),
    "tiled-bu": hcase("wcs", 300, 200, (-4, -3, -3, 4), centre(300, 200), CV1),
    "ens-bu": hcase("ens", 300, 200, (-4, -3, -3, 4), (F(1, 2), F(1, 2)), CV1),
    "nonsquare": hcase("wcs", 300, 200, (-10, 0, 0, -12), centre(300, 200), CV1),
    "approx": hcase("wcs", 300, 200, (-20, 0, 0, -21), (1, 1), CV1),
    "avm": hcase("avm", 300, 200, (-4, -3, -3, 4), centre(600, 400), CV1, rw=600, rh=400, form="scale", hasdim=True),
    "avm-small": hcase("avm", 150, 100, (0, 1, 1, 0), (1, 1), CVP, rw=600, rh=400, form="scale", hasdim=True),
    "avm-bad": hcase("avm", 300, 230, (-4, -3, -3, 4), centre(600, 400), CV1, rw=600, rh=400, form="scale", hasdim=True),
    "default": hcase("default", 300, 200, (0, 0, 0, 0), (0, 0), CV0, u=1),
}
META = {"full": {"title": "T1", "desc": "D1", "credit": "C1", "url": "http://u1"}, "title": {"title": "T2", "desc": "", "credit": "", "url": ""},
        "credit": {"title": "", "desc": "", "credit": "C3", "url": ""}, "none": NOMETA}


def c_prepare(w, h):
    return {"op": "Prepare", "case": None, "meta": NOMETA, "name": "", "w": w, "h": h, "flag": False}


def c_astro(k, meta="none"):
    return {"op": "Astro", "case": k, "meta": META[meta], "name": "", "w": K[k]["w"], "h": K[k]["h"], "flag": False, "metakey": meta}


def c_toast():
    return {"op": "Toast", "case": None, "meta": NOMETA, "name": "", "w": 1, "h": 0, "flag": False}


def c_name(s):
    return {"op": "SetName", "case": None, "meta": NOMETA, "name": s, "w": 0, "h": 0, "flag": False}


def c_thumb(w, h):
    return {"op": "Thumb", "case": None, "meta": NOMETA, "name": "", "w": w, "h": h, "flag": False}


def c_write(flag=False):
    return {"op": "Write", "case": None, "meta": NOMETA, "name": "", "w": 0, "h": 0, "flag": flag}


def c_restore():
    return {"op": "Restore", "case": None, "meta": NOMETA, "name": "", "w": 0, "h": 0, "flag": False}


ALPHABET = ([c_prepare(300, 200), c_prepare(200, 100)] +
            [c_astro(k) for k in ("tiled", "tiled0", "untiled-bu", "untiled-rot", "tiled-bu", "ens-bu", "nonsquare", "approx", "avm-small", "avm-bad", "default")] +
            [c_astro("avm", mk) for mk in ("full", "title", "credit", "none")] +
            [c_toast(), c_name("n1"), c_name("n2"), c_thumb(300, 200), c_thumb(1, 7), c_thumb(600, 100), c_write(False), c_write(True), c_restore()])
# the alphabet of the exhaustive search (every sequence up to the bound)
BFS_ALPHABET = [0, 1, 2, 3, 4, 6, 8, 12, 13, 16, 17, 18, 20, 21, 23, 24, 25]


def cmd_text(c):
    op = c["op"]
    if op == "Prepare":
        return "prepare_study_tiling(%dx%d)" % (c["w"], c["h"])
    if op == "Astro":
        k = K[c["case"]]
        if k["kind"] == "default":
            return "default_tiled_study_astrometry()"
        fn = {"wcs": "apply_wcs_info", "ens": "ensure_negative_parity;apply_wcs_info", "avm": "apply_avm_info"}[k["kind"]]
        return "%s(%s%s, %dx%d)" % (fn, c["case"], "" if k["kind"] != "avm" else "+meta:" + c.get("metakey", ""), k["w"], k["h"])
    if op == "Toast":
        return "toast_base(depth 1)"
    if op == "SetName":
        return "set_name(%s)" % c["name"]
    if op == "Thumb":
        return "make_thumbnail_from_other(%dx%d)" % (c["w"], c["h"])
    if op == "Write":
        return "write_index_rel_wtml(add_place_for_toast=%s)" % c["flag"]
    return "FitsTiler(out_dir).tile() [reuse]"


def tla_case(k):
    return 'A!Case(%s, %d, %d, "study", %s, %s, <<%s, %s>>, %s, %s, %d, %d, %s, %s)' % (
        tstr(k["kind"]), k["w"], k["h"], tmat(k["m"]), tq(k["u"], "A!"), tq(k["cr"][0], "A!"), tq(k["cr"][1], "A!"), tcv(k["cv"], "A!"),
        tstr(k["ctype"]), k["rw"], k["rh"], tstr(k["form"]), "TRUE" if k["hasdim"] else "FALSE")


def tla_cmd(c):
    op = c["op"]
    if op == "Prepare":
        return "CmdPrepare(%d, %d)" % (c["w"], c["h"])
    if op == "Astro":
        m = c["meta"]
        return "CmdAstro(%s, [title |-> %s, desc |-> %s, credit |-> %s, url |-> %s])" % (tla_case(K[c["case"]]), tstr(m["title"]), tstr(m["desc"]), tstr(m["credit"]), tstr(m["url"]))
    if op == "Toast":
        return "CmdToast(%d)" % c["w"]
    if op == "SetName":
        return "CmdSetName(%s)" % tstr(c["name"])
    if op == "Thumb":
        return "CmdThumb(%d, %d)" % (c["w"], c["h"])
    if op == "Write":
        return "CmdWrite(%s)" % ("TRUE" if c["flag"] else "FALSE")
    return "CmdRestore"


def A(k, meta="none"):
    for i, c in enumerate(ALPHABET):
        if c["op"] == "Astro" and c["case"] == k and c.get("metakey") == meta:
            return i
    raise KeyError(k)


P300, P200, TOAST, N1, N2, TH, TH1, THW, WR, WRP, RS = 0, 1, 17, 18, 19, 20, 21, 22, 23, 24, 25
CRAFTED = [
    ("tile-study", [P300, A("tiled"), TH, N1, WR, RS]),
    ("tile-study-avm", [P300, A("avm", "full"), TH, WR, RS, N1]),
    ("tile-study-avm-cli-order", [P300, A("avm", "full"), TH, N1, WR, RS]),
    ("tile-study-default", [P300, A("default"), TH, N1, WR, RS]),
    ("untiled", [P200, A("untiled-bu"), WR, RS, A("untiled-rot"), WR]),
    ("origin-slips-through", [A("tiled0"), TOAST, A("tiled"), WR, RS, WRP]),
    ("order-detected", [P300, A("tiled"), TOAST, A("default"), WR, RS]),
    ("prepare-after-wcs", [A("tiled"), P300, WR, RS, A("tiled"), WR]),
    ("refusals", [P300, A("nonsquare"), A("tiled-bu"), A("ens-bu"), WR, RS]),
    ("thumbnails", [TH, TH1, WR, RS, THW, WR]),
    ("toast", [TOAST, WR, RS, WRP, RS, N2]),
    ("avm-metadata", [A("avm", "full"), A("avm", "title"), A("avm", "credit"), A("avm", "none"), WR, RS]),
    ("retile", [P300, A("tiled"), P200, A("untiled-bu"), WR, RS]),
    ("restore-first", [RS, WR, RS, N1, RS, WR]),
    ("approximated", [P300, A("approx"), WR, RS, A("avm-bad"), A("avm-small")]),
    ("small-avm", [P200, A("avm-small"), TH, WR, RS, A("untiled-rot")]),
]


def random_script(rng, length):
    weights = {"Prepare": 3, "Astro": 2, "Toast": 2, "SetName": 2, "Thumb": 2, "Write": 6, "Restore": 6}
    idx = list(range(len(ALPHABET)))
    w = [weights[ALPHABET[i]["op"]] for i in idx]
    return [rng.choices(idx, w)[0] for _ in range(length)]


def hist_module(name, scripts=None, alphabet=None):
    defs = [("MCCmdSeq", "<<" + ",\n   ".join(tla_cmd(c) for c in ALPHABET) + ">>")]
    if alphabet is not None:
        defs.append(("MCSome", "{" + ", ".join("MCCmdSeq[%d]" % (i + 1) for i in alphabet) + "}"))
    if scripts is not None:
        defs.append(("MCScripts", "{" + ",\n   ".join("<<" + ", ".join("MCCmdSeq[%d]" % (i + 1) for i in sc) + ">>" for sc in scripts) + "}"))
    return tla.module(name, ["MCAstrometryHistory"], defs)


HIST_INVARIANTS = ["TypeOK", "NoCarryOver", "ReadsBack", "OrderCheckIsCentreCheck", "NameLastWriter", "WrittenNamesAgree", "ThumbUrlSetBySuccess",
                   "ThumbOkMeansJpeg", "RestoreGivesWritten", "RestoredReadsBack", "WtmlKindRule"]
HIST_PROPERTIES = ["RefusedChangesNothing"]
HIST_IDEALS = ["OrderAlwaysDetected", "DescriptionSurvivesPrepare", "NoCarryOverAtAll", "PlaceNameSynced", "ThumbUrlValid", "RestoreIsIdentity"]


def hist_cfg(spec, maxcmds, invariants, properties=(), commands="MCCommands", scripts=False, view=False):
    lines = ["SPECIFICATION %s" % spec, "CONSTANTS", " CmdSeq <- MCCmdSeq", " Commands <- %s" % commands, " MaxCmds = %d" % maxcmds,
             " Scripts <- MCScripts" if scripts else " Scripts = {}"]
    lines += ["INVARIANT %s" % i for i in invariants]
    lines += ["PROPERTY %s" % p for p in properties]
    if view:
        lines.append("VIEW ViewVars")
    lines.append("CHECK_DEADLOCK FALSE")
    return "\n".join(lines) + "\n"


def case_json(k):
    """A history case in the shape TLC prints cases in (for make_wcs / make_avm)."""
    fr = lambda x: [F(x).numerator, F(x).denominator]   # noqa
    return {"kind": k["kind"], "w": k["w"], "h": k["h"], "m": list(k["m"]), "u": fr(k["u"]), "cr": [fr(k["cr"][0]), fr(k["cr"][1])],
            "cv": [fr(k["cv"][0]), fr(k["cv"][1])], "ctype": k["ctype"], "rw": k["rw"], "rh": k["rh"], "form": k["form"], "hasdim": k["hasdim"]}


def read_wtml(base):
    """index_rel.wtml parsed with ElementTree (not with wwt_data_formats) -> dict or None."""
    import xml.etree.ElementTree as ET
    path = os.path.join(base, "index_rel.wtml")
    if not os.path.exists(path):
        return None
    root = ET.parse(path).getroot()
    kids = list(root)
    out = {"folder": root.get("Name"), "nkids": len(kids), "kind": None}
    if len(kids) != 1:
        return out
    kid = kids[0]

    def imgset(e):
        t = lambda n: (e.find(n).text or "") if e.find(n) is not None else ""   # noqa
        return {"levels": int(e.get("TileLevels")), "proj": e.get("Projection"), "dst": e.get("DataSetType"), "wf": int(e.get("WidthFactor")),
                "cx": float(e.get("CenterX")), "cy": float(e.get("CenterY")), "rot": float(e.get("Rotation")), "bu": e.get("BottomsUp") == "True",
                "base": float(e.get("BaseDegreesPerTile")), "offx": float(e.get("OffsetX", "0")), "offy": float(e.get("OffsetY", "0")),
                "name": e.get("Name"), "desc": t("Description"), "credits": t("Credits"), "curl": t("CreditsUrl"), "thumb": t("ThumbnailUrl")}
    if kid.tag == "ImageSet":
        out["kind"] = "imageset"
        out["set"] = imgset(kid)
    elif kid.tag == "Place":
        out["kind"] = "place"
        fg = kid.find("ForegroundImageSet")
        out["set"] = imgset(fg.find("ImageSet")) if fg is not None and fg.find("ImageSet") is not None else None
        out["place"] = {"pdst": kid.get("DataSetType"), "ra": float(kid.get("RA", "0")) * 15.0, "dec": float(kid.get("Dec", "0")),
                        "prot": float(kid.get("Rotation", "0")), "zoom": float(kid.get("ZoomLevel", "0")), "pname": kid.get("Name"),
                        "pthumb": kid.get("Thumbnail", "")}
    else:
        out["kind"] = kid.tag
    return out


def thumb_state(base):
    path = os.path.join(base, "thumb.jpg")
    if not os.path.exists(path):
        return "none", None
    if os.path.getsize(path) == 0:
        return "empty", None
    from PIL import Image as PILImage
    try:
        with PILImage.open(path) as im:
            return ("jpeg" if im.format == "JPEG" else str(im.format)), im.size
    except Exception:  # noqa
        return "unreadable", None


def diff_builder(got, eb, w, h, what, full=True):
    """A snapshot (of a Builder or of the WTML) against TLC's builder record -> [(field, message)]"""
    out = []
    if "levels" in got:
        out += diff_set(got, eb["set"], w, h)
        for f, e in (("name", eb["meta"]["name"]), ("desc", eb["meta"]["desc"]), ("credits", eb["meta"]["credits"]), ("curl", eb["meta"]["curl"]),
                     ("thumb", eb["meta"]["thumb"])):
            if got[f] != e:
                out.append(("imgset." + f, "imgset %s = %r, specified %r" % (f, got[f], e)))
    if full and "pdst" in got:
        st = eb["set"]
        pix = sf(st["base"]) / (256 * 2 ** st["levels"] if st["proj"] == "Tan" else 1.0) if st["proj"] != "Toast" else 1.0
        out += diff_place(got, eb["place"], max(w, h) * max(pix, 1e-6))
        if got["pname"] != eb["pmeta"]["name"]:
            out.append(("place.name", "place name = %r, specified %r" % (got["pname"], eb["pmeta"]["name"])))
        if got["pthumb"] != eb["pmeta"]["thumb"]:
            out.append(("place.thumbnail", "place thumbnail = %r, specified %r" % (got["pthumb"], eb["pmeta"]["thumb"])))
    return [(f, "%s: %s" % (what, m)) for f, m in out]


def apply_cmd(st, c, variant):
    """Run one command on the real objects.  -> exception or None"""
    import warnings
    import numpy as np
    from toasty.image import Image, ImageDescription
    b = st["b"]
    op = c["op"]
    try:
        with warnings.catch_warnings():
            warnings.simplefilter("ignore")
            if op == "Prepare":
                b.prepare_study_tiling(ImageDescription(shape=(c["h"], c["w"])))
            elif op == "Astro":
                k = case_json(K[c["case"]])
                if k["kind"] == "default":
                    b.default_tiled_study_astrometry()
                elif k["kind"] == "avm":
                    b.apply_avm_info(make_avm(k, meta=c["meta"], flip_scale_sign=bool(variant % 2)), k["w"], k["h"])
                elif k["kind"] == "ens":
                    d = ImageDescription(shape=(k["h"], k["w"]), wcs=make_wcs(k, "cd" if variant < 2 else "pc"))
                    d.ensure_negative_parity()
                    b.apply_wcs_info(d.wcs, k["w"], k["h"])
                else:
                    b.apply_wcs_info(make_wcs(k, "cd" if variant < 2 else "pc"), k["w"], k["h"])
            elif op == "Toast":
                b.toast_base(zero_sampler, c["w"], parallel=1, cli_progress=False)
            elif op == "SetName":
                b.set_name(c["name"])
            elif op == "Thumb":
                arr = np.zeros((c["h"], c["w"], 3), dtype=np.uint8)
                arr[..., 0] = np.arange(c["w"], dtype=np.uint8)[None, :]
                b.make_thumbnail_from_other(Image.from_array(arr))
            elif op == "Write":
                b.write_index_rel_wtml(add_place_for_toast=c["flag"])
            elif op == "Restore":
                from toasty.fits_tiler import FitsTiler, TilingMethod
                t = FitsTiler(None, out_dir=st["dir"], tiling_method=TilingMethod.TAN)
                t.tile(cli_progress=False, parallel=1)
                st["r"] = t.builder
            else:
                raise ValueError(op)
    except Exception as e:  # noqa
        return e
    return None


def replay_history(job):
    """-> (findings, stats)"""
    meta, states = job
    repo.setup()
    import warnings
    warnings.simplefilter("ignore")
    findings, stats = [], {"steps": 0, "acts": {}}
    top = tempfile.mkdtemp(prefix="g09h-", dir=meta["scratch"])
    base = os.path.join(top, "dir")          # FitsTiler names the reuse Builder after the directory
    os.makedirs(base)
    st = {"b": new_builder(base), "dir": base, "r": None}
    texts = []
    cur_wh = (1, 1)
    try:
        for rec in states[1:]:
            c = ALPHABET[rec["hist"][-1] - 1]
            texts.append(cmd_text(c))
            where = "[history %s (%s): %s]" % (meta["id"], meta["name"], "; ".join(texts))
            rep = {"history": list(texts), "name": meta["name"]}
            op = c["op"].lower()
            before = snap(st["b"])
            exc = apply_cmd(st, c, (meta["id"] + len(texts)) % 4)
            stats["steps"] += 1
            stats["acts"][rec["act"]] = stats["acts"].get(rec["act"], 0) + 1
            refused = rec["act"] != "ok"
            if (exc is not None) != refused:
                findings.append(("V", "G09:history:%s:refusal" % op, "%s %s; specified: %s %s" % (texts[-1], "raised %r" % (exc,) if exc is not None else "succeeded",
                                                                                               "refused (%s)" % rec["act"] if refused else "succeeds", where), rep))
                break
            if c["op"] == "Astro":
                cur_wh = (c["w"], c["h"])
            w, h = cur_wh
            after = snap(st["b"])
            if refused and after != before:
                findings.append(("V", "G09:history:%s:refused-but-changed" % op, "%s raised %r and changed %s %s"
                                 % (texts[-1], exc, sorted(k for k in after if after[k] != before[k]), where), rep))
                break
            diffs = diff_builder(after, rec["bld"], w, h, "the Builder after %s" % texts[-1])
            # the directory
            wt = read_wtml(base)
            ew = rec["dsk"]["wtml"]
            if ew["kind"] == "none":
                if wt is not None:
                    diffs.append(("wtml", "index_rel.wtml exists although nothing wrote it"))
            elif wt is None:
                diffs.append(("wtml", "index_rel.wtml was not written"))
            elif wt["kind"] != ew["kind"] or wt["nkids"] != 1:
                diffs.append(("wtml.kind", "index_rel.wtml holds %s (%d children), specified a %s" % (wt["kind"], wt["nkids"], ew["kind"])))
            else:
                if wt["folder"] != ew["folder"]:
                    diffs.append(("wtml.folder", "the Folder is named %r, specified %r" % (wt["folder"], ew["folder"])))
                if wt["set"] is None:
                    diffs.append(("wtml.imageset", "the Place in index_rel.wtml has no foreground ImageSet"))
                else:
                    g = dict(wt["set"])
                    if wt["kind"] == "place":
                        g.update(wt["place"])
                    diffs += diff_builder(g, ew["b"], w, h, "index_rel.wtml", full=wt["kind"] == "place")
            ts, tsize = thumb_state(base)
            if ts != rec["dsk"]["thumb"]:
                diffs.append(("thumb-file", "thumb.jpg is %s, specified %s" % (ts, rec["dsk"]["thumb"])))
            elif ts == "jpeg" and (tsize[0] > 96 or tsize[1] > 45):
                diffs.append(("thumb-file", "thumb.jpg is %s pixels, WWT thumbnails are at most 96 x 45" % (tsize,)))
            # the reuse path
            if st["r"] is not None:
                diffs += diff_builder(snap(st["r"]), rec["rst"], w, h, "the Builder the reuse path returns")
            hard = False
            for f, m in diffs:
                # implementation-shaped details the contract does not fix: the Place's name before set_name / write syncs it
                # (PlaceNameLags), what a failing thumbnail leaves on disk (ThumbFailureEmptiesFile), the default Place of a
                # TOAST data set restored without one (ToastRestoreLosesPlace)
                soft = ((f == "place.name" and m.startswith("the Builder after") and c["op"] not in ("SetName", "Write"))
                        or (f == "thumb-file" and rec["act"] == "thumb")
                        or (f.startswith("place.") and m.startswith("the Builder the reuse path") and rec["dsk"]["wtml"]["kind"] != "place"))
                if soft:
                    findings.append(("D", f, "%s %s" % (m, where), rep))
                else:
                    hard = True
                    findings.append(("V", "G09:history:%s:%s" % (op, f), "%s %s" % (m, where), rep))
            if hard:
                break
    finally:
        shutil.rmtree(top, ignore_errors=True)
    return findings, stats


def index_states(ctx, recs):
    by = {}
    for r in recs:
        k = tuple(r["hist"])
        if k in by and by[k]["bld"] != r["bld"]:
            ctx.machinery("TLC emitted two different states for one command history %s" % (k,))
        by[k] = r
    return by


def behaviour(by, hist):
    out = []
    for i in range(len(hist) + 1):
        r = by.get(tuple(hist[:i]))
        if r is None:
            break
        out.append(r)
    return out

# ------------------------------------------------------------------------------------------------
def _quiet_worker():
    devnull = os.open(os.devnull, os.O_WRONLY)
    os.dup2(devnull, 1)
    os.dup2(devnull, 2)


def _warm():
    import time
    time.sleep(0.2)
    return os.getpid()


def run_cases(ctx, pool, quick):
    """TLC on the case machine; replay of every emitted state.  -> (tlc result, records, futures)"""
    name = "MCG09Cases"
    mod = tla.module(name, ["MCAstrometry"], [("MCCases", case_space(quick))])
    r = ctx.tlc(name, extra={name + ".tla": mod}, cfg_text=case_cfg(CASE_INVARIANTS, CASE_PROPERTIES), workers=4 if quick else 8, timeout=7200)
    recs = r.json_lines("A")
    seen, uniq = set(), []
    for rec in recs:
        key = repr(rec["case"])
        if key in seen:
            continue
        seen.add(key)
        rec["seq"] = len(uniq)
        uniq.append(rec)
    nchunk = max(6, len(uniq) // 60)
    chunks = [uniq[i::nchunk] for i in range(nchunk)]
    futs = [pool.submit(replay_cases, (ch, ctx.scratch, ctx.seed)) for ch in chunks if ch]
    return r, uniq, futs


def trace_commands(output):
    """The commands of TLC's error trace under LastSpec (hist = << the last command >>)."""
    import re
    out = []
    for blk in output.split("\nState ")[2:]:
        m = re.search(r'/\\ hist = <<(.*?)>>\n/\\ ', blk + "\n/\\ ", re.S)
        if not m:
            continue
        t = m.group(1)
        op = re.search(r'op \|-> "(\w+)"', t).group(1)
        kind = re.search(r'kind \|-> "(\w+)"', t).group(1)
        mm = re.search(r'm \|-> <<([-\d, ]+)>>', t)
        extra = ""
        if op == "Astro":
            cv = re.search(r'cv \|-> <<<<(-?\d+), (\d+)>>, <<(-?\d+), (\d+)>>>>', t)
            extra = "(%s m=<<%s>> CRVAL=(%s/%s, %s/%s) %sx%s)" % ((kind, mm.group(1) if mm else "") + (cv.groups() if cv else ("?",) * 4)
                                                              + (re.search(r'\bw \|-> (\d+)', t).group(1), re.search(r'\bh \|-> (\d+)', t).group(1)))
        elif op in ("Prepare", "Thumb"):
            ws = re.findall(r'\bw \|-> (\d+)', t)
            hs = re.findall(r'\bh \|-> (\d+)', t)
            extra = "(%sx%s)" % (ws[-1], hs[-1])
        elif op == "Write":
            extra = "(place=%s)" % re.search(r'flag \|-> (\w+)', t).group(1)
        elif op == "SetName":
            extra = "(%s)" % re.search(r'name \|-> "(\w*)"', t).group(1)
        out.append(op + extra)
    return out


def run(ctx):
    repo.setup(ctx)
    import concurrent.futures as cf
    import multiprocessing as mp
    import time
    quick = ctx.quick
    ctx.rule = ("cases: the product space matrices (exact-form of 12-20 integer directions x 2 parities, approximated, refused, singular) x image sizes "
                "(1 px ... 1025 px, tiled and untiled) x reference pixels (centre, first pixel, corner, edge, fractional, outside) x CRVAL x scale x "
                "{apply_wcs_info, ensure_negative_parity + apply_wcs_info, apply_avm_info (Scale+Rotation / CD matrix, rescaled), default, TOAST}, closed "
                "under the parity flip; every state TLC emits is replayed.  histories: every command sequence up to the bound in TLC; crafted + seeded "
                "random scripts and TLC walks replayed, everything compared after every command.  distinct = case / command history")
    t0 = time.time()
    bound = 3 if quick else 5
    script_len = 6 if quick else 8
    n_random = 30 if quick else 300
    n_walks = 20 if quick else 200
    scripts = [(n, sc) for n, sc in CRAFTED] + [("random-%d" % i, random_script(ctx.rng, script_len)) for i in range(n_random)]
    pool = cf.ProcessPoolExecutor(max_workers=6, mp_context=mp.get_context("fork"), initializer=_quiet_worker)
    try:
        set(f.result() for f in [pool.submit(_warm) for _ in range(6)])

        def tlc_scripts():
            name = "MCG09Scripts"
            r = ctx.tlc(name, extra={name + ".tla": hist_module(name, scripts=[sc for _n, sc in scripts])},
                        cfg_text=hist_cfg("ScriptSpec", script_len, HIST_INVARIANTS + ["Emit"], HIST_PROPERTIES, scripts=True), workers=2, timeout=3600)
            return r, r.json_lines("H")

        def tlc_walks():
            name = "MCG09Walks"
            r = ctx.tlc(name, extra={name + ".tla": hist_module(name)}, cfg_text=hist_cfg("FreeSpec", script_len, HIST_INVARIANTS + ["Emit"]),
                        simulate=n_walks, depth=script_len + 1, workers=1, timeout=3600)
            return r, r.json_lines("H")

        def tlc_all():
            name = "MCG09All"
            return ctx.tlc(name, extra={name + ".tla": hist_module(name, alphabet=BFS_ALPHABET)},
                           cfg_text=hist_cfg("AllSpec", bound, HIST_INVARIANTS, HIST_PROPERTIES, commands="MCSome"), workers=4 if quick else 8, timeout=14400)

        def tlc_refute_hist(inv):
            name = "MCG09Not" + inv
            return ctx.tlc(name, extra={name + ".tla": hist_module(name, alphabet=BFS_ALPHABET)},
                           cfg_text=hist_cfg("LastSpec", 5, [inv], commands="MCSome", view=True), workers=1, timeout=3600, expect_violation=True, count=False)

        def tlc_refute_case(inv):
            name = "MCG09NotCase" + inv
            mod = tla.module(name, ["MCAstrometry"], [("MCCases", case_space(True))])
            return ctx.tlc(name, extra={name + ".tla": mod}, cfg_text=case_cfg([inv], emit=False), workers=1, timeout=3600, expect_violation=True, count=False)

        with cf.ThreadPoolExecutor(max_workers=5) as tex:
            f_scripts = tex.submit(tlc_scripts)
            f_walks = tex.submit(tlc_walks)
            f_all = tex.submit(tlc_all)
            f_ref = {}
            if not quick:
                f_ref = dict([(inv, tex.submit(tlc_refute_hist, inv)) for inv in HIST_IDEALS] + [(inv, tex.submit(tlc_refute_case, inv)) for inv in CASE_IDEALS])
            r_c, recs, futs = run_cases(ctx, pool, quick)
            # ---- histories
            jobs, hfuts, seen = [], [], set()
            r_s, recs_s = f_scripts.result()
            by_s = index_states(ctx, recs_s)
            for name, sc in scripts:
                key = tuple(i + 1 for i in sc)
                states = behaviour(by_s, key)
                if len(states) != len(sc) + 1:
                    ctx.machinery("script %s: TLC emitted %d of %d states" % (name, len(states), len(sc) + 1))
                if key in seen:
                    continue
                seen.add(key)
                meta = {"id": len(jobs), "name": name, "scratch": ctx.scratch}
                jobs.append((meta, states))
                hfuts.append(pool.submit(replay_history, (meta, states)))
            r_w, recs_w = f_walks.result()
            by_w = index_states(ctx, recs_w)
            maximal = [k for k in by_w if len(k) > 0 and not any(len(o) == len(k) + 1 and o[:len(k)] == k for o in by_w)]
            for key in sorted(maximal):
                if key in seen:
                    continue
                seen.add(key)
                meta = {"id": len(jobs), "name": "tlc-walk", "scratch": ctx.scratch}
                states = behaviour(by_w, key)
                jobs.append((meta, states))
                hfuts.append(pool.submit(replay_history, (meta, states)))
            results = [f.result() for f in futs]
            hresults = [f.result() for f in hfuts]
            r_all = f_all.result()
            refuted = {}
            for inv in CASE_IDEALS:
                wit = [r for r in recs if r["ideal"][inv] is False]
                if not wit:
                    ctx.machinery("no emitted case refutes %s: the model (or the case space) has lost the deviation it is meant to expose" % inv)
                w0 = min(wit, key=lambda r: (r["case"]["w"] * r["case"]["h"], repr(r["case"])))
                refuted[inv] = {"refuting_states": len(wit), "a_witness": {k: w0["case"][k] for k in ("kind", "w", "h", "pre", "m", "cr", "form", "rw", "rh")}}
            for inv in HIST_IDEALS:
                wit = [r for r in list(by_s.values()) + list(by_w.values()) if r["ideal"][inv] is False]
                if not wit:
                    ctx.machinery("no emitted history refutes %s: the model (or the scripts) have lost the deviation they are meant to expose" % inv)
                w0 = min(wit, key=lambda r: len(r["hist"]))
                refuted[inv] = {"refuting_states": len(wit), "a_shortest_emitted_witness": [cmd_text(ALPHABET[i - 1]) for i in w0["hist"]]}
            for inv, f in f_ref.items():
                r = f.result()
                if r.violated != inv:
                    ctx.machinery("TLC no longer refutes %s (it reports %r)" % (inv, r.violated))
                if inv in HIST_IDEALS:
                    refuted[inv]["shortest_counterexample"] = trace_commands(r.output)
    finally:
        pool.shutdown(wait=True, cancel_futures=True)

    # ---- verdicts: cases
    stats = {"n": 0, "accepted": 0, "refused": 0, "readback": 0, "approx": [], "avm": []}
    for findings, st in results:
        for k in ("n", "accepted", "refused", "readback"):
            stats[k] += st[k]
        stats["approx"] += st["approx"]
        stats["avm"] += st["avm"]
        for sev, key, msg, rep in findings:
            if sev == "M":
                ctx.machinery(msg)
            elif sev == "V":
                ctx.violation(key, msg, rep)
            else:
                ctx.drift("%s %s" % (key, msg))
    ctx.count(stats["n"])
    ctx.trace_ok(stats["n"])
    for rec in recs:
        ctx.distinct(repr(rec["case"]))
    # ---- verdicts: histories
    steps, acts = 0, {}
    for (meta, states), (findings, st) in zip(jobs, hresults):
        ctx.count(st["steps"])
        ctx.trace_ok()
        steps += st["steps"]
        for a, v in st["acts"].items():
            acts[a] = acts.get(a, 0) + v
        for rec in states[1:]:
            ctx.distinct("H" + repr(tuple(rec["hist"])))
        for sev, key, msg, rep in findings:
            if sev == "M":
                ctx.machinery(msg)
            elif sev == "V":
                ctx.violation(key, msg, rep)
            else:
                ctx.drift("%s %s" % (key, msg))
    for need in ("ok", "order", "parity", "nonsquare", "aspect", "thumb"):
        if acts.get(need, 0) < 1:
            ctx.machinery("no replayed history reaches outcome %r" % need)
    # ---- as-built deviations as witnessed on the real code (notes, not verdicts)
    dev = {}
    if stats["approx"]:
        worst = max(stats["approx"], key=lambda t: t[1])
        dev["Approximated"] = {"accepted_inexpressible_cases": len(stats["approx"]), "worst_error_pixels": round(worst[1], 2),
                               "worst_error_fraction_of_diagonal": round(worst[0], 4), "input": worst[2]}
    else:
        ctx.drift("no accepted-but-inexpressible CD matrix was read back: the Approximated deviation was not observed on this tree")
    half = [t for t in stats["avm"] if t[1] == "scale" and t[2] != 1.0]
    cdm = [t for t in stats["avm"] if t[1] == "cd" and t[2] != 1.0]
    same = [t for t in stats["avm"] if t[2] == 1.0]
    if half:
        w_ = max(half, key=lambda t: t[0])
        dev["AvmHalfPixel"] = {"cases": len(half), "largest_corner_displacement_target_pixels": round(w_[0], 4), "k": w_[2], "input": w_[4],
                               "all_displaced_by_abs(k-1)/2*sqrt2": all(abs(t[0] - abs(t[2] - 1) / 2 * math.sqrt(2)) < 2e-2 * max(1, t[0]) for t in half)}
        if not dev["AvmHalfPixel"]["all_displaced_by_abs(k-1)/2*sqrt2"]:
            ctx.drift("the corner displacement of a rescaled AVM is no longer |k - 1| / 2 pixels in x and y: %s"
                      % ([t for t in half if abs(t[0] - abs(t[2] - 1) / 2 * math.sqrt(2)) >= 2e-2 * max(1, t[0])][:3],))
    if cdm:
        w_ = max(cdm, key=lambda t: t[0])
        dev["AvmCdMatrixNotRescaled"] = {"cases": len(cdm), "largest_corner_displacement_target_pixels": round(w_[0], 2), "k": w_[2], "input": w_[4]}
    if same and max(t[0] for t in same) > 1e-6:
        ctx.violation("G09:avm:sky-at-reference-size", "an AVM applied to an image of its own reference dimension moves a corner by %.3g pixels"
                      % max(t[0] for t in same), {"cases": [t[4] for t in same if t[0] > 1e-6][:3]})
    ctx.exhaustive = True
    ctx.note("tlc_case_machine", {"distinct_states": r_c.distinct, "transitions": r_c.generated, "invariants": CASE_INVARIANTS, "action_properties": CASE_PROPERTIES})
    ctx.note("tlc_history_machine", {"commands_bound": bound, "alphabet": [cmd_text(ALPHABET[i]) for i in BFS_ALPHABET], "distinct_states": r_all.distinct,
                                     "transitions": r_all.generated, "invariants": HIST_INVARIANTS, "action_properties": HIST_PROPERTIES})
    ctx.note("tlc_refuted_ideals", refuted)
    ctx.note("as_built_deviations_on_the_real_code", dev)
    ctx.note("replayed", {"cases": stats["n"], "accepted": stats["accepted"], "refused": stats["refused"], "read_back_through_astropy": stats["readback"],
                          "histories": len(jobs), "scripts": len(scripts), "tlc_walks": len([1 for m, _s in jobs if m["name"] == "tlc-walk"]),
                          "commands_executed": steps, "outcomes": acts})
    ctx.note("wall_s", round(time.time() - t0, 1))
    for rec in recs[:1] + [r for r in recs if r["case"]["kind"] == "avm" and r["ok"]][:1]:
        ctx.sample({"case": rec["case"], "applied": rec["app"], "error": rec["err"], "imageset": rec["set"], "place": rec["place"], "read_back": rec["dec"]})
    for meta, states in jobs[:2]:
        ctx.sample({"history": meta["name"], "commands": [cmd_text(ALPHABET[i - 1]) for i in states[-1]["hist"]], "outcomes": [s["act"] for s in states[1:]],
                    "final_builder": states[-1]["bld"], "final_wtml_kind": states[-1]["dsk"]["wtml"]["kind"]})
    ctx.assume("a WWT client places a tiled (Tan) study as the engine's TangentTile does: the level-0 tile spans BaseDegreesPerTile, its left edge "
               "BaseDegreesPerTile / WidthFactor left of and its top edge BaseDegreesPerTile / 2 above the point OffsetX / OffsetY displace from the "
               "projection centre, rotation as for an untiled top-down image (DecodeTan; there is no WWT engine in the sandbox). For untiled images "
               "the library's own ImageSet.wcs_headers_from_position is the reader (bound to the real function)")
    ctx.assume("sky positions are compared in the tangent plane at CRVAL inside TLC (exact) and, for the real objects, after deprojection by astropy; "
               "the AVM's WCS is read FITS-like (y from the bottom row of the reference image) while the image rows are stored top-down")
    ctx.assume("CD matrices are integer matrices times a rational scale; no case sits exactly on one of the code's floating-point thresholds (WellFormed)")
