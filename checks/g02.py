"""G02 (growth specification, DESIGN.md section 7) - the life cycle of one tile-pyramid directory.

Spec: spec/PyramidLifecycle.tla (+ spec/MCPyramidLifecycle.tla).  One abstract pyramid directory (data tiles = .npy,
output tiles = .png, index_rel.wtml, the user's Builder object) and the stage commands as actions in ANY order and
repetition: NewBuilder(fmt), Sample(depth, region, clobber|update, source), Cascade(start), Transform(depth), WriteWtml.
The merge rule is Cascade!MergeTile (INSTANCE of spec/Cascade.tla), positions are Quadtree, URL template / deepest
level are Wtml.  Ghost variables carry what the command HISTORY promises (base, cons, fresh, shrunk, lost, wtml.cur);
the theorems say that this bookkeeping is sound in the directory and name what is not promised.  The cascade is the
ideal rule (merge.py removes a parent none of whose children exists: after Cascade(s) a tile above level s exists iff
a tile of level s lies below it); the steps on which tile files disappear are named CascadeRemovesOrphans (ghost
`pruned`; not a deviation - the harness additionally asserts on the real directory that every tile TLC removes on such
a step is gone).  A start level >= 1 that holds no tile file is REFUSED (cascade_images raises ValueError before touching
anything): action CascadeRefused, nothing changes; the harness requires the ValueError and an unchanged directory, so an
accepted cascade never empties a non-empty pyramid (theorem CascadeNeverErases).  The code's habit of leaving an OUTPUT tile in place when its data tile has disappeared is modelled
faithfully as the deviation action TransformLeavesStale.

TLC (a) explores every command sequence up to a bound (T = 2 abstract pixels, depth <= 2) and checks the theorems,
(b) refutes the "ideal" statements that the code does not keep (the counterexamples are the shortest command sequences
that leave stale data), (c) evaluates given command scripts (standard / adversarial / seeded random; inputs only) and
its own random walks at T = 4 and emits the expected directory after every command.

Binding (spec -> code, M2 + M5): every emitted behaviour is replayed on a real temporary directory with the real
Python API, serially: Builder.toast_base with a sampler that returns the lifted abstract tile TLC printed for the leaf
being sampled (clobber = sample_layer, update = sample_layer_filtered), merge.cascade_images / Builder.cascade,
transform.f16x3_to_rgb, Builder.write_index_rel_wtml, PyramidIO / Builder construction.  Abstract T x T tiles are
lifted to 256 x 256 with the index map of checks/c02.py (a tile of level n is indexed by the top MaxDepth - n bits and
the low log2(T) - (MaxDepth - n) bits of the row / column: sampling, update, the 2 x 2 mean and the pixelwise
transform all commute with it exactly).  After EVERY command the whole directory is read back with numpy / PIL (not
with toasty) and projected: set of .npy tiles, set of .png tiles, every tile's lifted structure, defined / undefined
mask (exact), values (float tolerance of the stored dtype; +-1 count for the bytes), the WTML's TileLevels / FileType
/ Url, and the Builder's recorded levels.
"""
import glob
import os
import shutil
import signal
import tempfile

from lib import repo, tla

TILE = 256
MAXD = 2
T_BIND = 4

# ------------------------------------------------------------------------------------------------
# commands (INPUTS: Python may enumerate them; what they do comes from TLC)
# ------------------------------------------------------------------------------------------------
FULL, LEFT, RIGHT, MID = (0, 4), (0, 2), (2, 4), (1, 3)


def sample(d, reg=FULL, mode="clobber", src=0):
    return {"op": "Sample", "d": d, "reg": tuple(reg), "mode": mode, "src": src, "fmt": ""}


def cascade(s):
    return {"op": "Cascade", "d": s, "reg": (0, 0), "mode": "", "src": 0, "fmt": ""}


def transform(s):
    return {"op": "Transform", "d": s, "reg": (0, 0), "mode": "", "src": 0, "fmt": ""}


def write_wtml():
    return {"op": "WriteWtml", "d": 0, "reg": (0, 0), "mode": "", "src": 0, "fmt": ""}


def new_builder(fmt):
    return {"op": "NewBuilder", "d": 0, "reg": (0, 0), "mode": "", "src": 0, "fmt": fmt}


def cmd_key(c):
    return (c["op"], c["d"], tuple(c["reg"]), c["mode"], c["src"], c["fmt"])


def cmd_tla(c):
    return "Cmd(%s, %d, %s, %s, %d, %s)" % (tla.lit(c["op"]), c["d"], tla.lit(tuple(c["reg"])), tla.lit(c["mode"]), c["src"], tla.lit(c["fmt"]))


def cmd_text(c):
    if c["op"] == "Sample":
        return "Sample(%d, cols %d/4..%d/4, %s, src %d)" % (c["d"], c["reg"][0], c["reg"][1], c["mode"], c["src"])
    if c["op"] in ("Cascade", "Transform"):
        return "%s(%d)" % (c["op"], c["d"])
    if c["op"] == "NewBuilder":
        return "NewBuilder(%s)" % c["fmt"]
    return c["op"]


CRAFTED = [
    # the documented order, then the .png session
    ("standard", [sample(2), cascade(2), write_wtml(), transform(2), new_builder("png"), write_wtml()]),
    # a clobbering re-sample over a smaller region: leaves disappear, their parents are orphans until the re-cascade
    # removes them (the real directory must have lost them too), their outputs go stale
    ("resample-smaller", [sample(2), cascade(2), transform(2), sample(2, LEFT, "clobber", 1), cascade(2), transform(2)]),
    ("resample-smaller-mid", [sample(2, MID), cascade(2), sample(2, RIGHT, "clobber", 1), cascade(2), write_wtml(), transform(2)]),
    # a sample at a shallower depth after a deeper cascade, then cascades from both levels
    ("shallower-after-deeper", [sample(2), cascade(2), sample(1, RIGHT, "clobber", 1), cascade(1), write_wtml(), cascade(2)]),
    ("deeper-after-shallower", [sample(1, LEFT), cascade(1), write_wtml(), sample(2, FULL, "update", 1), write_wtml(), cascade(2)]),
    # update passes over complementary / overlapping regions
    ("update-passes", [sample(2, LEFT, "update", 0), sample(2, RIGHT, "update", 1), cascade(2), sample(2, MID, "update", 1), cascade(2), transform(2)]),
    ("update-over-clobber", [sample(1, FULL, "clobber", 0), sample(1, MID, "update", 1), sample(1, LEFT, "clobber", 1), cascade(1), transform(1), write_wtml()]),
    # transform before the cascade, partial transforms
    ("transform-first", [sample(1), transform(1), cascade(1), write_wtml(), transform(0), transform(1)]),
    ("transform-partial", [sample(2, MID), cascade(2), transform(1), sample(2, LEFT, "clobber", 1), cascade(2), transform(0)]),
    # depth 0, commands on an empty directory, cascade from deeper than the data, cascade(0)
    ("depth-zero", [sample(0), cascade(0), transform(0), write_wtml(), sample(0, LEFT, "clobber", 1), transform(2)]),
    ("empty-first", [cascade(2), transform(2), write_wtml(), sample(1, MID), cascade(2), transform(2)]),
    ("update-depth-zero", [sample(0, LEFT, "update", 0), sample(0, RIGHT, "update", 1), sample(1, MID, "update", 0), cascade(1), transform(1), write_wtml()]),
    # outputs whose data tiles have disappeared
    ("stale-outputs", [sample(1), transform(1), sample(1, LEFT, "clobber", 1), transform(1), cascade(1), transform(1)]),
    ("stale-outputs-deep", [sample(2, MID), transform(2), sample(2, RIGHT, "clobber", 0), cascade(2), transform(2), transform(1)]),
    # everything removed again
    ("vanish", [sample(2, LEFT), cascade(2), transform(2), sample(2, RIGHT, "clobber", 1), cascade(2), cascade(1)]),
    # orphans are first averaged into the root by a cascade from their own level (which does not visit them), then
    # removed by the cascade from the level below them; the root is repaired
    ("orphans-averaged-then-removed", [sample(2), cascade(2), sample(2, LEFT, "clobber", 1), cascade(1), cascade(2), transform(2)]),
    # a cascade started deeper than the data finds an empty start level: refused (ValueError), the pyramid, its outputs
    # and the WTML survive untouched; also through Builder.cascade() and on an empty directory
    ("cascade-from-deeper-refused", [sample(1), cascade(1), transform(1), write_wtml(), cascade(2), transform(1)]),
    ("cascade-from-deeper-refused-resampled", [sample(0), cascade(1), sample(1, MID, "update", 1), cascade(2), sample(1, LEFT), cascade(1)]),
    ("cascade-refused-then-accepted", [cascade(1), sample(1, RIGHT), cascade(2), cascade(1), transform(1), cascade(2)]),
    # sessions
    ("sessions", [write_wtml(), sample(1), new_builder("npy"), write_wtml(), cascade(1), new_builder("png")]),
    ("png-session", [new_builder("png"), transform(1), write_wtml(), new_builder("npy"), sample(1, RIGHT), write_wtml()]),
]


def random_script(rng, length):
    """Seeded random command sequence; the session format is tracked so that only enabled commands are chosen."""
    fmt = "npy"
    out = []
    for _ in range(length):
        while True:
            op = rng.choices(["Sample", "Cascade", "Transform", "WriteWtml", "NewBuilder"], [40, 25, 17, 10, 8])[0]
            if op in ("Sample", "Cascade") and fmt != "npy":
                continue
            break
        if op == "Sample":
            out.append(sample(rng.choice([0, 1, 1, 2, 2, 2]), rng.choice([FULL, FULL, LEFT, RIGHT, MID]), rng.choice(["clobber", "update"]), rng.choice([0, 1])))
        elif op == "Cascade":
            out.append(cascade(rng.choice([0, 1, 2, 2])))
        elif op == "Transform":
            out.append(transform(rng.choice([0, 1, 2, 2])))
        elif op == "WriteWtml":
            out.append(write_wtml())
        else:
            fmt = rng.choice(["npy", "npy", "png"])
            out.append(new_builder(fmt))
    return out


# ------------------------------------------------------------------------------------------------
# TLC
# ------------------------------------------------------------------------------------------------
BASE_INVARIANTS = ["TypeOK", "ConsistentLevels", "NeverStoredUndefined", "ExistenceIdeal", "NoOrphanAfterCascade", "PromisedLevelsIdeal",
                   "AlwaysIdealAfterCascade", "StandardSequenceExact", "NoShrinkNoOrphan", "RecascadeNoOp", "CascadeEveryState",
                   "NoLevelWithOutputOnly", "CascadePrunesOnlyAfterShrink",
                   "FreshLevels", "NoLossNoStaleOutput", "NoShrinkNoStaleOutput", "OutputComplete",
                   "BuilderKnowsDepth", "WtmlCurrent", "WtmlLevelsDeepest", "WtmlServes", "UnsampledBuilderLevelsZero"]
# CascadeEveryState = PrunesExactlyWhenStale /\ CascadeNeverErases (one cascade per start level and state instead of two)
OPERATOR_INVARIANTS = ["CascadeOperator", "TransformOperator"]
# statements the code does not keep: TLC must refute each.  (NoOrphanAfterCascade / AlwaysIdealAfterCascade were refuted
# until merge.py removed childless parents: they are theorems now.  CascadePrunesOnlyAfterShrink / NoShrinkNoStaleOutput
# were refuted while cascade_images accepted an empty start level - Sample(d); Cascade(d + 1) erased the pyramid - and are
# theorems since it refuses one.)
REFUTED = ["NothingDeeperThanBase", "NoStaleOutput", "WtmlAlwaysDeepest", "TransformCommutesWithMerge"]
# the action names of a step on which the model keeps a stale tile as the code does (mismatches there are reported as drift)
DEVIATION_ACTIONS = ("TransformLeavesStale",)
REQUIRED_ACTIONS = ("Sample", "CascadeClean", "CascadeRemovesOrphans", "CascadeRefused", "TransformClean", "TransformLeavesStale", "WriteWtml", "NewBuilder")
REGIONS3 = "{<<0, 4>>, <<0, 2>>, <<2, 4>>}"
REGIONS4 = "{<<0, 4>>, <<0, 2>>, <<2, 4>>, <<1, 3>>}"


def cfg(spec, T, regions_name, sources, maxcmds, invariants, scripts=False, view=False):
    lines = ["SPECIFICATION %s" % spec, "CONSTANTS", " T = %d" % T, " MaxDepth = %d" % MAXD, " Regions <- %s" % regions_name,
             " Sources = {%s}" % ", ".join(str(s) for s in sources), ' Modes = {"clobber", "update"}', " MaxCmds = %d" % maxcmds]
    lines.append(" Scripts <- MCScripts" if scripts else " Scripts = {}")
    lines += ["INVARIANT %s" % i for i in invariants]
    if view:
        lines.append("VIEW ViewVars")
    lines.append("CHECK_DEADLOCK FALSE")
    return "\n".join(lines) + "\n"


def mc_module(name, regions, scripts=None, op_bound=None):
    defs = [("MCRegions", regions)]
    if op_bound is not None:
        # the operator theorems cost nine cascades per state: they are checked on every directory reachable within op_bound commands
        defs.append(("OperatorsBounded", "(n <= %d) => (CascadeOperator /\\ TransformOperator)" % op_bound))
    if scripts is not None:
        defs.append(("MCScripts", "{" + ",\n  ".join("<<" + ", ".join(cmd_tla(c) for c in s) + ">>" for s in scripts) + "}"))
    return tla.module(name, ["MCPyramidLifecycle"], defs)


def trace_commands(output):
    """The commands of TLC's error trace under LastSpec (the `act` variable of every state after the first)."""
    import re
    out = []
    for m in re.finditer(r'^/\\ act = "(.*)"$', output, re.M):
        t = m.group(1).replace('\\"', '"')
        mm = re.match(r'<<"(\w+)", (\d+), <<(\d+), (\d+)>>, "(\w*)", (\d+), "(\w*)">>', t)
        if mm:
            out.append(cmd_text({"op": mm.group(1), "d": int(mm.group(2)), "reg": (int(mm.group(3)), int(mm.group(4))),
                                 "mode": mm.group(5), "src": int(mm.group(6)), "fmt": mm.group(7)}))
    return out


# ------------------------------------------------------------------------------------------------
# lifting / projection (M5; the index map of checks/c02.py with h = MAXD - level)
# ------------------------------------------------------------------------------------------------
def lift_index(T, h):
    import numpy as np
    k = T.bit_length() - 1
    if h > k:
        raise ValueError("lifting is exact only for h <= log2 T")
    r = np.arange(TILE)
    return ((r >> (8 - h)) << (k - h)) | (r & ((1 << (k - h)) - 1))


def lift(a, T, h):
    i = lift_index(T, h)
    return a[i[:, None], i[None, :]]


def representatives(T, h):
    """One real index per abstract index."""
    import numpy as np
    idx = lift_index(T, h)
    return np.array([int(np.argmax(idx == a)) for a in range(T)])


def data_array(px):
    """Abstract data tile (rows of <<<<num, den>>>>) -> float64 (T, T), NaN = undefined."""
    import numpy as np
    a = np.array(px, dtype=np.float64)[:, :, 0, :]
    num, den = a[..., 0], a[..., 1]
    with np.errstate(divide="ignore", invalid="ignore"):
        return np.where(den == 0, np.nan, num / np.where(den == 0, 1, den))


def concrete_data(px, T, level, dtag):
    import numpy as np
    a = lift(data_array(px), T, MAXD - level)
    if dtag == "f16x3":
        return np.ascontiguousarray(np.repeat(a[:, :, None], 3, axis=2).astype(np.float16))
    return np.ascontiguousarray(a.astype(np.float32))


def scan(base):
    """{(ext, pos): path} for the L/Y/YX layout, and everything else found."""
    tiles, other = {}, []
    for root, _dirs, files in os.walk(base):
        for fn in files:
            path = os.path.join(root, fn)
            rel = os.path.relpath(path, base).split(os.sep)
            ok = False
            if len(rel) == 3:
                stem, ext = os.path.splitext(rel[2])
                try:
                    n, y = int(rel[0]), int(rel[1])
                    ys, xs = stem.split("_")
                    if int(ys) == y and ext[1:] in ("npy", "png"):
                        tiles[(ext[1:], (n, int(xs), y))] = path
                        ok = True
                except ValueError:
                    pass
            if not ok:
                other.append(os.sep.join(rel))
    return tiles, other


def project(arr, T, level, what):
    """Real tile -> (abstract (T, T) array, None) or (None, message) when it is not a lifted tile."""
    import numpy as np
    h = MAXD - level
    if arr.ndim == 3:
        if not (np.array_equal(arr[..., 0], arr[..., 1], equal_nan=True) and np.array_equal(arr[..., 0], arr[..., 2], equal_nan=True)):
            return None, "%s: the three channels differ" % what
        arr = arr[..., 0]
    if arr.shape != (TILE, TILE):
        return None, "%s: shape %s" % (what, arr.shape)
    rep = representatives(T, h)
    proj = arr[rep[:, None], rep[None, :]]
    if not np.array_equal(lift(proj, T, h), arr, equal_nan=True):
        return None, "%s: the tile is not the lifting of any abstract %d x %d tile of level %d" % (what, T, T, level)
    return proj, None


# ------------------------------------------------------------------------------------------------
# replay of one behaviour on a real directory (pool worker)
# ------------------------------------------------------------------------------------------------
class _Timeout(Exception):
    pass


def _alarm(_s, _f):
    raise _Timeout()


_REG = {}


def _memoise_tile_coords():
    """toast_tile_get_coords is a pure function of the tile (~20 ms per call) and is called once per sampled leaf: the
    harness memoises it per tile position (tile geometry is the subject of C04 - C06, not of the life cycle)."""
    from toasty import toast
    if getattr(toast.toast_tile_get_coords, "_g02_memo", False):
        return
    orig = toast.toast_tile_get_coords
    memo = {}

    def toast_tile_get_coords(tile, coordsys=toast.ToastCoordinateSystem.ASTRONOMICAL):
        key = (tuple(tile.pos), coordsys)
        if key not in memo:
            memo[key] = orig(tile, coordsys=coordsys)
        return memo[key]
    toast_tile_get_coords._g02_memo = True
    toast.toast_tile_get_coords = toast_tile_get_coords


def _registry(depth):
    """(lon, lat) of one interior pixel of every TOAST tile of `depth` -> position.  The sampler is handed the pixel
    coordinates only; which leaf is being sampled is recovered from them (tile geometry is C04 - C06's subject)."""
    if depth in _REG:
        return _REG[depth]
    from toasty import toast
    reg = {}
    if depth > 0:
        for tile in toast.generate_tiles(depth, bottom_only=True):
            lon, lat = toast.toast_tile_get_coords(tile)
            reg[(float(lon[100, 37]), float(lat[100, 37]))] = (tile.pos.n, tile.pos.x, tile.pos.y)
    _REG[depth] = reg
    return reg


def make_sampler(feed, T, depth, dtag, calls):
    import numpy as np
    reg = _registry(depth)
    tiles = dict((tuple(f["pos"]), f["px"]) for f in feed)

    def sampler(lon, lat):
        if depth == 0:
            pos = (0, 0, 0)
        else:
            pos = reg.get((float(lon[100, 37]), float(lat[100, 37])))
        if pos is None:
            raise RuntimeError("G02 harness: the sampler was called for a pixel grid that is not a depth-%d TOAST tile" % depth)
        calls.append(pos)
        return concrete_data(tiles[pos], T, depth, dtag)
    return sampler


def apply_command(st, cmd, rec, meta):
    from toasty.pyramid import PyramidIO
    from toasty.builder import Builder
    op = cmd["op"]
    if op == "NewBuilder":
        st["pio"] = PyramidIO(st["base"], default_format=cmd["fmt"])
        st["builder"] = Builder(st["pio"])
    elif op == "Sample":
        calls = []
        sampler = make_sampler(rec["feed"], meta["T"], cmd["d"], meta["dtag"], calls)
        if cmd["mode"] == "clobber":
            st["builder"].toast_base(sampler, cmd["d"], parallel=1)
        else:
            st["builder"].toast_base(sampler, cmd["d"], parallel=1, tile_filter=lambda t: True)
        st["calls"] = calls
    elif op == "Cascade":
        if cmd["d"] == st["builder"].imgset.tile_levels and meta["id"] % 2 == 0:
            st["builder"].cascade(parallel=1)
        else:
            from toasty.merge import cascade_images, averaging_merger
            cascade_images(st["pio"], cmd["d"], averaging_merger, parallel=1)
    elif op == "Transform":
        from toasty.transform import f16x3_to_rgb
        f16x3_to_rgb(st["pio"], cmd["d"], parallel=1)
    elif op == "WriteWtml":
        st["builder"].write_index_rel_wtml()
    else:
        raise ValueError(op)


def read_wtml(base):
    import xml.etree.ElementTree as ET
    path = os.path.join(base, "index_rel.wtml")
    if not os.path.exists(path):
        return None
    sets = list(ET.parse(path).getroot().iter("ImageSet"))
    if len(sets) != 1:
        return {"n": len(sets)}
    e = sets[0]
    return {"n": 1, "levels": e.get("TileLevels"), "ftype": e.get("FileType"), "url": e.get("Url")}


def compare_state(base, st, rec, meta):
    """-> list of (kind, message); kind in tile-set-data / pixels-data / tile-set-out / pixels-out / wtml / builder / other."""
    import numpy as np
    from PIL import Image as PILImage
    T, dtag = meta["T"], meta["dtag"]
    out = []
    tiles, other = scan(base)
    other = [o for o in other if o != "index_rel.wtml"]
    if other:
        out.append(("other", "files that are neither tiles nor the WTML: %s" % other[:4]))
    ntiles = 0
    for ext, key, kind in (("npy", "data", "data"), ("png", "out", "out")):
        want = dict((tuple(t["pos"]), t["px"]) for t in rec[key])
        got = set(p for (e, p) in tiles if e == ext)
        if got != set(want):
            out.append(("tile-set-" + kind, ".%s tiles: missing %s, unexpected %s" % (ext, sorted(set(want) - got), sorted(got - set(want)))))
            continue
        for p in sorted(want):
            path = tiles[(ext, p)]
            ntiles += 1
            if ext == "npy":
                arr = np.load(path)
                want_dt = np.float16 if dtag == "f16x3" else np.float32
                want_nd = 3 if dtag == "f16x3" else 2
                if arr.dtype != want_dt or arr.ndim != want_nd:
                    out.append(("pixels-data", "tile %s has dtype %s / %d axes, the sampled data are %s" % (p, arr.dtype, arr.ndim, dtag)))
                    break
                proj, msg = project(arr.astype(np.float64), T, p[0], "npy tile %s" % (p,))
                if proj is None:
                    out.append(("pixels-data", msg))
                    break
                exp = data_array(want[p])
                tol = 4.0 * float(np.finfo(want_dt).eps)
                nan_e, nan_a = np.isnan(exp), np.isnan(proj)
                bad = (nan_e != nan_a) | (~nan_e & ~nan_a & (np.abs(np.where(nan_a, 0, proj) - np.where(nan_e, 0, exp)) > tol))
                if bad.any():
                    r, c = [int(v) for v in np.argwhere(bad)[0]]
                    out.append(("pixels-data", "npy tile %s: %d of %d abstract pixels differ; first [%d][%d] holds %r, expected %r"
                                % (p, int(bad.sum()), bad.size, r, c, float(proj[r, c]), float(exp[r, c]))))
                    break
            else:
                with PILImage.open(path) as im:
                    mode = im.mode
                    arr = np.array(im)
                if mode != "RGB":
                    out.append(("pixels-out", "png tile %s has mode %s, the transform writes RGB" % (p, mode)))
                    break
                proj, msg = project(arr.astype(np.float64), T, p[0], "png tile %s" % (p,))
                if proj is None:
                    out.append(("pixels-out", msg))
                    break
                exp = np.array(want[p], dtype=np.float64)
                bad = np.abs(proj - exp) > 1
                if bad.any():
                    r, c = [int(v) for v in np.argwhere(bad)[0]]
                    out.append(("pixels-out", "png tile %s: %d of %d abstract pixels differ by more than one count; first [%d][%d] holds %d, expected %d"
                                % (p, int(bad.sum()), bad.size, r, c, int(proj[r, c]), int(exp[r, c]))))
                    break
    w = read_wtml(base)
    ew = rec["wtml"]
    if not ew["ex"]:
        if w is not None:
            out.append(("wtml-unexpected", "index_rel.wtml exists although no command wrote it"))
    elif w is None:
        out.append(("wtml", "index_rel.wtml was not written"))
    elif w["n"] != 1:
        out.append(("wtml-shape", "index_rel.wtml holds %d ImageSet elements" % w["n"]))
    else:
        if str(w["levels"]) != str(ew["levels"]):
            out.append(("wtml-levels", "index_rel.wtml has TileLevels = %s, expected %d" % (w["levels"], ew["levels"])))
        if w["ftype"] != "." + ew["ftype"]:
            out.append(("wtml-filetype", "index_rel.wtml has FileType = %r, expected %r" % (w["ftype"], "." + ew["ftype"])))
        if w["url"] != "".join(ew["url"]):
            out.append(("wtml-url", "index_rel.wtml has Url = %r, expected %r" % (w["url"], "".join(ew["url"]))))
    b = st["builder"]
    if b.imgset.tile_levels != rec["bld"]["levels"] or b.imgset.file_type != "." + rec["bld"]["fmt"]:
        out.append(("builder", "the Builder records tile_levels = %r, file_type = %r; the model's Builder has %d, %r"
                    % (b.imgset.tile_levels, b.imgset.file_type, rec["bld"]["levels"], "." + rec["bld"]["fmt"])))
    return out, ntiles


# which mismatch kinds are the command's documented effect (violation) and which are internals (drift)
DOCUMENTED = {"tile-set-data", "pixels-data", "tile-set-out", "pixels-out", "wtml", "wtml-levels", "wtml-filetype", "wtml-url"}


def replay_behaviour(job):
    """-> (findings, stats).  finding = (severity V / D / M, key, message)."""
    meta, states = job
    repo.setup()
    import warnings
    warnings.simplefilter("ignore")
    from toasty.pyramid import PyramidIO
    from toasty.builder import Builder
    _memoise_tile_coords()
    findings = []
    stats = {"steps": 0, "tiles": 0, "acts": {}, "removed_by_cascade": 0, "orphans_removed": 0, "refusals": 0}
    base = tempfile.mkdtemp(prefix="g02-", dir=meta["scratch"])
    old = signal.signal(signal.SIGALRM, _alarm)
    signal.alarm(300)
    hist_txt = []
    builder_drift = False
    try:
        st = {"base": base}
        st["pio"] = PyramidIO(base, default_format="npy")
        st["builder"] = Builder(st["pio"])
        prev = states[0]
        for rec in states[1:]:
            before, prev = prev, rec
            cmd = rec["hist"][-1]
            op = cmd["op"].lower()
            hist_txt.append(cmd_text(cmd))
            where = "[behaviour %s (%s, %s): %s]" % (meta["id"], meta["name"], meta["dtag"], "; ".join(hist_txt))
            refused = rec["act"] == "CascadeRefused"
            raised = None
            try:
                apply_command(st, cmd, rec, meta)
            except _Timeout:
                raise
            except BaseException as e:  # noqa
                raised = e
            if refused:
                # the start level holds no tile: the call must raise ValueError (and, compared below, leave the directory as it was)
                if raised is None:
                    tiles_now, _o = scan(base)
                    lost_now = sorted(set(tuple(t["pos"]) for t in before["data"]) - set(q for (e, q) in tiles_now if e == "npy"))
                    findings.append(("V", "G02:cascade:not-refused",
                                     "%s returned normally although level %d holds no tile (a ValueError is expected before anything is touched); "
                                     "data tiles deleted by the call: %s %s" % (cmd_text(cmd), cmd["d"], lost_now, where)))
                    break
                if not isinstance(raised, ValueError) or ("level %d" % cmd["d"]) not in str(raised):
                    findings.append(("V", "G02:cascade:refusal-kind", "%s on an empty start level raised %r, expected ValueError naming level %d %s"
                                     % (cmd_text(cmd), raised, cmd["d"], where)))
                    break
                stats["refusals"] += 1
            elif raised is not None:
                findings.append(("V", "G02:%s:raised" % op, "%s raised %r %s" % (cmd_text(cmd), raised, where)))
                break
            stats["steps"] += 1
            stats["acts"][rec["act"]] = stats["acts"].get(rec["act"], 0) + 1
            if cmd["op"] == "Sample":
                want = sorted(tuple(f["pos"]) for f in rec["feed"])
                if sorted(st["calls"]) != want:
                    findings.append(("V", "G02:sample:leaves-visited", "the sampler was called for %d tiles %s..., the layer has %d leaves %s"
                                     % (len(st["calls"]), sorted(st["calls"])[:4], len(want), where)))
                    break
            if rec["act"] == "CascadeRemovesOrphans":
                # the tiles TLC removes on this step (children first: orphans, then the parents they leave childless)
                # must be gone from the real directory
                gone = sorted(set(tuple(t["pos"]) for t in before["data"]) - set(tuple(t["pos"]) for t in rec["data"]))
                orph = set(tuple(q) for q in before["orphans"])
                if not gone:
                    findings.append(("M", "model", "TLC names the step %s CascadeRemovesOrphans but removes no tile %s" % (cmd_text(cmd), where)))
                    break
                tiles_now, _o = scan(base)
                kept = [q for q in gone if ("npy", q) in tiles_now]
                stats["removed_by_cascade"] += len(gone) - len(kept)
                stats["orphans_removed"] += len([q for q in gone if q in orph and q not in kept])
                if kept:
                    findings.append(("V", "G02:cascade:orphan-kept",
                                     "after %s: %d of the %d tiles whose leaves no longer exist are still in the directory: %s (childless before the "
                                     "cascade: %s); a parent none of whose children exists must be removed %s"
                                     % (cmd_text(cmd), len(kept), len(gone), kept, sorted(q for q in kept if q in orph), where)))
                    break
            diffs, nt = compare_state(base, st, rec, meta)
            stats["tiles"] += nt
            if diffs:
                deviation = rec["act"] in DEVIATION_ACTIONS
                for kind, msg in diffs:
                    if kind == "builder":
                        if builder_drift:
                            continue
                        builder_drift = True
                    if kind in DOCUMENTED and not deviation:
                        findings.append(("V", "G02:%s:%s" % (op, kind), "after %s: %s %s" % (cmd_text(cmd), msg, where)))
                    elif deviation and kind in DOCUMENTED:
                        findings.append(("D", "deviation-step", "after %s (a step on which the model keeps a stale tile as the code was seen to do): %s %s"
                                         % (cmd_text(cmd), msg, where)))
                    else:
                        findings.append(("D", kind, "after %s: %s %s" % (cmd_text(cmd), msg, where)))
                if any(kind in DOCUMENTED for kind, _m in diffs):
                    break   # the directory has left the model's behaviour: later states cannot be compared
        return findings, stats
    except _Timeout:
        findings.append(("M", "timeout", "behaviour %s did not finish within 300 s" % meta["id"]))
        return findings, stats
    finally:
        signal.alarm(0)
        signal.signal(signal.SIGALRM, old)
        shutil.rmtree(base, ignore_errors=True)


def _quiet_worker():
    devnull = os.open(os.devnull, os.O_WRONLY)
    os.dup2(devnull, 1)
    os.dup2(devnull, 2)


def _warm():
    import time
    time.sleep(0.2)
    return os.getpid()


# ------------------------------------------------------------------------------------------------
# behaviours from emitted records
# ------------------------------------------------------------------------------------------------
def hist_key(hist):
    return tuple(cmd_key(c) for c in hist)


def index_records(ctx, recs):
    by = {}
    for r in recs:
        for c in r["hist"]:
            c["reg"] = tuple(c["reg"])
        k = hist_key(r["hist"])
        if k in by and by[k]["data"] != r["data"]:
            ctx.machinery("TLC emitted two different states for one command history %s" % (k,))
        by[k] = r
    return by


def behaviour_states(by, hist):
    """States after every prefix of `hist` (as far as the model enables the commands)."""
    out = []
    for i in range(len(hist) + 1):
        r = by.get(hist_key(hist[:i]))
        if r is None:
            break
        out.append(r)
    return out


# ------------------------------------------------------------------------------------------------
def run(ctx):
    repo.setup(ctx)
    import concurrent.futures as cf
    import multiprocessing as mp
    import time
    quick = ctx.quick
    ctx.rule = ("TLC: every command sequence over {NewBuilder(npy|png), Sample(depth 0-2, 3 column bands, clobber|update), Cascade(0-2), "
                "Transform(0-2), WriteWtml} up to the stated bound at T = 2, all theorems as invariants (the cascade is the ideal rule: a parent "
                "none of whose children exists is removed; a start level without tiles is refused); each 'ideal' statement the code does not keep refuted. "
                "Replay: command scripts (crafted standard / adversarial orders + seeded random; inputs only) and TLC's own random walks, "
                "evaluated by TLC at T = 4 with 4 bands and 2 sources; the real directory is compared after EVERY command. "
                "distinct = distinct command history whose expected directory holds at least one tile")
    bound = 4 if quick else 6
    op_bound = 3 if quick else 4
    script_len = 6 if quick else 8
    n_random = 40 if quick else 400
    n_walks = 24 if quick else 200

    scripts = [(name, s) for name, s in CRAFTED]
    for i in range(n_random):
        scripts.append(("random-%d" % i, random_script(ctx.rng, script_len)))

    # real worker processes first (forked before any thread exists)
    pool = cf.ProcessPoolExecutor(max_workers=8, mp_context=mp.get_context("fork"), initializer=_quiet_worker)
    t0 = time.time()
    try:
        set(f.result() for f in [pool.submit(_warm) for _ in range(8)])

        def tlc_scripts():
            name = "MCG02Scripts"
            r = ctx.tlc(name, extra={name + ".tla": mc_module(name, REGIONS4, [s for _n, s in scripts])},
                        cfg_text=cfg("ScriptSpec", T_BIND, "MCRegions", [0, 1], script_len, BASE_INVARIANTS + (OPERATOR_INVARIANTS if not quick else []) + ["Emit"], scripts=True),
                        workers=4, timeout=1800)
            return r, r.json_lines("S")

        def tlc_walks():
            name = "MCG02Walks"
            r = ctx.tlc(name, extra={name + ".tla": mc_module(name, REGIONS4)},
                        cfg_text=cfg("FreeSpec", T_BIND, "MCRegions", [0, 1], script_len, BASE_INVARIANTS + ["Emit"]),
                        simulate=n_walks, depth=script_len + 1, workers=1, timeout=1800)
            return r, r.json_lines("S")

        def tlc_bfs():
            name = "MCG02All"
            return ctx.tlc(name, extra={name + ".tla": mc_module(name, REGIONS3, op_bound=op_bound)},
                           cfg_text=cfg("AllSpec", 2, "MCRegions", [0], bound, BASE_INVARIANTS + ["OperatorsBounded"]), workers=8 if quick else 12, timeout=14400)

        def tlc_refute(inv):
            # breadth first, one worker: the counterexample is a shortest command sequence
            name = "MCG02Not" + inv
            return ctx.tlc(name, extra={name + ".tla": mc_module(name, REGIONS3)},
                           cfg_text=cfg("LastSpec", 2, "MCRegions", [0], 5, [inv], view=True), workers=1, timeout=3600, expect_violation=True, count=False)

        with cf.ThreadPoolExecutor(max_workers=6) as tex:
            f_scripts = tex.submit(tlc_scripts)
            f_walks = tex.submit(tlc_walks)
            f_bfs = tex.submit(tlc_bfs)
            f_ref = dict((inv, tex.submit(tlc_refute, inv)) for inv in REFUTED) if not quick else {}

            # ---- replay as soon as the expected states are there
            jobs, futs = [], []
            seen_hist = set()

            def submit(name, states, bid):
                meta = {"id": bid, "name": name, "T": T_BIND, "dtag": "f16x3" if bid % 3 else "f32", "scratch": ctx.scratch}
                jobs.append((meta, states))
                futs.append(pool.submit(replay_behaviour, (meta, states)))

            r_s, recs_s = f_scripts.result()
            by_s = index_records(ctx, recs_s)
            bid = 0
            for name, s in scripts:
                states = behaviour_states(by_s, s)
                if len(states) != len(s) + 1:
                    ctx.machinery("script %s: the model does not enable command %d (%s); the script generator and the spec disagree about enabling"
                                  % (name, len(states), cmd_text(s[len(states) - 1])))
                k = hist_key(s)
                if k in seen_hist:
                    continue
                seen_hist.add(k)
                submit(name, states, bid)
                bid += 1
            r_w, recs_w = f_walks.result()
            by_w = index_records(ctx, recs_w)
            maximal = [k for k in by_w if len(k) > 0 and not any(len(o) == len(k) + 1 and o[:len(k)] == k for o in by_w)]
            for k in sorted(maximal):
                if k in seen_hist:
                    continue
                seen_hist.add(k)
                hist = by_w[k]["hist"]
                submit("tlc-walk", behaviour_states(by_w, hist), bid)
                bid += 1
            t_emit = time.time() - t0

            results = [f.result() for f in futs]
            t_replay = time.time() - t0
            r_bfs = f_bfs.result()
            # ---- the statements the code does not keep must be refuted: by a state TLC reached on some script / walk ...
            refuted = {}
            for inv in REFUTED:
                wit = [r for r in list(by_s.values()) + list(by_w.values()) if r["ideal"][inv] is False]
                if not wit:
                    ctx.machinery("no emitted state refutes %s: the model (or the scripts) have lost the stale-data behaviour they are meant to expose" % inv)
                w = min(wit, key=lambda r: len(r["hist"]))
                refuted[inv] = {"refuting_states": len(wit), "a_shortest_emitted_witness": [cmd_text(c) for c in w["hist"]]}
            # ... and (thorough tier) by breadth-first search, which yields a shortest counterexample
            for inv, f in f_ref.items():
                r = f.result()
                if r.violated != inv:
                    ctx.machinery("TLC no longer refutes %s (it reports %r): the model has lost the stale-data behaviour it is meant to expose"
                                  % (inv, r.violated))
                refuted[inv]["shortest_counterexample"] = trace_commands(r.output)
                if not refuted[inv]["shortest_counterexample"]:
                    ctx.machinery("could not read the counterexample of %s from TLC's output" % inv)
    finally:
        pool.shutdown(wait=True, cancel_futures=True)

    # ---- verdicts
    acts, steps, ntiles, n_gone, n_orph, n_ref = {}, 0, 0, 0, 0, 0
    for (meta, states), (findings, stats) in zip(jobs, results):
        ctx.count(stats["steps"])
        ctx.trace_ok()
        steps += stats["steps"]
        ntiles += stats["tiles"]
        n_gone += stats["removed_by_cascade"]
        n_orph += stats["orphans_removed"]
        n_ref += stats["refusals"]
        for a, v in stats["acts"].items():
            acts[a] = acts.get(a, 0) + v
        for i, rec in enumerate(states[1:]):
            if rec["data"] or rec["out"]:
                ctx.distinct(repr(hist_key(rec["hist"])))
        for sev, key, msg in findings:
            if sev == "M":
                ctx.machinery(msg)
            elif sev == "V":
                ctx.violation(key, msg, {"meta": dict((k, v) for k, v in meta.items() if k != "scratch"),
                                         "commands": [cmd_text(c) for c in states[-1]["hist"]]})
            else:
                ctx.drift("%s %s" % (key, msg))
    if not jobs:
        ctx.machinery("no behaviours")
    planned = {}
    for _meta, states in jobs:
        for rec in states[1:]:
            planned[rec["act"]] = planned.get(rec["act"], 0) + 1
    for need in REQUIRED_ACTIONS:
        if planned.get(need, 0) < 2:
            ctx.machinery("the behaviours to replay take action %s %d times: the scripts no longer reach it" % (need, planned.get(need, 0)))
    ctx.exhaustive = True
    ctx.note("tlc_all_sequences", {"T": 2, "max_depth": MAXD, "commands_bound": bound, "distinct_states": r_bfs.distinct,
                                   "transitions": r_bfs.generated, "invariants": BASE_INVARIANTS})
    ctx.note("tlc_operator_theorems", {"commands_bound": op_bound, "invariants": OPERATOR_INVARIANTS, "checked_in": "the same run, on the states within the bound"})
    ctx.note("tlc_refuted_ideals", refuted)
    ctx.note("replayed", {"behaviours": len(jobs), "scripts": len(scripts), "tlc_walks": len(jobs) - len([1 for m, _s in jobs if m["name"] != "tlc-walk"]),
                          "commands_executed": steps, "tile_files_compared": ntiles, "steps_by_action": acts,
                          "tiles_removed_by_cascade_verified_gone": n_gone, "of_which_childless_before_the_cascade": n_orph,
                          "refused_cascades_raised_ValueError_directory_unchanged": n_ref,
                          "script_states": r_s.distinct, "walk_states": r_w.generated})
    ctx.note("phase_wall_s", {"expected_states_emitted": round(t_emit, 1), "replay_done": round(t_replay, 1), "tlc_done": round(time.time() - t0, 1)})
    for meta, states in jobs[:2] + jobs[len(CRAFTED): len(CRAFTED) + 1]:
        last = states[-1]
        ctx.sample({"behaviour": meta["name"], "dtype": meta["dtag"], "commands": [cmd_text(c) for c in last["hist"]],
                    "actions": [s["act"] for s in states[1:]],
                    "final_data_tiles": [t["pos"] for t in last["data"]], "final_out_tiles": [t["pos"] for t in last["out"]],
                    "final_wtml": last["wtml"], "ghost": last["ghost"]})
    ctx.assume("sampling / cascading act on the .npy data tiles of a PyramidIO opened with default_format='npy'; cascading the .png output "
               "tiles and letting PyramidIO guess the format of a mixed directory are outside the model")
    ctx.assume("the sampler identifies the leaf it is asked for from the pixel coordinates toasty hands it (tile geometry: C04-C06); "
               "real tiles are the lifted family (T = 4), data float16 x 3 equal channels or float32; serial execution (parallel=1)")
    ctx.assume("bytes of the output tiles are compared within +-1 count of floor(255*sqrt(v)) (float16 / float32 rounding of the data)")
