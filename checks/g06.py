"""G06 (growth specification, DESIGN.md section 7) - the reprojection route of multi-image tiling, MultiWcsProcessor.

Spec: spec/MultiWcs.tla (+ spec/MCMultiWcs.tla), on top of spec/StudyTiling.tla (ST) and spec/Mosaic.tla (M, the aligned
multi-TAN route of C09, reused for the display-level ground truth, the cell table and the ImageSet fields).  Inputs are
rectangles of cells of ONE sky lattice (the modelling assumption: the target found by find_optimal_celestial_wcs is that
lattice again, every input differs from it by an integer pixel shift, reprojection returns the input's own pixels).
  compute_global_pixelization   target = bounding box, bottom-up optimal WCS flipped to top-down, CRPIX arithmetic,
                                StudyTiling(W, H), per-input box desc.imin..jmax with the as-built RoundoffSlack
                                (floor / ceil taken exactly at a discontinuity), reprojection bands, sub-tilings, n_todo
  SpecSerial                    inputs pasted in EVERY collection order: TargetCovers, BoxesOK, ChunksOK, VisitsOK,
                                SlackContributesNothing, DeviationsAreTheOnlyCauses, FieldsOK, TilesAreTilingOfMosaic,
                                LastWins, PopulatedExact, CellValues, OrderIndependent, NTodoIsVisits, SerialNoLocks,
                                NeverOverwritten (action property)
  SpecPar                       workers take inputs from the queue; every tile update is Lock / Read / Write / Unlock;
                                then clean_lockfiles: Mutex, NoContributionLost, ParallelEqualsSerial, ParPopulatedExact,
                                NoLocksRemain, LocksOnlyWhileRunning, ParVisits, AtMostOnce, ReturnedImpliesAll, Returns
  negative controls             VisitsOnlyFootprintTiles (refuted by RoundoffSlack), OneVisitPerInputAndTile (refuted by
                                SplitIntoBands), OrderNeverMatters (refuted by InputsDisagree): witnessed by final states
                                of the serial runs (EmitIdeal) and, thorough tier, by breadth-first counterexamples;
                                NoContributionLost without the lock.
Binding (spec -> code, with one code -> spec step): the abstract cases TLC explores are LIFTED to real FITS inputs (every
lattice edge mapped by a strictly increasing map to real pixels, so the overlap structure is TLC's; sizes land around
255 / 256 / 257 / 511 ...), written in any of the eight lattice orientations, float32 / float64, on a rotated or
unrotated lattice at several sky positions.  The real compute_global_pixelization runs first; the boxes it produced go
to TLC, which (a) says whether each is a box the model allows, (b) evaluates the TS = 256 operators and theorems for
exactly that case (RealCaseOK) and (c) emits the expectation: target size, levels, centring, CRPIX, ImageSet fields in
integers, per-band segment / file-row / visit tables, n_todo, the cell table of the paste, the stored tile set.  Then the
real tile() runs serially (fits and npy tiles), under the deterministic scheduler of lib/simmp with lock / read / write
as scheduling points, and with real worker processes (<= 3); every deepest-level tile is compared cell by cell, the
ImageSet fields with TLC's integers, and *.lock files are listed.  For cases that lift block-exactly the final state of
TLC's own state machine (EmitFinal) is compared block by block with the real tiles as well.
"""
import concurrent.futures as cf
import contextlib
import itertools
import json
import os
import random
import threading

from lib import repo, simmp, simrun, tla

T = 256
FIELDS = ["center_x", "center_y", "base_degrees_per_tile", "offset_x", "offset_y", "tile_levels"]
DEFAULT_CAP = 128 * 1024 * 1024
# the eight lattice orientations of a stored array: (X, Y) = P0 + A (column, row)
ORIENT = {"bu": ((1, 0), (0, 1)), "td": ((1, 0), (0, -1)), "r180": ((-1, 0), (0, -1)), "fx": ((-1, 0), (0, 1)),
          "r90": ((0, 1), (-1, 0)), "r270": ((0, -1), (1, 0)), "tr": ((0, 1), (1, 0)), "atr": ((0, -1), (-1, 0))}
ONAMES = sorted(ORIENT)
INFIELDS = ("x0", "y0", "w", "h", "bl", "br", "bt", "bb", "hx0", "hx1", "hy0", "hy1")


# ------------------------------------------------------------------------------------------------
# abstract cases (inputs only: what they lead to comes from TLC)
# ------------------------------------------------------------------------------------------------

def mkin(x0, y0, w, h, bl=0, br=0, bt=0, bb=0, hole=(0, 0, 0, 0)):
    return dict(x0=x0, y0=y0, w=w, h=h, bl=bl, br=br, bt=bt, bb=bb, hx0=hole[0], hx1=hole[1], hy0=hole[2], hy1=hole[3])


def _span(rng, L, lo, hi):
    if lo and hi:
        return 0, L
    if lo:
        return 0, rng.randint(1, L)
    if hi:
        a = rng.randint(0, L - 1)
        return a, L - a
    a = rng.randint(0, L - 1)
    return a, rng.randint(1, L - a)


def gen_case(rng, cid, W, H, n, border=1, hole_p=0.3, agree=None):
    """n rectangles whose bounding box is W x H and whose corner set contains the four corners of the box (the aligned
    family: MultiWcs!HullIsBox), shifted to an arbitrary place of the lattice."""
    for _attempt in range(40):
        own = [rng.randrange(n) for _ in range(4)]                 # LL, LR, UL, UR
        dx, dy = rng.randint(-6, 6), rng.randint(-6, 6)
        ins = []
        for k in range(n):
            left, right = own[0] == k or own[2] == k, own[1] == k or own[3] == k
            bottom, top = own[0] == k or own[1] == k, own[2] == k or own[3] == k
            x, w = _span(rng, W, left, right)
            y, h = _span(rng, H, bottom, top)
            b = [rng.randint(0, border) if rng.random() < 0.5 else 0 for _ in range(4)]
            if rng.random() < 0.06:
                b[0] = w                                            # a wholly undefined input
            hole = (0, 0, 0, 0)
            if rng.random() < hole_p and w >= 2 and h >= 2:
                hx0, hy0 = rng.randint(0, w - 1), rng.randint(0, h - 1)
                hole = (hx0, rng.randint(hx0 + 1, w), hy0, rng.randint(hy0 + 1, h))
            ins.append(mkin(x + dx, y + dy, w, h, b[0], b[1], b[2], b[3], hole))
        if len({(i["x0"], i["y0"], i["w"], i["h"]) for i in ins}) > 1 or W * H == 1:
            break                                                   # (the same footprint twice is a crafted case)
    return dict(id=cid, ins=ins, agree=(rng.random() < 0.5) if agree is None else agree, rx=rng.randint(-9, 15), ry=rng.randint(-9, 15))


CRAFTED = [
    # two overlapping inputs on three tiles, disagreeing
    dict(ins=[mkin(-1, 2, 3, 2), mkin(1, 2, 3, 2)], agree=False, rx=3, ry=5),
    # an L of three with an undefined border
    dict(ins=[mkin(0, 0, 2, 3), mkin(1, 1, 3, 2, bl=1), mkin(0, 0, 4, 1)], agree=True, rx=-2, ry=9),
    # one inside the other, with a hole: the inner one's undefined cells must not erase the outer one's
    dict(ins=[mkin(0, 0, 4, 4), mkin(1, 1, 2, 2, hole=(0, 1, 0, 1))], agree=False, rx=0, ry=0),
    # the same footprint twice, complementary halves defined: one tile, two writers
    dict(ins=[mkin(0, 0, 2, 2, br=1), mkin(0, 0, 2, 2, bt=1)], agree=False, rx=1, ry=1),
    # a tall input next to a wide one: bands cut tiles
    dict(ins=[mkin(-3, -3, 2, 5), mkin(-2, -3, 4, 2), mkin(-3, 1, 5, 1)], agree=True, rx=7, ry=-4),
]


def abstract_sets(rng, quick):
    """-> families for SpecSerial {name: (TS, cases)}, the SpecPar cases, the cases whose final states are lifted."""
    cid = [0]

    def nxt():
        cid[0] += 1
        return cid[0]
    crafted = [dict(c, id=nxt()) for c in CRAFTED]
    fam = {}
    lst = list(crafted[:3 if quick else 5])
    for j in range(4 if quick else 60):
        lst.append(gen_case(rng, nxt(), rng.randint(2, 5), rng.randint(1, 5), (2 if j else 3) if quick else rng.choice([2, 2, 3])))
    fam["ts2"] = (2, lst, "MCSlackTwo" if quick else "MCSlackSome", [2, 1000] if quick else [2, 5, 1000])
    lst = []
    for _ in range(1 if quick else 20):
        lst.append(gen_case(rng, nxt(), rng.randint(3, 9), rng.randint(2, 9), 2 if quick else rng.choice([2, 2, 3]), border=2))
    fam["ts4"] = (4, lst, "MCSlackTwo" if quick else "MCSlackSome", [12, 1000])
    if not quick:
        fam["ts3"] = (3, [gen_case(rng, nxt(), rng.randint(2, 7), rng.randint(1, 7), rng.choice([2, 3, 3]), border=1) for _ in range(16)]
                      + [gen_case(rng, nxt(), 6, 5, 4, border=1)], "MCSlackTwo", [7, 1000])
        # every slack pattern of both inputs
        fam["ts2slack"] = (2, [gen_case(rng, nxt(), rng.randint(2, 5), rng.randint(2, 5), 2) for _ in range(8)], "MCSlackAll", [3, 1000])
    for v in fam.values():
        for c in v[1]:
            c["ts"] = v[0]
    par = [crafted[3], crafted[0]]
    for _ in range(0 if quick else 24):
        par.append(gen_case(rng, nxt(), rng.randint(2, 4), rng.randint(1, 3), 2, hole_p=0.2))
    if not quick:
        par.append(crafted[1])
    return fam, par


def case_lit(c):
    return tla.lit(dict(id=c["id"], ins=[{f: i[f] for f in INFIELDS} for i in c["ins"]], agree=c["agree"], rx=c["rx"], ry=c["ry"]))


def mc_module(name, cases, extra_defs=()):
    defs = [("GCases", "{" + ",\n ".join(case_lit(c) for c in cases) + "}")]
    defs += list(extra_defs)
    return tla.module(name, ["MCMultiWcs"], defs)


SERIAL_INVS = ["TargetCovers", "BoxesOK", "ChunksOK", "VisitsOK", "SlackContributesNothing", "DeviationsAreTheOnlyCauses", "FieldsOK", "TilesAreTilingOfMosaic", "LastWins", "PopulatedExact",
               "CellValues", "OrderIndependent", "NTodoIsVisits", "SerialNoLocks"]
PAR_INVS = ["Mutex", "NoContributionLost", "ParallelEqualsSerial", "ParPopulatedExact", "NoLocksRemain", "LocksOnlyWhileRunning",
            "ParVisits", "AtMostOnce", "ReturnedImpliesAll"]
REFUTED = ["VisitsOnlyFootprintTiles", "OneVisitPerInputAndTile", "OrderNeverMatters"]


def cfg(spec, ts, caps, slack, invs, props=(), nworkers=1, uselock=True, unlinks=True):
    lines = ["SPECIFICATION %s" % spec, "CONSTANTS", " TS = %d" % ts, " Cases <- GCases", " Caps = {%s}" % ", ".join(str(c) for c in caps),
             " SlackSet <- %s" % slack, " NWorkers = %d" % nworkers, " UseLock = %s" % ("TRUE" if uselock else "FALSE"),
             " ReleaseUnlinks = %s" % ("TRUE" if unlinks else "FALSE")]
    lines += ["INVARIANT %s" % i for i in invs]
    lines += ["PROPERTY %s" % p for p in props]
    lines.append("CHECK_DEADLOCK FALSE")
    return "\n".join(lines) + "\n"


REAL_CFG = """INIT IdleInit
NEXT IdleNext
CONSTANTS
 TS = 256
 Cases <- GCases
 Caps = {1}
 SlackSet <- MCSlackNone
 NWorkers = 1
 UseLock = TRUE
 ReleaseUnlinks = TRUE
CHECK_DEADLOCK FALSE
"""


def real_module(recs):
    defs = [("GCases", "{}"),
            ("RCases", tla.lit(recs)),
            "ASSUME \\A i \\in DOMAIN RCases : RealCaseOK(RCases[i]) \\/ (PrintT(<<\"RealCaseOK fails\", i>>) /\\ FALSE)",
            "ASSUME JsonSerialize(IOEnv.OUT, [i \\in DOMAIN RCases |-> RealCase(RCases[i])])"]
    return tla.module("MCG06Real", ["MCMultiWcs", "IOUtils"], defs)


# ------------------------------------------------------------------------------------------------
# lifting an abstract case to real pixel sizes
# ------------------------------------------------------------------------------------------------

def lift_case(case, rng, B, jitter, border_px=18):
    """Every lattice edge e is mapped to f(e) = B * e + j(e), |j| <= jitter < B / 2: strictly increasing, so inclusion,
    overlap and the corner structure of the abstract case are kept; undefined borders and holes are re-drawn in
    proportion.  jitter = 0 gives the block-exact lift."""
    fx, fy = {}, {}

    def f(tab, e):
        if e not in tab:
            tab[e] = B * e + (rng.randint(-jitter, jitter) if jitter else 0)
        return tab[e]
    ins = []
    for i in case["ins"]:
        x0, x1 = f(fx, i["x0"]), f(fx, i["x0"] + i["w"])
        y0, y1 = f(fy, i["y0"]), f(fy, i["y0"] + i["h"])
        w, h = x1 - x0, y1 - y0
        if jitter == 0:
            sc = lambda v, n: v * B                                         # noqa: E731
        else:
            sc = lambda v, n: min(n, v * rng.randint(1, border_px))        # noqa: E731
        bl = w if i["bl"] >= i["w"] else sc(i["bl"], w)
        hole = (0, 0, 0, 0)
        if i["hx0"] < i["hx1"] and i["hy0"] < i["hy1"]:
            hole = (i["hx0"] * w // i["w"], max(i["hx0"] * w // i["w"] + 1, i["hx1"] * w // i["w"]),
                    i["hy0"] * h // i["h"], max(i["hy0"] * h // i["h"] + 1, i["hy1"] * h // i["h"]))
        ins.append(mkin(x0, y0, w, h, bl, sc(i["br"], w), sc(i["bt"], h), sc(i["bb"], h), hole))
    return ins


def real_groups(rng, quick, abstract_cases):
    """(case, variant) groups to run through the real code."""
    groups = []
    picks = list(abstract_cases)
    rng.shuffle(picks)
    picks = picks[:(7 if quick else 70)]
    for ci, ac in enumerate(picks):
        span = max(max(i["x0"] + i["w"] for i in ac["ins"]) - min(i["x0"] for i in ac["ins"]),
                   max(i["y0"] + i["h"] for i in ac["ins"]) - min(i["y0"] for i in ac["ins"]))
        exact = (ci % 3 == 0)
        if exact:
            B, jit = T // ac["ts"], 0
        else:
            B = rng.choice([b for b in (256, 128, 100, 64, 37) if b * span <= (700 if quick else 1300)] or [37])
            jit = rng.choice([1, 2, 3, 12])
        ins = lift_case(ac, rng, B, jit)
        nan = any(i["bl"] or i["br"] or i["bt"] or i["bb"] or i["hx0"] < i["hx1"] for i in ins)
        n = len(ins)
        perms = list(itertools.permutations(range(n)))
        rng.shuffle(perms)
        perms = [tuple(range(n))] + [p for p in perms if p != tuple(range(n))][:(1 if quick else 3)]
        base = dict(abstract=ac["id"], block=(B if exact else None), agree=ac["agree"], nan=nan,
                    rx=2 * rng.randint(-900, 900) + rng.choice([0, 1]), ry=2 * rng.randint(-900, 900) + rng.choice([0, 1]),
                    crval=rng.choice([(10.0, 20.0), (283.25, -45.5), (0.5, 88.0), (180.0, 0.0)]), scale=rng.choice([1e-3, 2.5e-4, 7e-3]),
                    rot=rng.choice([0.0, 0.0, 0.0, 0.3, -0.6]), seed=rng.randrange(1 << 30))
        off = (rng.randint(-3000, 3000), rng.randint(-3000, 3000))
        ins = [dict(i, x0=i["x0"] + off[0], y0=i["y0"] + off[1]) for i in ins]
        for vi, perm in enumerate(perms):
            width, hmax = max(i["w"] for i in ins), max(i["h"] for i in ins)
            # rows per reprojection band of the widest input: at most about eight bands (narrower inputs get more rows)
            rows = max(rng.choice([hmax // 2 + 1, hmax // 3 + 1, hmax // 7 + 1, 100, 255, 256]), hmax // 8 + 1)
            var = dict(perm=list(perm), orient=[rng.choice(ONAMES) if vi or ci % 2 else "bu" for _ in range(n)],
                       dtype=rng.choice(["f4", "f8"]),
                       cap=DEFAULT_CAP if (vi + ci) % 3 == 0 else width * rows + rng.choice([0, 0, 5]),
                       order="nearest-neighbor" if (nan or (vi + ci) % 2) else "bilinear")
            groups.append(dict(base, ins=[ins[k] for k in perm], var=var, gid=len(groups), first=(vi == 0), ci=ci))
    return groups


def tlc_record(g, boxes):
    return dict(ins=[{f: i[f] for f in INFIELDS} for i in g["ins"]], agree=g["agree"], rx=g["rx"], ry=g["ry"], cap=g["var"]["cap"],
                boxes=[dict(imin=b[0], imax=b[1], jmin=b[2], jmax=b[3]) for b in boxes] if boxes else [])


# ------------------------------------------------------------------------------------------------
# real inputs
# ------------------------------------------------------------------------------------------------

def sky(cx, cy):
    """The sky on the lattice: small integers (exact in float32), neighbours differ."""
    return 1.0 + ((cx * 37 + cy * 101 + (cx * cy) % 89) % 1999)


def undefined_mask(inp, lx, ly):
    return ((lx < inp["bl"]) | (lx >= inp["w"] - inp["br"]) | (ly < inp["bt"]) | (ly >= inp["h"] - inp["bb"]) |
            ((lx >= inp["hx0"]) & (lx < inp["hx1"]) & (ly >= inp["hy0"]) & (ly < inp["hy1"])))


def input_value(g, k, cx, cy):
    return sky(cx, cy) + (0.0 if g["agree"] else 2000.0 * (g["var"]["perm"][k] + 1))


def write_input(path, g, k):
    """Input k of the group as a FITS file in its storage orientation, with the WCS that puts its cells on the lattice."""
    import numpy as np
    from astropy.io import fits
    from astropy.wcs import WCS
    inp, v = g["ins"][k], g["var"]
    A = np.array(ORIENT[v["orient"][k]])
    x0, y0, w, h = inp["x0"], inp["y0"], inp["w"], inp["h"]
    swap = A[0][0] == 0
    nrow, ncol = (w, h) if swap else (h, w)
    lo, hi = (x0, y0), (x0 + w, y0 + h)
    P0 = np.zeros(2)
    for i in range(2):
        j = 1 if A[i][0] == 0 else 0
        P0[i] = lo[i] + 0.5 if A[i][j] > 0 else hi[i] - 0.5
    cols, rows = np.meshgrid(np.arange(ncol), np.arange(nrow))
    cx = np.floor(P0[0] + A[0][0] * cols + A[0][1] * rows).astype(int)
    cy = np.floor(P0[1] + A[1][0] * cols + A[1][1] * rows).astype(int)
    a = input_value(g, k, cx, cy).astype(v["dtype"])
    und = undefined_mask(inp, cx - x0, (y0 + h - 1) - cy)
    if und.any():
        a[und] = np.nan
    c, s = float(np.cos(g["rot"])), float(np.sin(g["rot"]))
    CD = g["scale"] * (np.array([[c, -s], [s, c]]) @ np.diag([-1.0, 1.0]) @ A)
    p = np.linalg.inv(A) @ (np.array([g["rx"] / 2.0, g["ry"] / 2.0]) - P0)
    wc = WCS(naxis=2)
    wc.wcs.ctype = ["RA---TAN", "DEC--TAN"]
    wc.wcs.crval = list(g["crval"])
    wc.wcs.cd = CD
    wc.wcs.crpix = [p[0] + 1, p[1] + 1]
    fits.PrimaryHDU(data=np.ascontiguousarray(a), header=wc.to_header()).writeto(path, overwrite=True)


def display_array(g, k):
    """Input k in display orientation (row 0 = the highest lattice row), NaN where undefined: float64."""
    import numpy as np
    inp = g["ins"][k]
    cx, ly = np.meshgrid(np.arange(inp["x0"], inp["x0"] + inp["w"]), np.arange(inp["h"]))
    cy = (inp["y0"] + inp["h"] - 1) - ly
    a = input_value(g, k, cx, cy).astype("f8")
    a[undefined_mask(inp, cx - inp["x0"], ly)] = np.nan
    return a


def fields_of(imgset):
    d = {f: float(getattr(imgset, f)) for f in FIELDS}
    d["rotation_deg"] = float(imgset.rotation_deg)
    d["projection"] = str(getattr(imgset.projection, "name", imgset.projection))
    return d


def observe(proc):
    """What compute_global_pixelization left behind (private attributes: their absence is drift, not a violation)."""
    try:
        return dict(shape=[int(v) for v in proc._combined_shape],
                    boxes=[[int(d.imin), int(d.imax), int(d.jmin), int(d.jmax)] for d in proc._descs],
                    chunks=[[[int(c.j0), int(c.j1)] for c in d.chunks] for d in proc._descs], ntodo=int(proc._n_todo))
    except Exception as e:  # noqa
        return dict(error=repr(e))


def group_dir(scratch, g):
    return os.path.join(scratch, "grp-%d" % g["gid"])


def phase_a(args):
    """Write the inputs, run the real compute_global_pixelization, report what it computed."""
    g, scratch = args
    repo.setup()
    import warnings
    warnings.simplefilter("ignore")
    from toasty import multi_wcs, collection, pyramid, builder
    wd = group_dir(scratch, g)
    os.makedirs(wd, exist_ok=True)
    paths = []
    for k in range(len(g["ins"])):
        p = os.path.join(wd, "in%d.fits" % k)
        write_input(p, g, k)
        paths.append(p)
    old = multi_wcs.MAXIMUM_CHUNK_SIZE
    multi_wcs.MAXIMUM_CHUNK_SIZE = g["var"]["cap"]
    try:
        pio = pyramid.PyramidIO(os.path.join(wd, "probe"), default_format="fits")
        bld = builder.Builder(pio)
        proc = multi_wcs.MultiWcsProcessor(collection.SimpleFitsCollection(paths))
        proc.compute_global_pixelization(bld)
        return dict(ok=True, obs=observe(proc), fields=fields_of(bld.imgset))
    except Exception as e:  # noqa
        import traceback
        return dict(ok=False, error="%r %s" % (e, traceback.format_exc()[-500:]))
    finally:
        multi_wcs.MAXIMUM_CHUNK_SIZE = old


# ------------------------------------------------------------------------------------------------
# expectations from TLC's tables
# ------------------------------------------------------------------------------------------------

def expected_mosaic(exp, disps):
    """The pasted W x H image from TLC's cell table (winner of every cell): no update rule applied here."""
    import numpy as np
    E = np.full((exp["h"], exp["w"]), np.nan)
    xc, yc, win = exp["cells"]["xc"], exp["cells"]["yc"], exp["cells"]["win"]
    for j in range(len(yc) - 1):
        for i in range(len(xc) - 1):
            k = win[j][i]
            if k:
                e = exp["ins"][k - 1]["exact"]
                E[yc[j]:yc[j + 1], xc[i]:xc[i + 1]] = disps[k - 1][yc[j] - e["jmin"]:yc[j + 1] - e["jmin"], xc[i] - e["imin"]:xc[i + 1] - e["imin"]]
    return E


def cut_tiles(table, img, rowkey, into=None):
    """Tiles {(tx, ty): file-orientation array} of `img` by a segment table of TLC (xs, ys: <<tile, toff, ioff, len>>;
    rowkey 'bu' / 'td': first and last file row receiving the segment's image rows, in image order).  With `into` the
    rectangles are merged into existing tiles under the update rule (used for the per-band cross-check only)."""
    import numpy as np
    out = {} if into is None else into
    for (ty, _toy, ioy, ly), (r0, r1) in zip(table["ys"], table[rowkey]):
        step = 1 if r1 >= r0 else -1
        rows = np.arange(r0, r1 + step, step)
        if len(rows) != ly:
            raise RuntimeError("file-row table inconsistent with the segment table")
        for (tx, tox, iox, lx) in table["xs"]:
            t = out.get((tx, ty))
            if t is None:
                t = out[(tx, ty)] = np.full((T, T), np.nan)
            src = img[ioy:ioy + ly, iox:iox + lx]
            dst = t[rows, tox:tox + lx]
            m = ~np.isnan(src)
            dst[m] = src[m]
            t[rows, tox:tox + lx] = dst
    return out


def paste_by_bands(exp, disps, rowkey):
    """Cross-check of TLC's two expectations: the per-band tables of every input (observed boxes, NaN outside the
    input) applied one after the other must give the tiles of the cell-table mosaic."""
    import numpy as np
    tiles = {}
    for ins, d in zip(exp["ins"], disps):
        b, e = ins["box"], ins["exact"]
        canvas = np.full((b["jmax"] - b["jmin"], b["imax"] - b["imin"]), np.nan)
        canvas[e["jmin"] - b["jmin"]:e["jmax"] - b["jmin"], e["imin"] - b["imin"]:e["imax"] - b["imin"]] = d
        for ch in ins["chunks"]:
            cut_tiles(ch, canvas[ch["j0"] - b["jmin"]:ch["j1"] - b["jmin"]], rowkey, into=tiles)
    return tiles


def read_tiles(out, fmt, lev):
    """-> ({(tx, ty): array}, [unexpected files], [lock files])"""
    import numpy as np
    from astropy.io import fits
    tiles, odd, locks = {}, [], []
    for root, _ds, fs in os.walk(out):
        for fn in fs:
            p = os.path.join(root, fn)
            rel = os.path.relpath(p, out)
            if fn.endswith(".lock"):
                locks.append(rel)
                continue
            parts = rel.split(os.sep)
            try:
                stem, ext = fn.rsplit(".", 1)
                ty, tx = [int(v) for v in stem.split("_")]
                ok = len(parts) == 3 and int(parts[0]) == lev and int(parts[1]) == ty and ext == fmt
            except ValueError:
                ok = False
            if not ok:
                odd.append(rel)
                continue
            if fmt == "fits":
                with fits.open(p) as hdul:
                    tiles[(tx, ty)] = np.array(hdul[0].data)
            else:
                tiles[(tx, ty)] = np.load(p)
    return tiles, sorted(odd), sorted(locks)


def differs(g, w, tol):
    import numpy as np
    both = np.isnan(g) & np.isnan(w)
    if tol == 0:
        return ~((g == w) | both)
    with np.errstate(invalid="ignore"):
        return ~((np.abs(g - w) <= tol) | both)


def compare_tiles(got, want, stored, tol, what, res, key, rep):
    import numpy as np
    if set(got) != stored:
        res.append(("V", key, "%s: tile files that should not exist %s, tile files missing %s (x, y)"
                    % (what, sorted(set(got) - stored)[:4], sorted(stored - set(got))[:4]), rep))
        return False
    for p in sorted(got):
        g, w = got[p], want.get(p)
        if w is None:
            w = np.full((T, T), np.nan)
        if g.shape != w.shape:
            res.append(("V", key, "%s: tile (x %d, y %d) has shape %s" % (what, p[0], p[1], g.shape), rep))
            return False
        bad = differs(g.astype("f8"), w, tol)
        if bad.any():
            ys, xs = np.nonzero(bad)
            res.append(("V", key, "%s: tile (x %d, y %d): %d cells differ (first at file row %d, column %d: %r, expected %r; %d undefined where data "
                        "are expected, %d defined where nothing is expected)"
                        % (what, p[0], p[1], int(bad.sum()), ys[0], xs[0], float(g[ys[0], xs[0]]), float(w[ys[0], xs[0]]),
                           int(np.sum(bad & np.isnan(g))), int(np.sum(bad & np.isnan(w)))), rep))
            return False
        if g.dtype.kind != "f" or g.dtype.itemsize != 4:
            res.append(("D", key, "%s: tile (x %d, y %d) is stored as %s (the route narrows to float32)" % (what, p[0], p[1], g.dtype), rep))
    return True


def assemble(got, fmt, exp):
    """The deepest level in display orientation as one p2 x p2 array (None if a tile is out of place)."""
    import numpy as np
    p2 = exp["p2"]
    G = np.full((p2, p2), np.nan)
    for (tx, ty), t in got.items():
        if t.shape != (T, T) or not (0 <= tx < p2 // T and 0 <= ty < p2 // T):
            return None
        G[ty * T:(ty + 1) * T, tx * T:(tx + 1) * T] = t[::-1] if fmt == "fits" else t
    return G


def weak_compare(got, fmt, exp, E, canv, tol, what, res, key, rep):
    """Workers and disagreeing inputs: the paste order per tile is the lock order, so every cell must be defined iff
    some input defines it and carry the value of one of the inputs defined there (MultiWcs!NoContributionLost)."""
    import numpy as np
    G = assemble(got, fmt, exp)
    if G is None:
        res.append(("V", key, "%s: a tile outside the padded square, or of the wrong shape" % what, rep))
        return
    inner = G[exp["gy0"]:exp["gy0"] + exp["h"], exp["gx0"]:exp["gx0"] + exp["w"]].copy()
    G[exp["gy0"]:exp["gy0"] + exp["h"], exp["gx0"]:exp["gx0"] + exp["w"]] = np.nan
    if not np.all(np.isnan(G)):
        res.append(("V", key, "%s: defined cells outside the mosaic's place in the padded square" % what, rep))
        return
    okpix = np.isnan(inner) & np.isnan(E)
    for c in canv:
        okpix |= ~differs(inner, c, tol) & ~np.isnan(c)
    if not np.all(okpix):
        ys, xs = np.nonzero(~okpix)
        res.append(("V", key, "%s: %d cells carry no covering input's value (first at mosaic x %d, y %d: %r; %d are undefined although an input "
                    "defines them)" % (what, len(ys), xs[0], ys[0], float(inner[ys[0], xs[0]]), int(np.sum(~okpix & np.isnan(inner)))), rep))


# ------------------------------------------------------------------------------------------------
# running the real tile()
# ------------------------------------------------------------------------------------------------

@contextlib.contextmanager
def sim_gates():
    """Inside a simulated run the three steps of PyramidIO.update_image become scheduling points: taking the lock
    (enabled only while the lock file does not exist - the blocked acquirer polls), reading and writing the tile."""
    import filelock
    from toasty.pyramid import PyramidIO
    o_acq = filelock.SoftFileLock._acquire
    o_read, o_write = PyramidIO.read_image, PyramidIO.write_image
    seen = set()

    def in_sim():
        S = simmp.S
        return S is not None and not S.killed and S.me() is not None

    def _acquire(self):
        if in_sim():
            lf = self.lock_file
            seen.add("lock")
            simmp.S.sync(("tile_lock", os.path.basename(lf)), lambda: ({"ok": lambda: None} if not os.path.exists(lf) else {}))
        return o_acq(self)

    def read_image(self, pos, *a, **k):
        if in_sim():
            seen.add("read")
            simmp.S.sync(("tile_read", tuple(pos)), lambda: {"ok": lambda: None})
        return o_read(self, pos, *a, **k)

    def write_image(self, pos, *a, **k):
        if in_sim():
            seen.add("write")
            simmp.S.sync(("tile_write", tuple(pos)), lambda: {"ok": lambda: None})
        return o_write(self, pos, *a, **k)
    filelock.SoftFileLock._acquire = _acquire
    PyramidIO.read_image, PyramidIO.write_image = read_image, write_image
    try:
        yield seen
    finally:
        filelock.SoftFileLock._acquire = o_acq
        PyramidIO.read_image, PyramidIO.write_image = o_read, o_write


def pol_stall_write(rng):
    """A worker that has read a tile is not allowed to write it back while anything else can run."""
    def choose(en):
        rest = [i for i, c in enumerate(en) if c[1][0] != "tile_write"]
        if rest and rng.random() < 0.9:
            return rng.choice(rest)
        return rng.randrange(len(en))
    return choose


def pol_readers_first(rng):
    return simrun.pol_priority(rng, lambda c: 0 if c[1][0] in ("tile_read", "tile_lock") else (2 if c[1][0] == "tile_write" else 1), noise=0.1)


SIM_POLICIES = {"random": simrun.pol_random, "stall-write": pol_stall_write, "readers-first": pol_readers_first,
                "starve-feeder": simrun.pol_starve_feeder, "main-first": simrun.pol_main_first, "late-timeout": simrun.pol_late_timeout}


def run_tile(g, paths, out, run):
    """One run of the real MultiWcsProcessor.  -> dict(status, fields, lev, obs, visits, ...)"""
    from toasty import multi_wcs, collection, pyramid, builder
    import reproject
    fmt, mode = run["fmt"], run["mode"]
    r = dict(status="ok", note=None, gates=None, visits=None)
    kw = {} if g["var"]["order"] == "bilinear" else {"order": g["var"]["order"]}
    old = multi_wcs.MAXIMUM_CHUNK_SIZE
    multi_wcs.MAXIMUM_CHUNK_SIZE = g["var"]["cap"]
    try:
        pio = pyramid.PyramidIO(out, default_format=fmt)
        bld = builder.Builder(pio)
        proc = multi_wcs.MultiWcsProcessor(collection.SimpleFitsCollection(paths))
        proc.compute_global_pixelization(bld)
        r["fields"] = fields_of(bld.imgset)
        r["lev"] = int(bld.imgset.tile_levels)
        r["obs"] = observe(proc)
        if run.get("stale"):
            # a lock file left behind by an interrupted earlier run, at a deepest-level position
            from toasty.pyramid import Pos
            lp = pio.tile_path(Pos(r["lev"], run["stale"][0], run["stale"][1])) + ".lock"
            open(lp, "w").close()
        if mode == "serial":
            visits = []
            orig = pio.update_image

            def update_image(pos, *a, **k):
                visits.append((int(pos.x), int(pos.y)))
                return orig(pos, *a, **k)
            pio.update_image = update_image
            with simrun.quiet():
                proc.tile(pio, reproject.reproject_interp, parallel=1, **kw)
            r["visits"] = visits
        elif mode == "sim":
            with sim_gates() as seen:
                o = simrun.run(lambda: proc.tile(pio, reproject.reproject_interp, parallel=run["parallel"], **kw),
                               SIM_POLICIES[run["policy"]](random.Random(run["seed"])), max_steps=40000)
            r["gates"] = sorted(seen)
            r["status"] = o.status
            r["sched"] = hash(tuple((a, op[0], oc) for a, op, oc in o.trace))
            if o.status == "raised":
                r["note"] = repr(o.exc)
            elif o.status != "returned":
                r["note"] = "trace tail: %s" % ([(a, op[0], oc) for a, op, oc in o.trace[-12:]],)
            if o.workers_alive_at_return:
                r["alive"] = o.workers_alive_at_return
        elif mode == "procs":
            from lib import guard

            def body():
                with simrun.quiet():
                    proc.tile(pio, reproject.reproject_interp, parallel=run["parallel"], **kw)
                return True
            kind, val = guard.run_guarded(body, 240)
            if kind != "ok":
                r["status"], r["note"] = kind, val
        else:
            raise ValueError(mode)
    finally:
        multi_wcs.MAXIMUM_CHUNK_SIZE = old
    return r


def phase_p(args):
    """A run with real worker processes, started before TLC's expectation exists (such a run waits ten seconds for its
    workers' queue time-out whatever it does); its output directory is compared in phase B."""
    g, run, scratch = args
    repo.setup()
    import warnings
    warnings.simplefilter("ignore")
    wd = os.path.join(group_dir(scratch, g), "procs")
    os.makedirs(wd, exist_ok=True)
    paths = []
    for k in range(len(g["ins"])):
        p = os.path.join(wd, "in%d.fits" % k)
        write_input(p, g, k)
        paths.append(p)
    out = os.path.join(wd, "out")
    try:
        r = run_tile(g, paths, out, run)
    except Exception as e:  # noqa
        import traceback
        return dict(raised="%r (%s)" % (e, traceback.format_exc()[-400:]), out=out)
    r["out"] = out
    return r


def phase_b(args):
    """All runs of one group against TLC's expectation.  -> (findings [(sev, key, message, replay)], info)"""
    (g, exp, runs, final, scratch, pre) = args
    repo.setup()
    import warnings
    warnings.simplefilter("ignore")
    import hashlib
    import shutil
    import numpy as np
    res = []
    info = dict(nrun=0, digests={}, sched=[], gates=None, block=False, times=[])
    import time as _time
    wd = group_dir(scratch, g)
    n = len(g["ins"])
    paths = [os.path.join(wd, "in%d.fits" % k) for k in range(n)]
    rep = {"group": {k: g[k] for k in g if k not in ("ins",)}, "ins": g["ins"]}
    disps = [display_array(g, k) for k in range(n)]
    E = expected_mosaic(exp, disps)
    want, rowkeys = {}, {"fits": "bu", "npy": "td"}
    for fmt, rowkey in rowkeys.items():
        want[fmt] = cut_tiles(exp["full"], E, rowkey)
        alt = paste_by_bands(exp, disps, rowkey)
        blank = np.full((T, T), np.nan)
        for p in set(want[fmt]) | set(alt):
            if differs(want[fmt].get(p, blank), alt.get(p, blank), 0).any():
                return [("M", "", "TLC's cell table and TLC's per-band tables predict different tiles at %s" % (p,), rep)], info
    stored = {tuple(p) for p in exp["stored"]}
    if stored != {p for p, t in want["npy"].items() if not np.all(np.isnan(t))}:
        return [("M", "", "TLC's stored-tile set and TLC's cell table disagree", rep)], info
    tol = 1e-3 if g["var"]["order"] == "bilinear" else 0
    canv = []
    for ins, d in zip(exp["ins"], disps):
        c = np.full((exp["h"], exp["w"]), np.nan)
        e = ins["exact"]
        c[e["jmin"]:e["jmax"], e["imin"]:e["imax"]] = d
        canv.append(c)
    fl = exp["fields"]
    s = g["scale"]
    ounit = s / 2.0 if fl["levels"] > 0 else 0.5
    spec_fields = {"tile_levels": fl["levels"], "base_degrees_per_tile": s * fl["scalepix"], "offset_x": ounit * fl["offx2"],
                   "offset_y": ounit * fl["offy2"], "center_x": g["crval"][0], "center_y": g["crval"][1]}
    visit_want = [tuple(v) for ins in exp["ins"] for ch in ins["chunks"] for v in ch["vis"]]
    for ri, run in enumerate(runs):
        fmt, mode = run["fmt"], run["mode"]
        mkey = {"serial": "serial", "sim": "scheduled", "procs": "processes"}[mode]
        key = "G06:multi_wcs:%s" % mkey
        rrep = dict(rep, run=dict(run))
        out = os.path.join(wd, "out-%d" % ri)
        info["nrun"] += 1
        _t0 = _time.time()
        try:
            if run.get("pre"):
                r = pre
                out = r["out"]
                if "raised" in r:
                    raise RuntimeError(r["raised"])
            else:
                r = run_tile(g, paths, out, run)
            info["times"].append((mode, round(_time.time() - _t0, 2)))
        except Exception as e:  # noqa
            import traceback
            res.append(("V", key + ":raised", "MultiWcsProcessor (%s, %s tiles) raised %r on a valid collection (%s)" % (mkey, fmt, e, traceback.format_exc()[-400:]), rrep))
            continue
        if r["status"] == "limit":
            res.append(("D", key, "scheduled run stopped at the step limit under %s (%s)" % (run.get("policy"), r["note"]), rrep))
            continue
        if r["status"] not in ("ok", "returned"):
            res.append(("V", key + ":no-result", "tile(parallel=%s) under %s ended as %s: %s" % (run.get("parallel"), run.get("policy") or mode, r["status"], r["note"]), rrep))
            continue
        if mode == "sim":
            info["sched"].append(r["sched"])
            info["gates"] = r["gates"]
            if r.get("alive"):
                res.append(("V", key + ":workers-alive", "tile() returned while workers %s were running" % (r["alive"],), rrep))
        got, odd, locks = read_tiles(out, fmt, r["lev"])
        what = "%s run, %s tiles, %s" % (mkey, fmt, g["var"]["order"])
        # (1) every deepest-level tile, cell by cell
        if mode != "serial" and not g["agree"]:
            if set(got) != stored:
                res.append(("V", key + ":tiles", "%s: tile files that should not exist %s, tile files missing %s (x, y)"
                            % (what, sorted(set(got) - stored)[:4], sorted(stored - set(got))[:4]), rrep))
            else:
                weak_compare(got, fmt, exp, E, canv, tol, what, res, key + ":tiles", rrep)
        else:
            compare_tiles(got, want[fmt], stored, tol, what + ", against the paste predicted by the specification", res, key + ":tiles", rrep)
        if odd:
            res.append(("V", key + ":tiles", "files outside the deepest level were written: %s" % (odd[:4],), rrep))
        # (2) lock files
        if locks:
            res.append(("V", key + ":locks", "%d lock file(s) remain after tile() returned: %s%s" % (len(locks), locks[:3],
                        " (one was left by an interrupted earlier run)" if run.get("stale") else ""), rrep))
        # (3) the imageset
        if r["lev"] != exp["lev"]:
            res.append(("V", "G06:multi_wcs:fields", "tile_levels = %d, the specification gives %d for a %d x %d target" % (r["lev"], exp["lev"], exp["w"], exp["h"]), rrep))
        elif ri == 0:
            for f in FIELDS:
                a, b = r["fields"][f], spec_fields[f]
                if abs(a - b) > 1e-9 + 1e-7 * abs(b):
                    res.append(("V", "G06:multi_wcs:fields", "%s = %r, the specification gives %r (levels %d, scale %d px, offsets %d/2, %d/2 px)"
                                % (f, a, b, fl["levels"], fl["scalepix"], fl["offx2"], fl["offy2"]), rrep))
                    break
            wantproj = "SKY_IMAGE" if exp["lev"] == 0 else "TAN"
            if r["fields"]["projection"] != wantproj:
                res.append(("V", "G06:multi_wcs:fields", "projection = %s, a %d-level study is %s" % (r["fields"]["projection"], exp["lev"], wantproj), rrep))
        # (4) internals: same boxes as in the first pass, the visit sequence, n_todo
        if ri == 0 and "error" not in r["obs"] and not exp.get("fallback"):
            if r["obs"]["boxes"] != [[b["imin"], b["imax"], b["jmin"], b["jmax"]] for b in [i["box"] for i in exp["ins"]]]:
                res.append(("D", key, "compute_global_pixelization is not deterministic: boxes %s now, %s before" % (r["obs"]["boxes"], [i["box"] for i in exp["ins"]]), rrep))
            else:
                if r["obs"]["ntodo"] != exp["ntodo"]:
                    res.append(("D", key, "_n_todo = %d, the specification counts %d update_image calls for the observed boxes" % (r["obs"]["ntodo"], exp["ntodo"]), rrep))
                if r["obs"]["chunks"] != [[[c["j0"], c["j1"]] for c in i["chunks"]] for i in exp["ins"]]:
                    res.append(("D", key, "reprojection bands %s, the specification cuts %s" % (r["obs"]["chunks"], [[[c["j0"], c["j1"]] for c in i["chunks"]] for i in exp["ins"]]), rrep))
                if r["visits"] is not None and r["visits"] != visit_want:
                    res.append(("D", key, "update_image was called for %d positions %s..., the specification visits %d %s..." % (len(r["visits"]), r["visits"][:5], len(visit_want), visit_want[:5]), rrep))
        # (5) the final state of TLC's own state machine, block by block (block-exact lifts)
        if final is not None and ri == 0:
            G = assemble(got, fmt, exp)
            done, msg = block_compare(G, final, g, exp, canv)
            info["block"] = done
            if msg:
                res.append(("V", key + ":tiles", "%s: against the final state of the abstract state machine: %s" % (what, msg), rrep))
        h = hashlib.sha1()
        G = assemble(got, fmt, exp)
        if G is not None:
            h.update(np.ascontiguousarray(np.round(G, 2) if tol else G).tobytes())
        info["digests"][ri] = h.hexdigest()
    shutil.rmtree(wd, ignore_errors=True)
    return res, info


def block_compare(G, final, g, exp, canv):
    """final = the EmitFinal record of the abstract case (tile size ts, same collection order and tile parity), the real
    case is its lift by B = 256 / ts: every B x B block of the real mosaic must show the winner of the abstract cell, and
    everything outside the mosaic's place in the padded square must be undefined.  (Compared in mosaic coordinates: when
    the padding is odd the real mosaic sits half a block off the abstract tile grid, which moves tile borders, not cells.)
    -> (compared, message)"""
    import numpy as np
    if G is None:
        return True, "a tile outside the padded square"
    B = g["block"]
    if exp["w"] != final["w"] * B or exp["h"] != final["h"] * B or exp["lev"] != final["lev"]:
        return True, "the real target %d x %d (levels %d) is not the abstract target %d x %d (levels %d) times %d" \
            % (exp["w"], exp["h"], exp["lev"], final["w"], final["h"], final["lev"], B)
    inner = G[exp["gy0"]:exp["gy0"] + exp["h"], exp["gx0"]:exp["gx0"] + exp["w"]].copy()
    G = G.copy()
    G[exp["gy0"]:exp["gy0"] + exp["h"], exp["gx0"]:exp["gx0"] + exp["w"]] = np.nan
    if not np.all(np.isnan(G)):
        return True, "defined cells outside the mosaic's place in the padded square"
    perm = g["var"]["perm"]
    disp = final["disp"]
    for gy in range(final["p2"]):
        for gx in range(final["p2"]):
            i, j = gx - final["gx0"], gy - final["gy0"]
            wv = disp[gy][gx]
            if not (0 <= i < final["w"] and 0 <= j < final["h"]):
                if wv != 0:
                    return True, "the abstract state machine defines a cell outside the mosaic"
                continue
            blk = inner[j * B:(j + 1) * B, i * B:(i + 1) * B]
            if wv == 0:
                ok = bool(np.all(np.isnan(blk)))
            else:
                cands = list(canv) if wv == 99 else [canv[perm.index(wv - 1)]]
                ok = False
                for c in cands:
                    ref = c[j * B:(j + 1) * B, i * B:(i + 1) * B]
                    if not np.isnan(ref).any() and not differs(blk, ref, 1e-3).any():
                        ok = True
                        break
            if not ok:
                return True, "abstract mosaic cell (x %d, y %d) has winner %d, the real %d x %d block does not show it" % (i, j, wv, B, B)
    return True, None


# ------------------------------------------------------------------------------------------------

class Background(object):
    def __init__(self):
        self.threads, self.results, self.errors = {}, {}, {}

    def start(self, name, fn):
        def body():
            try:
                self.results[name] = fn()
            except BaseException as e:  # noqa
                self.errors[name] = e
        t = threading.Thread(target=body, daemon=True)
        t.start()
        self.threads[name] = t

    def wait(self, name):
        self.threads[name].join()
        if name in self.errors:
            raise self.errors[name]
        return self.results[name]

    def join(self):
        for t in self.threads.values():
            t.join()
        for e in self.errors.values():
            raise e


def _noop(_):
    return os.getpid()


def report(ctx, res):
    for sev, key, msg, rep in res:
        if sev == "M":
            ctx.machinery(msg + " %s" % (rep,))
        elif sev == "V":
            ctx.violation(key, msg, rep)
        else:
            ctx.drift(msg)


def probe_outside_model(d):
    """Observed, not judged: aligned inputs outside the modelled family, and the float32 narrowing."""
    import numpy as np
    from astropy.io import fits
    from toasty import multi_wcs, collection, pyramid, builder
    import reproject
    out = {}
    g = dict(ins=[mkin(0, 0, 100, 100), mkin(200, 200, 100, 100)], agree=True, rx=300, ry=300, crval=(10.0, 20.0), scale=1e-3, rot=0.0,
             var=dict(perm=[0, 1], orient=["bu", "bu"], dtype="f8"))
    paths = []
    for k in range(2):
        p = os.path.join(d, "diag%d.fits" % k)
        write_input(p, g, k)
        paths.append(p)
    bld = builder.Builder(pyramid.PyramidIO(os.path.join(d, "o1"), default_format="fits"))
    proc = multi_wcs.MultiWcsProcessor(collection.SimpleFitsCollection(paths))
    proc.compute_global_pixelization(bld)
    out["two 100 x 100 inputs of one lattice placed diagonally (corners (0,0) and (200,200))"] = \
        "target %s x %s rotated by %.1f deg: the bounding box's corners are not input corners, auto_rotate turns the grid and the inputs are interpolated" \
        % (proc._combined_shape[1], proc._combined_shape[0], bld.imgset.rotation_deg)
    g = dict(ins=[mkin(0, 0, 60, 50)], agree=True, rx=60, ry=50, crval=(10.0, 20.0), scale=1e-3, rot=0.0, var=dict(perm=[0], orient=["bu"], dtype="f8"))
    p = os.path.join(d, "big.fits")
    write_input(p, g, 0)
    with fits.open(p, mode="update") as h:
        h[0].data[5, 5] = 16777217.0
        h[0].data[6, 6] = 1e39
    pio = pyramid.PyramidIO(os.path.join(d, "o2"), default_format="fits")
    proc = multi_wcs.MultiWcsProcessor(collection.SimpleFitsCollection([p]))
    proc.compute_global_pixelization(builder.Builder(pio))
    proc.tile(pio, reproject.reproject_interp, parallel=1, order="nearest-neighbor")
    with fits.open(os.path.join(d, "o2", "0", "0", "0_0.fits")) as h:
        a = np.array(h[0].data)
    out["float64 input holding 16777217.0 and 1e39"] = "tile dtype %s; stored %r and %d infinite cell(s): every input is narrowed to float32" \
        % (a.dtype, float(a[np.isfinite(a)].max()), int(np.isinf(a).sum()))
    return out


def trace_head(output, nlines=30):
    keep = [ln for ln in output.splitlines() if ln.startswith("/\\ ") and any(ln.startswith("/\\ " + v) for v in ("order", "sl ", "cap", "q "))]
    return keep[:nlines]


def replay_only(ctx):
    """--replay FILE: re-run the recorded (case, order, storage, run); TLC computes its expectation afresh."""
    rec = (json.load(open(ctx.replay_path)).get("replay") or {})
    todo = []
    if "a" in rec and "b" in rec:
        todo = [(rec["a"][0], rec["a"][1]), (rec["b"][0], rec["b"][1])]
    elif "ins" in rec and "group" in rec:
        todo = [(dict(rec["group"], ins=rec["ins"]), rec.get("run") or dict(fmt="fits", mode="serial"))]
    else:
        ctx.machinery("replay file %s carries no case" % ctx.replay_path)
    groups = []
    for i, (g, run) in enumerate(todo):
        g = dict(g, gid=i, block=None)
        g["crval"] = tuple(g["crval"])
        run = dict(run)
        run.pop("pre", None)
        if run.get("stale"):
            run["stale"] = tuple(run["stale"])
        groups.append((g, run))
    obs = [phase_a((g, ctx.scratch)) for g, _r in groups]
    for (g, _r), o in zip(groups, obs):
        if not o["ok"]:
            ctx.violation("G06:multi_wcs:pixelization:raised", "compute_global_pixelization raised: %s" % o["error"], {"group": {k: g[k] for k in g if k != "ins"}, "ins": g["ins"]})
            return
    outp = os.path.join(ctx.scratch, "real.json")
    ctx.tlc("MCG06Real", extra={"MCG06Real.tla": real_module([tlc_record(g, o["obs"].get("boxes")) for (g, _r), o in zip(groups, obs)])},
            cfg_text=REAL_CFG, env={"OUT": outp}, workers=1, timeout=3000, count=False)
    exps = json.load(open(outp))
    digests = []
    for (g, run), exp in zip(groups, exps):
        if any(not i["allowed"] for i in exp["ins"]):
            outp2 = os.path.join(ctx.scratch, "real2.json")
            ctx.tlc("MCG06Real", extra={"MCG06Real.tla": real_module([tlc_record(g, None)])}, cfg_text=REAL_CFG, env={"OUT": outp2}, workers=1, timeout=3000, count=False)
            exp = json.load(open(outp2))[0]
            exp["fallback"] = True
        res, info = phase_b((g, exp, [run], None, ctx.scratch, None))
        report(ctx, res)
        ctx.count(info["nrun"])
        ctx.trace_ok(info["nrun"])
        digests += list(info["digests"].values())
    if len(groups) == 2 and len(set(digests)) > 1:
        ctx.violation("G06:multi_wcs:order-workers", "the two recorded runs of one set of inputs give different deepest-level tiles", rec)
    ctx.note("replayed_case", {"runs": [r for _g, r in groups]})


def run(ctx):
    repo.setup(ctx)
    import multiprocessing as mp
    import time
    import warnings
    warnings.simplefilter("ignore")
    rng, quick = ctx.rng, ctx.quick
    t0 = time.time()
    if ctx.replay_path:
        return replay_only(ctx)
    ctx.rule = ("abstract: seeded + crafted cases of the aligned family (2-4 rectangles of one lattice whose corner set contains the bounding box's "
                "corners, NaN borders / holes, any lattice offset and reference point) at tile size 2 / 4 (thorough: 3 too) x both tile parities x "
                "band sizes x roundoff slack x EVERY collection order (SpecSerial) and every interleaving of 2 (thorough: 3) workers (SpecPar); "
                "real: the same cases lifted by strictly increasing edge maps to 256-pixel tiles, any storage orientation / dtype / sky position / "
                "lattice rotation; the boxes of the real compute_global_pixelization go to TLC, which evaluates the TS = 256 operators for exactly "
                "that case; the real tile() then runs serially, scheduled and with processes. distinct = (case, order, orientation, format, mode, "
                "schedule); non-trivial = at least two inputs share a tile")
    # ---- worker pool first (forked before this process has threads)
    pool = cf.ProcessPoolExecutor(max_workers=6, mp_context=mp.get_context("fork"))
    list(pool.map(_noop, range(12)))

    fam, par = abstract_sets(rng, quick)
    dev = getattr(ctx, "extra_args", None) or []
    all_abstract = [c for n_ in ("ts2", "ts4") for c in fam[n_][1]]
    groups = real_groups(rng, quick, all_abstract)
    if "--abstract-only" in dev:            # development switches (not used by the tiers)
        groups = groups[:1]
    if "--real-only" in dev:
        fam = {k: (v[0], v[1][:1], v[2], v[3]) for k, v in fam.items()}
        par = par[:1]
        for g in groups:
            g["block"] = None
    fa = [pool.submit(phase_a, (g, ctx.scratch)) for g in groups]
    # runs with real worker processes start now (each waits out the workers' ten-second queue time-out)
    fp = {}
    for g in groups:
        n = len(g["ins"])
        overlap = any(a["x0"] < b["x0"] + b["w"] and b["x0"] < a["x0"] + a["w"] and a["y0"] < b["y0"] + b["h"] and b["y0"] < a["y0"] + a["h"]
                      for a, b in itertools.combinations(g["ins"], 2))
        if g["first"] and not g["block"] and n >= 2 and overlap and len(fp) < (2 if quick else 10):
            run = dict(fmt="fits" if len(fp) % 2 else "npy", mode="procs", parallel=2 + len(fp) % 2, pre=True)
            fp[g["gid"]] = (run, pool.submit(phase_p, (g, run, ctx.scratch)))

    bg = Background()
    for name, (ts, cases, slack, caps) in sorted(fam.items()):
        mod = "MCG06_" + name
        bg.start(name, (lambda mod=mod, ts=ts, cases=cases, slack=slack, caps=caps: ctx.tlc(
            mod, extra={mod + ".tla": mc_module(mod, cases)},
            cfg_text=cfg("SpecSerial", ts, caps, slack, SERIAL_INVS + ["EmitFinal", "EmitIdeal"], ["NeverOverwritten"]),
            workers=(3 if ts == 2 else 2) if quick else 6, timeout=14400)))
    bg.start("par", lambda: ctx.tlc("MCG06_par", extra={"MCG06_par.tla": mc_module("MCG06_par", par)},
                                    cfg_text=cfg("SpecPar", 2, [3, 1000], "MCSlackNone" if quick else "MCSlackSome", PAR_INVS, ["Returns"], nworkers=2),
                                    workers=3 if quick else 8, timeout=14400))
    # a lock that leaves its file behind when released: the clean-up is what empties the directory
    bg.start("par-keepfile", lambda: ctx.tlc("MCG06_parK", extra={"MCG06_parK.tla": mc_module("MCG06_parK", par[:1] if quick else par[:4])},
                                             cfg_text=cfg("SpecPar", 2, [1000], "MCSlackNone", PAR_INVS, [], nworkers=2, unlinks=False), workers=1, timeout=3000))
    # negative controls: without the lock a contribution is lost; the three "ideal" statements fail
    bg.start("par-nolock", lambda: ctx.tlc("MCG06_parN", extra={"MCG06_parN.tla": mc_module("MCG06_parN", par[:1])},
                                           cfg_text=cfg("SpecPar", 2, [1000], "MCSlackNone", ["NoContributionLost"], [], nworkers=2, uselock=False),
                                           workers=1, timeout=3000, expect_violation=True, count=False))
    if not quick:
        # breadth-first refutations (shortest counterexamples); in both tiers the final states of the serial runs carry
        # the truth values of the same statements (EmitIdeal)
        neg_cases = fam["ts2"][1][:12]
        for inv in REFUTED:
            bg.start("neg-" + inv, (lambda inv=inv: ctx.tlc("MCG06_neg" + inv, extra={"MCG06_neg%s.tla" % inv: mc_module("MCG06_neg" + inv, neg_cases)},
                                                            cfg_text=cfg("SpecSerial", 2, [2, 1000], "MCSlackSome", [inv]), workers=1, timeout=3000,
                                                            expect_violation=True, count=False)))
    if not quick:
        bg.start("par3", lambda: ctx.tlc("MCG06_par3", extra={"MCG06_par3.tla": mc_module("MCG06_par3", par[:6])},
                                         cfg_text=cfg("SpecPar", 2, [1000], "MCSlackNone", PAR_INVS, ["Returns"], nworkers=3), workers=8, timeout=14400))

    # ---- phase A results -> TLC at TS = 256
    obs = []
    for g, f in zip(groups, fa):
        o = f.result(timeout=1200)
        obs.append(o)
    live = []
    for g, o in zip(groups, obs):
        rep = {"group": {k: g[k] for k in g if k != "ins"}, "ins": g["ins"]}
        if not o["ok"]:
            ctx.violation("G06:multi_wcs:pixelization:raised", "compute_global_pixelization raised on a valid collection of the aligned family: %s" % o["error"], rep)
            continue
        if "error" in o["obs"]:
            ctx.drift("MultiWcsProcessor no longer exposes _combined_shape / _descs / _n_todo (%s): the model's exact boxes are used" % o["obs"]["error"])
        live.append((g, o))
    recs = [tlc_record(g, o["obs"].get("boxes")) for g, o in live]
    outp = os.path.join(ctx.scratch, "real.json")
    ctx.tlc("MCG06Real", extra={"MCG06Real.tla": real_module(recs)}, cfg_text=REAL_CFG, env={"OUT": outp}, workers=1, timeout=3000, count=False)
    exps = json.load(open(outp))
    if len(exps) != len(live):
        ctx.machinery("TLC returned %d expectations for %d cases" % (len(exps), len(live)))
    t_real = time.time() - t0
    slack_seen = 0
    redo = []
    for idx, ((g, o), exp) in enumerate(zip(live, exps)):
        rep = {"group": {k: g[k] for k in g if k != "ins"}, "ins": g["ins"]}
        if "shape" in o["obs"] and o["obs"]["shape"] != [exp["h"], exp["w"]]:
            ctx.violation("G06:multi_wcs:pixelization:target", "the target grid is %s (rows, columns); the bounding box of the inputs' footprints is %s"
                          % (o["obs"]["shape"], [exp["h"], exp["w"]]), rep)
        for k, ins in enumerate(exp["ins"]):
            b, e = ins["box"], ins["exact"]
            if not ins["allowed"]:
                covers = b["imin"] <= e["imin"] and b["imax"] >= e["imax"] and b["jmin"] <= e["jmin"] and b["jmax"] >= e["jmax"]
                if idx not in redo:
                    redo.append(idx)
                    ctx.drift("input %d: box %s is not a box of the model (footprint %s, at most one pixel of roundoff slack per side)%s; the tiles "
                              "are compared with the expectation for the model's exact boxes [abstract case %s, order %s, storage %s]"
                              % (k, b, e, "" if covers else " - it does not cover the footprint", g["abstract"], g["var"]["perm"], g["var"]["orient"]))
            elif b != e:
                slack_seen += 1
    if redo:
        # boxes outside the model: the expectation is evaluated for the model's own (exact) boxes instead
        outp2 = os.path.join(ctx.scratch, "real2.json")
        ctx.tlc("MCG06Real", extra={"MCG06Real.tla": real_module([tlc_record(live[i][0], None) for i in redo])}, cfg_text=REAL_CFG, env={"OUT": outp2},
                workers=1, timeout=3000, count=False)
        for i, e2 in zip(redo, json.load(open(outp2))):
            e2["fallback"] = True
            exps[i] = e2

    # ---- phase B
    pols = list(SIM_POLICIES)
    tasks = []
    nsim = nprocs = 0
    for (g, o), exp in zip(live, exps):
        n = len(g["ins"])
        nt = 2 ** exp["lev"]
        touched = [tuple(v) for ins in exp["ins"] for ch in ins["chunks"] for v in ch["vis"]]
        shared = len(set(touched)) < len(touched)
        g["shared"] = shared
        untouched = sorted((x, y) for x in range(nt) for y in range(nt) if (x, y) not in set(touched))
        fmt0 = "fits" if g["gid"] % 2 == 0 else "npy"
        runs = [dict(fmt=fmt0, mode="serial")]
        if g["first"]:
            runs.append(dict(fmt="npy" if fmt0 == "fits" else "fits", mode="serial", stale=untouched[0] if untouched else None))
            if shared and n >= 2 and (nsim < (8 if quick else 120)):
                k = 2 if quick else 4
                for j in range(k):
                    runs.append(dict(fmt="fits" if j % 2 else "npy", mode="sim", parallel=2 + ((j + nsim) % 2 if n > 2 else 0),
                                     policy=pols[(nsim + j) % len(pols)], seed=rng.randrange(1 << 30)))
                nsim += k
        if g["gid"] in fp:
            runs.append(fp[g["gid"]][0])
            nprocs += 1
        tasks.append([g, exp, runs, None, ctx.scratch, None])
    order = sorted(range(len(tasks)), key=lambda i: -sum({"procs": 60, "sim": 6}.get(r["mode"], 1) for r in tasks[i][2]))
    for t in tasks:
        if t[0]["gid"] in fp:
            try:
                t[5] = fp[t[0]["gid"]][1].result(timeout=3000)
            except Exception as e:  # noqa
                pool.shutdown(cancel_futures=True)
                ctx.machinery("the worker of a run with real processes failed: %r" % (e,))
    futs = {i: pool.submit(phase_b, tuple(tasks[i])) for i in order if not tasks[i][0]["block"]}
    # ---- meanwhile: final states of the serial state machines: for the block-exact lifts, and the refuted ideals
    finals, ideal_wit = {}, {inv: [] for inv in REFUTED}
    for name in sorted(fam):
        r = bg.wait(name)
        for rec in r.json_lines("F"):
            finals[(rec["id"], tuple(rec["order"]), rec["q"])] = rec
        for rec in r.json_lines("I"):
            for inv in REFUTED:
                if rec["ideal"][inv] is False:
                    ideal_wit[inv].append(rec)

    for i in order:
        g, runs = tasks[i][0], tasks[i][2]
        if g["block"]:
            # the group's collection order is perm: input j of the group is abstract input perm[j] + 1
            tasks[i][3] = finals.get((g["abstract"], tuple(p + 1 for p in g["var"]["perm"]), "bottomup" if runs[0]["fmt"] == "fits" else "topdown"))
            if tasks[i][3] is None:
                pool.shutdown(cancel_futures=True)
                ctx.machinery("TLC emitted no final state for abstract case %s in order %s" % (g["abstract"], g["var"]["perm"]))
            futs[i] = pool.submit(phase_b, tuple(tasks[i]))
    results = {}
    for i in range(len(tasks)):
        try:
            results[i] = futs[i].result(timeout=3000)
        except Exception as e:  # noqa
            pool.shutdown(cancel_futures=True)
            ctx.machinery("replay worker failed on group %d: %r %s" % (i, e, str(getattr(e, "__cause__", "") or "")[-1500:]))
    pool.shutdown()
    t_replay = time.time() - t0
    bg.join()

    # ---- negative controls must still be refuted
    if bg.results["par-nolock"].violated != "NoContributionLost":
        ctx.machinery("without the lock the specification should lose a contribution (TLC said %r)" % (bg.results["par-nolock"].violated,))
    refuted = {}
    for inv in REFUTED:
        if not ideal_wit[inv] and "--real-only" in dev:
            continue
        if not ideal_wit[inv]:
            ctx.machinery("no final state of the serial state machines refutes %s: the model has lost the as-built behaviour it is meant to expose" % inv)
        w = min(ideal_wit[inv], key=lambda r: (len(r["order"]), r["id"]))
        refuted[inv] = {"refuting_final_states": len(ideal_wit[inv]),
                        "a_witness": {k: w[k] for k in ("id", "cap", "sl", "order", "boxes", "exact")}}
        if not quick:
            r = bg.results["neg-" + inv]
            if r.violated != inv:
                ctx.machinery("TLC no longer refutes %s (it reports %r)" % (inv, r.violated))
            refuted[inv]["bfs_counterexample"] = trace_head(r.output, 8)

    # ---- verdicts
    by_case, gates_seen, nblock = {}, None, 0
    for i, (g, exp, runs, final, _s, _p) in enumerate(tasks):
        res, info = results[i]
        report(ctx, res)
        ctx.count(info["nrun"] + 1)
        ctx.trace_ok(info["nrun"])
        nblock += 1 if info["block"] else 0
        for ri, run in enumerate(runs):
            if g["shared"]:
                ctx.distinct((g["ci"], tuple(g["var"]["perm"]), tuple(g["var"]["orient"]), run["fmt"], run["mode"], run.get("policy"), run.get("seed")))
            if ri in info["digests"]:
                by_case.setdefault(g["ci"], []).append((info["digests"][ri], g, run))
        if info["gates"] is not None:
            gates_seen = info["gates"] if gates_seen is None else sorted(set(gates_seen) | set(info["gates"]))
    # order-, orientation-, schedule- and format-independence, stated directly: where overlapping inputs agree every run of a
    # case gives the same display-orientation tiles
    for ci, lst in by_case.items():
        if lst[0][1]["agree"] and len({(d, gg["var"]["order"]) for d, gg, _r in lst if gg["var"]["order"] != "bilinear"} | set()) > 1:
            nn = [x for x in lst if x[1]["var"]["order"] != "bilinear"]
            a = nn[0]
            b = [x for x in nn if x[0] != a[0]][0]
            ctx.violation("G06:multi_wcs:order-workers", "the same inputs give different deepest-level tiles for (order %s, storage %s, %s %s) and "
                          "(order %s, storage %s, %s %s)" % (a[1]["var"]["perm"], a[1]["var"]["orient"], a[2]["mode"], a[2]["fmt"],
                                                             b[1]["var"]["perm"], b[1]["var"]["orient"], b[2]["mode"], b[2]["fmt"]),
                          {"a": [a[1], a[2]], "b": [b[1], b[2]]})
    if nsim and gates_seen is not None and sorted(gates_seen) != ["lock", "read", "write"]:
        ctx.drift("update_image no longer passes through SoftFileLock._acquire / PyramidIO.read_image / write_image (scheduling points seen: %s): "
                  "the scheduled runs interleave less finely" % (gates_seen,))
    if not tasks:
        ctx.machinery("no real cases")
    if slack_seen == 0:
        ctx.drift("no input's box was wider than its footprint: the RoundoffSlack deviation of the model was not observed on this tree")
    ctx.exhaustive = False
    ctx.note("abstract_models", {n: {"TS": v[0], "cases": len(v[1]), "slack": v[2], "band_caps": v[3]} for n, v in fam.items()})
    ctx.note("tlc_refuted_ideals", refuted)
    ctx.note("as_built_deviation_RoundoffSlack", {"inputs_with_a_box_wider_than_the_footprint": slack_seen,
                                                  "of": sum(len(e["ins"]) for e in exps)})
    ctx.note("runs", {"groups": len(tasks), "serial": sum(1 for t in tasks for r in t[2] if r["mode"] == "serial"), "scheduled": nsim,
                      "processes": nprocs, "block_exact_lifts_compared": nblock,
                      "distinct_schedules": len({s for i in results for s in results[i][1]["sched"]})})
    ctx.note("run_wall_s", {m: [round(sum(t for i in results for mm, t in results[i][1]["times"] if mm == m), 1),
                                len([1 for i in results for mm, t in results[i][1]["times"] if mm == m])] for m in ("serial", "sim", "procs")})
    ctx.note("phase_wall_s", {"pixelization_and_tlc256": round(t_real, 1), "replay_done": round(t_replay, 1), "tlc_done": round(time.time() - t0, 1)})
    for i in (0, len(tasks) // 2):
        g, exp, runs, _f, _s, _p = tasks[i]
        ctx.sample({"abstract_case": g["abstract"], "ins": g["ins"], "variant": g["var"], "agree": g["agree"], "rot": g["rot"], "crval": g["crval"],
                    "tlc": {"target": [exp["w"], exp["h"]], "levels": exp["lev"], "gx0": exp["gx0"], "gy0": exp["gy0"], "crpix_x2": exp["crpix"],
                            "fields": exp["fields"], "boxes": [i_["box"] for i_ in exp["ins"]], "exact": [i_["exact"] for i_ in exp["ins"]],
                            "ntodo": exp["ntodo"], "stored": exp["stored"], "cell_winners": exp["cells"]["win"][:6]}, "runs": runs})
    try:
        ctx.note("observed_outside_model", probe_outside_model(ctx.mkdtemp("probe")))
    except Exception as e:  # noqa
        ctx.note("observed_outside_model", "probe failed: %r" % (e,))
    ctx.assume("the aligned family: every input is a rectangle of cells of one sky lattice (common tangent point and scale; any of the eight "
               "storage orientations; the lattice itself rotated by less than 45 degrees) and the corners of the bounding box are corners of "
               "inputs, so that find_optimal_celestial_wcs returns the lattice itself and every input differs from the target by an integer "
               "pixel shift; reproject_interp then returns the input's own values (nearest-neighbour: exactly; bilinear: within 1e-3 of "
               "integer-valued pixels, used only for inputs without NaN, because a NaN neighbour at weight 1e-10 spreads)")
    ctx.assume("the queue hands every input to exactly one worker (WorkQueue.tla / C03) and SoftFileLock excludes by file existence (TileLock.tla / "
               "C10); scheduled runs use threads for processes with lock / read / write of update_image as the interleaving points")
    ctx.assume("pixel values are integers below 2^24 (the route narrows every input to float32); MAXIMUM_CHUNK_SIZE is set per case to cut bands")
