"""C05 - a tile's 256x256 pixel grid is the centres of the tiles eight levels deeper.

Spec: theorem T_Sub of spec/ToastLattice.tla - the quadrant recursion of _subsample, transcribed with the
sub-array placement, yields for every tile, at [row r][col c], the canonical centre point of tile
(n+K, 2^K x + c, 2^K y + r) - checked by TLC for K = 1..3 over every tile of the bounded lattice; TLC emits the
grids.  Binding: the real compiled subsample() is run with npix = 2, 4, 8 on every emitted tile and compared cell by
cell with psi of TLC's grid; for npix = 256 (toast_tile_get_coords) the real arrays are compared with psi of the
centres (the theorem's right-hand side at K = 8) for all tiles to depth 2 and sampled deeper tiles, and with the
centre of the real tile constructed eight levels deeper; the latitude-range and containment clauses are checked
on the real arrays.
"""
import numpy as np

from lib import repo, lattice
from checks import toastlat

TOL = 1e-9


def run(ctx):
    repo.setup(ctx)
    from toasty import toast
    from toasty._libtoasty import subsample
    from toasty.pyramid import Pos
    q = ctx.quick
    ctx.rule = ("tiles x pixels: TLC emits the K = 1..3 sub-sample grids of every tile of the bounded lattice; all 65536 pixels of every tile to depth 2 plus seeded deeper "
                "tiles are compared with the spec's right-hand side; distinct = distinct (coordinate system, tile, npix); every case is non-trivial")
    runs = [(5, 3, 1), (6, 2, 3)] if q else [(5, 3, 1), (6, 3, 2), (7, 3, 3)]
    tabs = [toastlat.run_tlc(ctx, R, D, K) for (R, D, K) in runs]
    worst = {"small": 0.0, "grid256": 0.0, "deeper-tile": 0.0, "lat-excess": 0.0, "outside": 0.0}
    cons = toastlat.library_consumers()
    for csname, cs in toastlat.coordsystems():
        psi = toastlat.psi_for(tabs[0], csname)
        # ---- npix = 2, 4, 8 against TLC's grids
        for t in tabs:
            npix = 2 ** t.K
            for e in t.sub:
                n, x, y = e["pos"]
                tile = toast.create_single_tile(Pos(n, x, y), coordsys=cs)
                lons, lats = subsample(tile.corners[0], tile.corners[1], tile.corners[2], tile.corners[3], npix, tile.increasing)
                real = lattice.lonlat_to_vec(lons, lats)
                exp = np.array([[psi.vec(p[0], p[1], t.R) for p in row] for row in e["grid"]])
                err = float(np.abs(real - exp).max())
                worst["small"] = max(worst["small"], err)
                ctx.count()
                ctx.trace_ok()
                ctx.distinct((csname, e["pos"], npix))
                if err > TOL:
                    r, c = np.unravel_index(np.argmax(np.abs(real - exp).max(axis=-1)), (npix, npix))
                    ctx.violation("C05:subsample:small-grid", "subsample(npix=%d) of tile %s [%s]: pixel (row %d, col %d) is %.2e away from the centre of tile (%d, %d, %d)"
                                  % (npix, e["pos"], csname, r, c, err, n + t.K, npix * x + c, npix * y + r), {"pos": e["pos"], "cs": csname, "npix": npix})
        # ---- the whole-sphere tile (level 0): pixel (i, j) is the centre of tile (8, j, i) - four level-1 grids side by side
        try:
            l0, t0 = toast.toast_tile_get_coords(toast.Tile(Pos(0, 0, 0), (None, None, None, None), False), coordsys=cs)
            real0 = lattice.lonlat_to_vec(l0, t0)
            exp0 = np.concatenate([np.concatenate([psi.grid(1, 0, 0, 7), psi.grid(1, 1, 0, 7)], axis=1),
                                   np.concatenate([psi.grid(1, 0, 1, 7), psi.grid(1, 1, 1, 7)], axis=1)], axis=0)
            d0 = np.abs(real0 - exp0).max(axis=-1)
            ctx.count()
            ctx.distinct((csname, (0, 0, 0), 256))
            worst["grid256"] = max(worst["grid256"], float(d0.max()))
            if float(d0.max()) > TOL:
                r, c = np.unravel_index(np.argmax(d0), d0.shape)
                ctx.violation("C05:get_coords:level0", "level-0 tile [%s]: pixel (row %d, col %d) is %.2e away from the centre of tile (8, %d, %d)" % (csname, r, c, float(d0.max()), c, r), {"cs": csname})
        except Exception as e:  # noqa
            ctx.violation("C05:get_coords:level0", "toast_tile_get_coords of the level-0 tile [%s] raised %r" % (csname, e), {"cs": csname})
        # ---- npix = 256
        tiles = [(n, x, y) for n in (1, 2) for y in range(2 ** n) for x in range(2 ** n)]
        if q:
            tiles = tiles[:4] + [tiles[i] for i in (4, 7, 9, 14, 19)]
        for _ in range(4 if q else 40):
            n = ctx.rng.randint(3, 12)
            tiles.append((n, ctx.rng.randrange(2 ** n), ctx.rng.randrange(2 ** n)))
        for (n, x, y) in tiles:
            tile = toast.create_single_tile(Pos(n, x, y), coordsys=cs)
            # the tile is first shown to the library's own footprint filters and area function, as in a filtered sampling
            # run: the grid asked for afterwards is still the grid of this tile
            toastlat.hand_to_consumers(tile, cons)
            # ... and to the library's other user of this grid, the pixel lookup (for a point inside this tile), before and
            # between the requests: what the lookup does with the grid must not show in what get_coords reports
            cvec = psi.centre(n, x, y)
            clon, clat = (float(v_) for v_ in lattice.vec_to_lonlat(cvec))
            try:
                toast.toast_pixel_for_point(n, clat, clon, coordsys=cs)
            except Exception:  # noqa - the lookup's own correctness is C12's subject
                pass
            lons, lats = toast.toast_tile_get_coords(tile)
            ctx.count()
            ctx.distinct((csname, (n, x, y), 256))
            if lons.shape != (256, 256) or lats.shape != (256, 256):
                ctx.violation("C05:get_coords:shape", "toast_tile_get_coords(%s) returns arrays of shape %s" % ((n, x, y), lons.shape), {"pos": (n, x, y)})
                continue
            real = lattice.lonlat_to_vec(lons, lats)
            exp = psi.grid(n, x, y, 8)
            d = np.abs(real - exp).max(axis=-1)
            err = float(d.max())
            worst["grid256"] = max(worst["grid256"], err)
            if err > TOL:
                r, c = np.unravel_index(np.argmax(d), d.shape)
                ctx.violation("C05:get_coords:pixel-centres", "tile %s [%s]: pixel (row %d, col %d) is %.2e away from the centre of tile (%d, %d, %d)"
                              % ((n, x, y), csname, r, c, err, n + 8, 256 * x + c, 256 * y + r), {"pos": (n, x, y), "cs": csname, "row": int(r), "col": int(c)})
            # the same pixel through the real tile eight levels deeper
            for _k in range(6 if q else 40):
                r, c = ctx.rng.randrange(256), ctx.rng.randrange(256)
                deep = toast.create_single_tile(Pos(n + 8, 256 * x + c, 256 * y + r), coordsys=cs)
                a, b = (deep.corners[3], deep.corners[1]) if deep.increasing else (deep.corners[0], deep.corners[2])
                va = lattice.lonlat_to_vec(a[0], a[1])
                vb = lattice.lonlat_to_vec(b[0], b[1])
                cen = (va + vb) / np.linalg.norm(va + vb)
                e2 = float(np.abs(real[r, c] - cen).max())
                worst["deeper-tile"] = max(worst["deeper-tile"], e2)
                ctx.count()
                if e2 > TOL:
                    ctx.violation("C05:get_coords:vs-deeper-tile", "tile %s [%s] pixel (row %d, col %d) differs by %.2e from the centre of the real tile %s"
                                  % ((n, x, y), csname, r, c, e2, tuple(deep.pos)), {"pos": (n, x, y), "cs": csname})
                    break
            # every pixel centre lies inside its tile, within the latitude range spanned by the corners
            clat = np.array([float(p[1]) for p in tile.corners])
            exc = max(float(lats.max() - clat.max()), float(clat.min() - lats.min()), 0.0)
            worst["lat-excess"] = max(worst["lat-excess"], exc)
            if exc > 1e-12:
                ctx.violation("C05:latitude-range", "tile %s [%s]: pixel latitudes leave the corners' latitude range by %.2e rad" % ((n, x, y), csname, exc), {"pos": (n, x, y), "cs": csname})
            cv = toastlat.tile_vecs(tile)
            out = 0.0
            for k in range(4):
                nrm = np.cross(cv[k], cv[(k + 1) % 4])
                out = min(out, float((real @ nrm).min()))
            worst["outside"] = max(worst["outside"], -out)
            if out < -1e-12:
                ctx.violation("C05:inside-tile", "tile %s [%s]: a pixel centre lies %.2e outside the tile's edges" % ((n, x, y), csname, -out), {"pos": (n, x, y), "cs": csname})
    ctx.note("worst_deviation", worst)
    e = tabs[0].sub[len(tabs[0].sub) // 2]
    ctx.sample({"tile": list(e["pos"]), "K": tabs[0].K, "R": tabs[0].R, "grid_lattice_points": e["grid"]})
    ctx.assume("normalize(a + b) is the great-circle midpoint; lib/lattice.Psi.grid (vectorised) is cross-checked against the scalar recursion on every run of C04")
    ctx.assume("the compiled toasty._libtoasty is what is exercised; the .pyx cannot be rebuilt here (no Cython)")
