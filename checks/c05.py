"""C05 - a tile's 256x256 pixel grid is the centres of the tiles eight levels deeper.

Spec: theorem T_Sub of spec/ToastLattice.tla - the quadrant recursion of _subsample, transcribed with the
sub-array placement, yields for every tile, at [row r][col c], the canonical centre point of tile
(n+K, 2^K x + c, 2^K y + r) - checked by TLC for K = 1..3 over every tile of the bounded lattice; TLC emits the
grids.  Binding: the real compiled subsample() is run with npix = 2, 4, 8 on every emitted tile and compared cell by
cell with psi of TLC's grid; for npix = 256 (toast_tile_get_coords) the real arrays are compared with psi of the
centres (the theorem's right-hand side at K = 8) for all tiles to depth 2 and sampled deeper tiles, and with the
centre of the real tile constructed eight levels deeper; the latitude-range and containment clauses are checked
on the real arrays.

The tile that ARRIVES (spec/LeafDelivery.tla): the filtered post-order generator (tile filter and / or sub-pyramid)
delivers exactly the canonical lattice tiles of the accepted leaf positions (T_LeafTiles), and a producer / bounded
queue / feeder / worker machine over those values keeps ArrivedIsItsTile and ArrivedGridIsCentres whatever the lag
between put() and the feeder's serialisation; TLC emits the leaf tables and every reachable lag vector.  Binding:
the real Pyramid.new_toast_filtered(...)[.subpyramid(apex)].visit_leaves(cb, parallel=2) runs (a) on lib/simmp's
deterministic scheduler, driven through TLC's lag vectors (items serialised at flush time, as the real feeder does)
and adversarial policies, and (b) with real worker processes; the callback computes the grid IN THE WORKER and the
digest (corners, the 2^K grid, a 16 x 16 sub-lattice of the 256 grid, latitude range) is compared with TLC's table.

The environment: one child interpreter per configuration of the process environment (every variable the library's
source reads from os.environ, set to "1"; and a process in which toasty._libtoasty cannot be imported) recomputes a
stratified subset (both diagonal orientations, both coordinate systems, levels 1-3, npix 2..256) which is compared
with TLC's tables; a clean ImportError is recorded and not judged.
"""
import collections
import concurrent.futures
import json
import os
import pickle
import random
import re
import subprocess
import sys

import numpy as np

from lib import repo, lattice, simmp, simrun, tla, guard
from checks import toastlat

TOL = 1e-9
SAMPLE_STEP = 17          # rows / columns 0, 17, ..., 255 of the 256 x 256 grid: a 16 x 16 sub-lattice
KEY_ARRIVES = "C05:visit_leaves-parallel:pixel-centres"
KEY_ENV = "C05:environment:pixel-centres"


# ------------------------------------------------------------------------------------------------
# the tile that arrives at the callback of a parallel leaf visit (spec/LeafDelivery.tla)
# ------------------------------------------------------------------------------------------------

LEAF_CFG = """SPECIFICATION DSpec
CONSTANTS
 R = %(R)d
 MaxDepth = %(D)d
 K = %(K)d
 Cap = %(cap)d
 Configs <- MCConfigs
INVARIANT ArrivedIsItsTile
INVARIANT ArrivedGridIsCentres
INVARIANT DeliveredAllOK
INVARIANT LagBounded
INVARIANT Emit
CHECK_DEADLOCK FALSE
"""

L1 = [(1, 0, 0), (1, 1, 0), (1, 0, 1), (1, 1, 1)]


def _kids(p):
    n, x, y = p
    return [(n + 1, 2 * x, 2 * y), (n + 1, 2 * x + 1, 2 * y), (n + 1, 2 * x, 2 * y + 1), (n + 1, 2 * x + 1, 2 * y + 1)]


def _up(p, m):
    return (m, p[1] >> (p[0] - m), p[2] >> (p[0] - m))


def _reached_leaves(conf):
    """Input selection only (sizes of the configurations handed to TLC; TLC's own table is what is compared)."""
    d, apex = conf["depth"], conf["apex"]
    out = []
    for y in range(2 ** d):
        for x in range(2 ** d):
            p = (d, x, y)
            if all((m > apex[0] or _up(p, m) == _up(apex, m)) and _up(p, m) in conf["acc"] for m in range(1, d + 1)):
                out.append(p)
    return out


def _all_positions(depth):
    return {(n, x, y) for n in range(1, depth + 1) for x in range(2 ** n) for y in range(2 ** n)}


def _random_acc(rng, depth, keep):
    acc = set()

    def rec(p):
        acc.add(p)
        if p[0] < depth:
            ks = [k for k in _kids(p) if rng.random() < keep] or [rng.choice(_kids(p))]
            for k in ks:
                rec(k)
    tops = [t for t in L1 if rng.random() < 0.75]
    if len(tops) < 2:
        tops = rng.sample(L1, 2)
    for t in tops:
        rec(t)
    # positions the filter would accept but the walk never reaches (their parent is rejected)
    for _ in range(3):
        n = rng.randint(2, depth)
        acc.add((n, rng.randrange(2 ** n), rng.randrange(2 ** n)))
    return acc


def _pick_config(ctx, rng, depth, keep, apex_level, lo, hi, **kw):
    for _ in range(500):
        acc = _random_acc(rng, depth, keep) if keep is not None else _all_positions(depth)
        conf = dict(depth=depth, acc=acc, apex=(0, 0, 0), user=keep is not None, **kw)
        if apex_level:
            cands = _reached_leaves(dict(conf, depth=apex_level))      # positions of that level the filtered walk gets to
            if not cands:
                continue
            conf["apex"] = rng.choice(sorted(cands))
        ls = _reached_leaves(conf)
        if lo <= len(ls) <= hi and len({_up(p, depth - 1) for p in ls}) >= 2:
            return conf
    ctx.machinery("could not draw a filtered pyramid with %d..%d leaves in at least two sibling groups" % (lo, hi))


def leaf_configs(ctx, rng):
    """Filtered pyramids (tile filter and / or sub-pyramid): the inputs handed to TLC.  `lags`: TLC enumerates the lag vectors
    of the dispatch; `reads`: the tile filter looks at the tile's geometry through the library's own consumers; `user`: a
    tile filter is given (otherwise the sub-pyramid's position filter is the only one)."""
    q = ctx.quick
    out = []
    for i in range(1 if q else 3):
        out.append(_pick_config(ctx, rng, 2, 0.6, 0, 5, 7, lags=True, reads=False))
        out.append(_pick_config(ctx, rng, 3, 0.5, 1, 5, 7, lags=True, reads=True))
        out.append(_pick_config(ctx, rng, 3, None, 1, 16, 16, lags=False, reads=False))
        out.append(_pick_config(ctx, rng, 3, 0.7, 0, 8, 24, lags=False, reads=(i % 2 == 1)))
    if not q:
        out.append(_pick_config(ctx, rng, 3, 0.8, 1, 8, 8, lags=True, reads=False))
    for i, c in enumerate(out):
        c["csi"] = i % 2
    return out


def leaf_mc_module(configs):
    recs = [{"depth": c["depth"], "acc": set(c["acc"]), "apex": tuple(c["apex"]), "lags": bool(c["lags"])} for c in configs]
    defs = [("MCConfigs", tla.lit(recs)),
            "ASSUME T_LeafTiles",
            "LeafTable == [k \\in DOMAIN Configs |-> [i \\in DOMAIN LS[k] |-> LET t == LS[k][i] g == Sub(t.c[1], t.c[2], t.c[3], t.c[4], t.inc, K) IN"
            "   [pos |-> t.pos, c |-> <<t.c[1].pt, t.c[2].pt, t.c[3].pt, t.c[4].pt>>, inc |-> t.inc,"
            "    grid |-> [r \\in 1..(2^K) |-> [c \\in 1..(2^K) |-> g[<<r - 1, c - 1>>].pt]]]]]",
            "ASSUME JsonSerialize(IOEnv.OUT, [R |-> R, K |-> K, leaves |-> LeafTable])",
            "Emit == Delivered => PrintT(<<\"LAG\", ToJson([cfg |-> cfg, lag |-> lag])>>)"]
    return tla.module("MCLeaf", ["LeafDelivery", "Json", "IOUtils", "SequencesExt"], defs)


def run_leaf_tlc(ctx, configs, R, D, K, cap):
    """-> (tables: per configuration {pos: entry} in dispatch order, lag vectors per configuration index)."""
    outp = os.path.join(ctx.scratch, "leaf-%d-%d-%d.json" % (R, D, K))
    r = ctx.tlc("MCLeaf", extra={"MCLeaf.tla": leaf_mc_module(configs)}, cfg_text=LEAF_CFG % dict(R=R, D=D, K=K, cap=cap),
                env={"OUT": outp}, workers=4, timeout=1800)
    raw = json.load(open(outp))
    tables = []
    for k, conf in enumerate(configs):
        tab = collections.OrderedDict()
        for e in raw["leaves"][k]:
            tab[tuple(e["pos"])] = {"pos": tuple(e["pos"]), "c": [tuple(p) for p in e["c"]], "inc": e["inc"], "grid": e["grid"]}
        if sorted(tab) != sorted(_reached_leaves(conf)):
            ctx.machinery("the harness's reading of configuration %d (leaves %s) differs from TLC's leaf table (%s)" % (k, _reached_leaves(conf), list(tab)))
        tables.append(tab)
    lags = collections.defaultdict(list)
    for rec in r.json_lines("LAG"):
        lags[rec["cfg"] - 1].append(tuple(rec["lag"]))
    for k in lags:
        lags[k] = sorted(set(lags[k]))
    return tables, lags


class _SnapPipe(collections.deque):
    """The pipe of lib/simmp's fake queue, except that what goes in is what the real feeder thread writes: the item's pickle,
    taken when the feeder flushes it.  The worker receives a copy in the state the item had at that moment."""
    made = 0

    def append(self, item):
        _SnapPipe.made += 1
        collections.deque.append(self, pickle.loads(pickle.dumps(item)))


class _SnapQueue(simmp.FakeQueue):
    def __init__(self, maxsize=0):
        simmp.FakeQueue.__init__(self, maxsize)
        self.pipe = _SnapPipe()


def _make_pyramid(mods, conf, cs, cons):
    acc = conf["acc"]

    def flt(tile):
        S = simmp.S
        if S is not None and S.me() is not None:
            simmp.cb_sync("filter", tuple(tile.pos))     # the generator is advancing: a point at which the feeder may run
        if conf["reads"]:
            toastlat.hand_to_consumers(tile, cons)
        return tuple(tile.pos) in acc
    if conf["user"]:
        p = mods["Pyramid"].new_toast_filtered(conf["depth"], flt, coordsys=cs)
    else:
        p = mods["Pyramid"].new_toast(conf["depth"], coordsys=cs)
    if conf["apex"][0] > 0:
        p = p.subpyramid(mods["Pos"](*conf["apex"]))
    return p


def _arrival_digest(mods, pos, tile, K):
    """Runs in the worker: the grid of the tile that arrived, as the worker computes it."""
    d = {"pos": [int(v) for v in pos]}
    try:
        d["tpos"] = [int(v) for v in tile.pos]
        d["corners"] = [[float(p[0]), float(p[1])] for p in tile.corners]
        lons, lats = mods["toast"].toast_tile_get_coords(tile)
        d["shape"] = [int(v) for v in lons.shape]
        d["lon"] = np.asarray(lons, dtype=float)[::SAMPLE_STEP, ::SAMPLE_STEP].tolist()
        d["lat"] = np.asarray(lats, dtype=float)[::SAMPLE_STEP, ::SAMPLE_STEP].tolist()
        d["latmin"], d["latmax"] = float(np.min(lats)), float(np.max(lats))
        c = tile.corners
        sl, sb = mods["subsample"](c[0], c[1], c[2], c[3], 2 ** K, tile.increasing)
        d["slon"], d["slat"] = np.asarray(sl, dtype=float).tolist(), np.asarray(sb, dtype=float).tolist()
    except Exception as e:  # noqa
        d["error"] = repr(e)
    return d


def judge_arrivals(ctx, route, csname, psi, table, R, K, arrivals, rep, worst, gcache):
    """Every tile that arrived: the grid the worker computed from it is the grid of the position it was delivered for."""
    nbad = 0
    for d in arrivals:
        pos = tuple(d["pos"])
        n, x, y = pos
        ctx.count()
        e = table.get(pos)
        if "error" in d:
            nbad += bool(ctx.violation(KEY_ARRIVES, "tile %s delivered to a worker (%s, %s): computing its pixel grid there raised %s" % (pos, route, csname, d["error"]), rep))
            continue
        if tuple(d["tpos"]) != pos:
            nbad += bool(ctx.violation(KEY_ARRIVES, "position %s was delivered to a worker with the tile of position %s (%s, %s)" % (pos, tuple(d["tpos"]), route, csname), rep))
            continue
        if d["shape"] != [256, 256]:
            nbad += bool(ctx.violation("C05:get_coords:shape", "toast_tile_get_coords(%s) in a worker returns arrays of shape %s" % (pos, d["shape"]), rep))
            continue
        cc = np.array(d["corners"])
        cerr = float(np.abs(lattice.lonlat_to_vec(cc[:, 0], cc[:, 1]) - (np.array([psi.vec(p[0], p[1], R) for p in e["c"]]) if e else np.array(psi.corners(n, x, y)))).max())
        gk = (csname, pos)
        if gk not in gcache:
            gcache[gk] = psi.grid(n, x, y, 8)[::SAMPLE_STEP, ::SAMPLE_STEP]
        gerr = float(np.abs(lattice.lonlat_to_vec(np.array(d["lon"]), np.array(d["lat"])) - gcache[gk]).max())
        sexp = np.array([[psi.vec(p[0], p[1], R) for p in row] for row in e["grid"]]) if e else psi.grid(n, x, y, K)
        serr = float(np.abs(lattice.lonlat_to_vec(np.array(d["slon"]), np.array(d["slat"])) - sexp).max())
        worst["arrived"] = max(worst["arrived"], gerr, serr)
        if e:
            ctx.trace_ok()
        if max(gerr, serr) > TOL:
            nbad += bool(ctx.violation(KEY_ARRIVES, "tile %s delivered to a worker (%s, %s): the pixel grid computed there is up to %.2e away from the centres of the level-%d tiles "
                                       "(npix = %d: %.2e); the corners that arrived are %.2e away from the tile's corners" % (pos, route, csname, gerr, n + 8, 2 ** K, serr, cerr), rep))
            continue
        exc = max(d["latmax"] - float(cc[:, 1].max()), float(cc[:, 1].min()) - d["latmin"], 0.0)
        worst["lat-excess"] = max(worst["lat-excess"], exc)
        if exc > 1e-12:
            nbad += bool(ctx.violation("C05:latitude-range", "tile %s delivered to a worker (%s, %s): pixel latitudes leave the corners' latitude range by %.2e rad" % (pos, route, csname, exc), rep))
    return nbad


def lag_controller(rng, want):
    """Schedule policy realising one of TLC's lag vectors: the feeder serialises item i exactly when the generator is `want[i]`
    leaves ahead of it; workers receive whatever is in the pipe as soon as they can; time-outs and idle polling last."""
    box = {"S": None}
    achieved = []

    def choose(en):
        S = box["S"]
        q = S.queues.get("q1") if S is not None else None
        due, head, produced = False, 0, 0
        if q is not None:
            a = S.actors.get("main")
            mpend = a["pending"][0] if (a is not None and a["state"] == "waiting" and a["pending"]) else ()
            nbuf = len(q.buf.get("main", ()))
            head = q.nput - nbuf + 1
            produced = q.nput + (1 if (mpend and mpend[0] == "put") else 0)
            due = nbuf > 0 and (head > len(want) or produced - head >= want[head - 1])
        ranks = []
        for actor, op, outc in en:
            if actor.startswith("feeder:"):
                r = (0 if due else 3) if outc == "flush" else 2
            elif actor == "main" or actor.startswith("main/"):
                r = 4 if outc in simmp.TIMEOUT_OUTCOMES else 2
            elif op[0] == "start":
                r = 1
            elif outc in simmp.TIMEOUT_OUTCOMES:
                r = 4
            else:
                r = 1 if (q is not None and len(q.pipe) > 0) or op[0] not in ("is_set", "rlock", "poll") else 4
            ranks.append(r)
        best = min(ranks)
        i = rng.choice([j for j, r in enumerate(ranks) if r == best])
        if en[i][0].startswith("feeder:") and en[i][2] == "flush":
            achieved.append(produced - head)
        return i
    choose.bind = lambda S: box.__setitem__("S", S)
    choose.achieved = achieved
    return choose


def sim_visit(mods, conf, cs, cons, choose, K):
    """The real visit_leaves(parallel=2) of the configuration's pyramid on the deterministic scheduler."""
    arrivals = []

    def cb(pos, tile):
        arrivals.append(_arrival_digest(mods, pos, tile, K))
    pyr = _make_pyramid(mods, conf, cs, cons)

    def main():
        import multiprocessing as mp
        mp.Queue = _SnapQueue        # restored by simmp.installed() on exit
        pyr.visit_leaves(cb, parallel=2)
    made0 = _SnapPipe.made
    out = simrun.run(main, choose)
    return out, arrivals, _SnapPipe.made - made0


def real_visit(ctx, mods, conf, cs, cons, K):
    """The same with real worker processes: every callback appends its digest to a per-process file."""
    d = ctx.mkdtemp("leafreal")

    def cb(pos, tile):
        rec = _arrival_digest(mods, pos, tile, K)
        with open(os.path.join(d, "log-%d" % os.getpid()), "a") as f:
            f.write(json.dumps(rec) + "\n")
    pyr = _make_pyramid(mods, conf, cs, cons)

    def body():
        with simrun.quiet():
            pyr.visit_leaves(cb, parallel=2)
        return True
    kind, val = guard.run_guarded(body, 180)
    arrivals = []
    for fn in sorted(os.listdir(d)):
        for line in open(os.path.join(d, fn)):
            arrivals.append(json.loads(line))
    return kind, val, arrivals


def check_arrivals(ctx, mods, tabs0, rng, worst, cons, configs, tables, lags, R, K):
    """Routes (a) and (b) of the module docstring for the tile that arrives."""
    q = ctx.quick
    css = toastlat.coordsystems()
    psis = {name: toastlat.psi_for(tabs0, name) for name, _ in css}
    gcache = {}
    setdiff = []
    stats = {"lag_vectors_of_tlc": {}, "lag_vectors_run": 0, "lag_vectors_realised": 0, "policy_runs": 0, "real_process_runs": 0, "arrivals": 0, "snapshots": 0}

    def after_run(conf, k, csname, route, arrivals, status):
        got = [tuple(a["pos"]) for a in arrivals]
        if status != "returned" or sorted(got) != sorted(tables[k]):
            setdiff.append("configuration %d (%s, %s): visit_leaves %s and delivered %d of the %d leaves of TLC's table" % (k, route, csname, status, len(set(got) & set(tables[k])), len(tables[k])))
        stats["arrivals"] += len(arrivals)

    for k, conf in enumerate(configs):
        csname, cs = css[conf["csi"]]
        psi = psis[csname]
        rep = {"depth": conf["depth"], "accept": sorted(conf["acc"]) if conf["user"] else None, "apex": conf["apex"], "cs": csname, "filter_reads_geometry": conf["reads"], "parallel": 2}
        runs = []
        if conf["lags"]:
            vs = lags.get(k, [])
            stats["lag_vectors_of_tlc"][str(k)] = len(vs)
            if not vs:
                ctx.machinery("TLC emitted no lag vector for configuration %d" % k)
            by_sum = sorted(vs, key=lambda v: (sum(v), v))
            pick = [by_sum[0], by_sum[-1]] + rng.sample(vs, min(len(vs), 3 if q else 40))
            seen = set()
            for v in pick:
                if v not in seen:
                    seen.add(v)
                    runs.append(("lag", v))
        for pol in (["starve-feeder"] if q else ["starve-feeder", "random", "workers-last", "main-first", "eager-timeout"]):
            runs.append(("policy", pol))
        if not conf["lags"]:
            runs.append(("policy", "random"))
        for kind, what in runs:
            if kind == "lag":
                choose = lag_controller(rng, what)
                label = "scheduler, feeder lags %s" % (list(what),)
            else:
                choose = simrun.POLICIES[what](rng)
                label = "scheduler, policy %s" % what
            out, arrivals, nsnap = sim_visit(mods, conf, cs, cons, choose, K)
            stats["snapshots"] += nsnap
            if kind == "lag":
                stats["lag_vectors_run"] += 1
                stats["lag_vectors_realised"] += int(tuple(choose.achieved) == tuple(what))
            else:
                stats["policy_runs"] += 1
            after_run(conf, k, csname, label, arrivals, out.status if out.exc is None else "raised %r" % (out.exc,))
            judge_arrivals(ctx, label, csname, psi, tables[k], R, K, arrivals, dict(rep, schedule=[kind, list(what) if kind == "lag" else what]), worst, gcache)
            ctx.distinct(("arrives", k, csname, kind, what))
        if not conf["lags"]:
            for _ in range(1 if q else 4):
                kind, val, arrivals = real_visit(ctx, mods, conf, cs, cons, K)
                stats["real_process_runs"] += 1
                after_run(conf, k, csname, "real processes", arrivals, "returned" if kind == "ok" else "%s %s" % (kind, val))
                judge_arrivals(ctx, "real processes", csname, psi, tables[k], R, K, arrivals, dict(rep, schedule="real processes"), worst, gcache)
                ctx.distinct(("arrives-real", k, csname))
    if setdiff:
        # which leaves are delivered, and that the visit ends, are C03's / C13's sentences
        ctx.drift("parallel leaf visit of a filtered pyramid: " + "; ".join(setdiff[:3]))
    if stats["lag_vectors_run"] and stats["lag_vectors_realised"] * 2 < stats["lag_vectors_run"]:
        ctx.drift("only %d of %d of TLC's feeder-lag vectors could be realised on the real dispatch loop (queue capacity or step structure differ from LeafDelivery)" % (stats["lag_vectors_realised"], stats["lag_vectors_run"]))
    ctx.note("arrivals", stats)
    k0 = next(k for k, c in enumerate(configs) if c["lags"])
    ctx.sample({"filtered_pyramid": {"depth": configs[k0]["depth"], "apex": list(configs[k0]["apex"]), "accept": sorted(configs[k0]["acc"])},
                "leaves_in_dispatch_order": [list(p) for p in tables[k0]], "lag_vectors": len(lags.get(k0, [])), "example_lag_vector": list(lags[k0][len(lags[k0]) // 2])}, force=True)


# ------------------------------------------------------------------------------------------------
# the process environment / which implementation of subsample is active
# ------------------------------------------------------------------------------------------------

_ENV_PATTERNS = [r"environ\.get\(\s*['\"]([A-Za-z_]\w*)['\"]", r"environ\[\s*['\"]([A-Za-z_]\w*)['\"]\s*\]", r"getenv\(\s*['\"]([A-Za-z_]\w*)['\"]",
                 r"['\"]([A-Za-z_]\w*)['\"]\s+(?:not\s+)?in\s+(?:os\.)?environ", r"environ\.setdefault\(\s*['\"]([A-Za-z_]\w*)['\"]", r"environ\.pop\(\s*['\"]([A-Za-z_]\w*)['\"]"]


def env_names(repo_dir):
    """Names of the environment variables the library's source reads (string literals next to os.environ / getenv)."""
    names = {}
    top = os.path.join(repo_dir, "toasty")
    for dp, dns, fns in os.walk(top):
        dns[:] = sorted(d for d in dns if d != "tests")
        for fn in sorted(fns):
            if not fn.endswith((".py", ".pyx")):
                continue
            try:
                text = open(os.path.join(dp, fn), errors="replace").read()
            except OSError:
                continue
            for pat in _ENV_PATTERNS:
                for m in re.finditer(pat, text):
                    names.setdefault(m.group(1), os.path.relpath(os.path.join(dp, fn), repo_dir))
    return names


def grid_index(npix):
    return list(range(npix)) if npix <= 16 else list(range(0, npix, npix // 16)) + [npix - 1]


_CHILD_SRC = r'''
import json, os, sys
repo_dir, so_path, noext, out_npy, out_json, cases_json = sys.argv[1:7]
st = {"status": "ok", "errors": [], "impl": None}


def finish():
    with open(out_json, "w") as f:
        json.dump(st, f)
    sys.exit(0)


sys.path.insert(0, repo_dir)
import numpy as np
try:
    import toasty
    if not os.path.abspath(toasty.__file__).startswith(os.path.abspath(repo_dir)):
        st["status"] = "wrong-tree"
        finish()
    if noext == "1":
        sys.modules["toasty._libtoasty"] = None
    elif so_path and os.path.dirname(os.path.abspath(so_path)) != os.path.join(os.path.abspath(repo_dir), "toasty"):
        import importlib.machinery, importlib.util
        loader = importlib.machinery.ExtensionFileLoader("toasty._libtoasty", so_path)
        spec = importlib.util.spec_from_loader("toasty._libtoasty", loader)
        mod = importlib.util.module_from_spec(spec)
        loader.exec_module(mod)
        sys.modules["toasty._libtoasty"] = mod
        toasty._libtoasty = mod
    from toasty import toast
    from toasty.pyramid import Pos
except ImportError as e:
    st["status"] = "import-error"
    st["detail"] = repr(e)
    finish()


def grid_index(npix):
    return list(range(npix)) if npix <= 16 else list(range(0, npix, npix // 16)) + [npix - 1]


sub = getattr(toast, "subsample", None)
st["impl"] = "%s.%s" % (getattr(sub, "__module__", None), getattr(sub, "__name__", None)) if sub is not None else None
out = []
for ci, (csname, n, x, y) in enumerate(json.load(open(cases_json))):
    cs = toast.ToastCoordinateSystem.PLANETARY if csname == "planetary" else toast.ToastCoordinateSystem.ASTRONOMICAL
    tile = None
    try:
        tile = toast.create_single_tile(Pos(n, x, y), coordsys=cs)
    except Exception as e:
        st["errors"].append([ci, 0, repr(e)])
    for k in range(1, 9):
        npix = 2 ** k
        idx = np.array(grid_index(npix))
        m = len(idx)
        blk = np.full(2 * m * m + (4 if k == 8 else 0), np.nan)
        try:
            if tile is not None and (k == 8 or sub is not None):
                if k == 8:
                    lons, lats = toast.toast_tile_get_coords(tile)
                else:
                    c = tile.corners
                    lons, lats = sub(c[0], c[1], c[2], c[3], npix, tile.increasing)
                lons, lats = np.asarray(lons, dtype=float), np.asarray(lats, dtype=float)
                if lons.shape != (npix, npix) or lats.shape != (npix, npix):
                    st["errors"].append([ci, k, "shape %s" % (lons.shape,)])
                else:
                    blk[:m * m] = lons[np.ix_(idx, idx)].ravel()
                    blk[m * m:2 * m * m] = lats[np.ix_(idx, idx)].ravel()
                    if k == 8:
                        clat = [float(p[1]) for p in tile.corners]
                        blk[2 * m * m:] = [lats.min(), lats.max(), min(clat), max(clat)]
        except Exception as e:
            st["errors"].append([ci, k, repr(e)])
        out.append(blk)
np.save(out_npy, np.concatenate(out))
finish()
'''


def env_cases(rng):
    """Stratified: every level-1 tile, and at levels 2 and 3 one tile per level-1 quadrant (both diagonal orientations), in both
    coordinate systems."""
    cases = []
    for csname in ("astronomical", "planetary"):
        cases += [(csname,) + t for t in L1]
        for n in (2, 3):
            h = 2 ** (n - 1)
            for (_one, qx, qy) in L1:
                cases.append((csname, n, qx * h + rng.randrange(h), qy * h + rng.randrange(h)))
    return cases


def launch_env_children(ctx, rng):
    """One child interpreter per configuration; they run while TLC and the other routes do."""
    from lib.core import REPO
    d = ctx.mkdtemp("env")
    script = os.path.join(d, "child.py")
    with open(script, "w") as f:
        f.write(_CHILD_SRC)
    cases = env_cases(rng)
    cases_path = os.path.join(d, "cases.json")
    with open(cases_path, "w") as f:
        json.dump(cases, f)
    names = env_names(REPO)
    chosen = sorted(names)
    cap = 4 if ctx.quick else 12
    if len(chosen) > cap:
        chosen = sorted(rng.sample(chosen, cap))
    so_path = getattr(sys.modules.get("toasty._libtoasty"), "__file__", "") or ""
    confs = [("%s=1" % nm, {nm: "1"}, False) for nm in chosen] + [("toasty._libtoasty cannot be imported", {}, True)]
    kids = []
    for i, (label, envadd, noext) in enumerate(confs):
        e = dict(os.environ)
        e.update(envadd)
        base = os.path.join(d, "cfg%d" % i)
        p = subprocess.Popen([sys.executable, script, REPO, so_path, "1" if noext else "0", base + ".npy", base + ".json", cases_path],
                             env=e, stdout=subprocess.PIPE, stderr=subprocess.STDOUT, cwd=d)
        kids.append((label, noext, p, base))
    return {"cases": cases, "kids": kids, "names": names}


def judge_env_children(ctx, launched, tabs, worst):
    cases = launched["cases"]
    psis = {"astronomical": toastlat.psi_for(tabs[0], "astronomical"), "planetary": toastlat.psi_for(tabs[0], "planetary")}
    # expected blocks, case by case and npix by npix: TLC's emitted grid where a table with that K holds the tile, else the
    # theorem's right-hand side through psi
    expected = []
    from_tlc = 0
    for (csname, n, x, y) in cases:
        psi = psis[csname]
        for k in range(1, 9):
            idx = np.array(grid_index(2 ** k))
            g = None
            for t in tabs:
                if t.K == k:
                    for e in t.sub:
                        if e["pos"] == (n, x, y):
                            g = np.array([[psi.vec(p[0], p[1], t.R) for p in row] for row in e["grid"]])
                            from_tlc += 1
            if g is None:
                g = psi.grid(n, x, y, k)
            expected.append(g[np.ix_(idx, idx)])
    summary = {}
    for label, noext, p, base in launched["kids"]:
        try:
            outtxt, _ = p.communicate(timeout=900)
        except subprocess.TimeoutExpired:
            p.kill()
            outtxt, _ = p.communicate()
            ctx.drift("environment configuration '%s': the child interpreter did not finish" % label)
            continue
        if not os.path.exists(base + ".json"):
            ctx.drift("environment configuration '%s': the child interpreter ended (status %s) without a result: %s" % (label, p.returncode, (outtxt or b"")[-300:]))
            continue
        st = json.load(open(base + ".json"))
        summary[label] = {"status": st["status"], "subsample": st.get("impl"), "detail": st.get("detail")}
        if st["status"] == "import-error":
            if not noext:
                ctx.drift("environment configuration '%s': the library does not import: %s" % (label, st.get("detail")))
            continue      # without its extension the library refuses to load: nothing is reported, nothing to judge
        if st["status"] != "ok":
            ctx.machinery("environment configuration '%s': child reports %s" % (label, st["status"]))
        if st["errors"]:
            ctx.drift("environment configuration '%s': %d grid requests raised, e.g. %s" % (label, len(st["errors"]), st["errors"][0]))
        vec = np.load(base + ".npy")
        off = 0
        bi = 0
        first = None
        nbad = 0
        for ci, (csname, n, x, y) in enumerate(cases):
            for k in range(1, 9):
                m = len(grid_index(2 ** k))
                lon, lat = vec[off:off + m * m].reshape(m, m), vec[off + m * m:off + 2 * m * m].reshape(m, m)
                off += 2 * m * m
                extra = None
                if k == 8:
                    extra = vec[off:off + 4]
                    off += 4
                exp = expected[bi]
                bi += 1
                if np.isnan(lon).any() or np.isnan(lat).any():
                    continue
                ctx.count()
                ctx.distinct(("env", label, csname, (n, x, y), 2 ** k))
                err = float(np.abs(lattice.lonlat_to_vec(lon, lat) - exp).max())
                worst["environment"] = max(worst["environment"], err)
                if err > TOL:
                    nbad += 1
                    if first is None:
                        first = (csname, (n, x, y), 2 ** k, err)
                elif extra is not None and not np.isnan(extra).any():
                    exc = max(float(extra[1] - extra[3]), float(extra[2] - extra[0]), 0.0)
                    if exc > 1e-12:
                        ctx.violation("C05:environment:latitude-range", "with %s, tile %s [%s]: pixel latitudes leave the corners' latitude range by %.2e rad" % (label, (n, x, y), csname, exc),
                                      {"configuration": label, "pos": (n, x, y), "cs": csname})
        if off != len(vec):
            ctx.machinery("environment configuration '%s': result vector has %d values, layout expects %d" % (label, len(vec), off))
        summary[label]["grids_off"] = nbad
        if first is not None:
            csname, pos, npix, err = first
            ctx.violation(KEY_ENV, "with %s (subsample = %s): %d of the %d grids requested are not the centres of the deeper tiles, e.g. tile %s [%s, %s diagonal], npix = %d: up to %.2e away "
                          "from the centres of the level-%d tiles" % (label, st.get("impl"), nbad, bi, pos, csname, "increasing" if lattice.inc(*pos) else "decreasing", npix, err, pos[0] + int(np.log2(npix))),
                          {"configuration": label, "pos": pos, "cs": csname, "npix": npix})
    ctx.note("environment", {"variables_read_by_the_library": launched["names"], "configurations": summary, "cases": len(cases), "blocks_expected_from_tlc_tables": from_tlc})


def run(ctx):
    repo.setup(ctx)
    from toasty import toast
    from toasty._libtoasty import subsample
    from toasty.pyramid import Pos
    q = ctx.quick
    ctx.rule = ("tiles x pixels: TLC emits the K = 1..3 sub-sample grids of every tile of the bounded lattice; all 65536 pixels of every tile to depth 2 plus seeded deeper "
                "tiles are compared with the spec's right-hand side; distinct = distinct (coordinate system, tile, npix); every case is non-trivial. "
                "Tiles that arrive: seeded filtered pyramids (tile filter and / or sub-pyramid, depth 2-3) are handed to TLC, which emits their leaf tables and the reachable "
                "feeder-lag vectors of the dispatch; the real visit_leaves(parallel=2) is driven through the extreme and seeded lag vectors, adversarial policies and real "
                "processes; distinct = (configuration, coordinate system, schedule). Environment: one child interpreter per variable the library's source reads, and one without "
                "the compiled extension; distinct = (configuration, coordinate system, tile, npix)")
    runs = [(5, 3, 1), (6, 2, 3)] if q else [(5, 3, 1), (6, 3, 2), (7, 3, 3)]
    # the new routes draw from their own generator, so that the tiles and pixels sampled below stay what they were
    rng2 = random.Random(ctx.seed * 7919 + 5)
    children = launch_env_children(ctx, rng2)
    lconfigs = leaf_configs(ctx, rng2)
    LR, LD, LK = (5, 3, 1) if q else (6, 3, 2)
    # the TLC runs are independent of each other: side by side
    with concurrent.futures.ThreadPoolExecutor(max_workers=3) as ex:
        futs = [ex.submit(toastlat.run_tlc, ctx, R, D, K) for (R, D, K) in runs]
        lfut = ex.submit(run_leaf_tlc, ctx, lconfigs, LR, LD, LK, 4)
        tabs = [f.result() for f in futs]
        ltables, llags = lfut.result()
    worst = {"small": 0.0, "grid256": 0.0, "deeper-tile": 0.0, "lat-excess": 0.0, "outside": 0.0, "arrived": 0.0, "environment": 0.0}
    cons = toastlat.library_consumers()
    for csname, cs in toastlat.coordsystems():
        psi = toastlat.psi_for(tabs[0], csname)
        # ---- npix = 2, 4, 8 against TLC's grids
        for t in tabs:
            npix = 2 ** t.K
            for e in t.sub:
                n, x, y = e["pos"]
                tile = toast.create_single_tile(Pos(n, x, y), coordsys=cs)
                lons, lats = subsample(tile.corners[0], tile.corners[1], tile.corners[2], tile.corners[3], npix, tile.increasing)
                real = lattice.lonlat_to_vec(lons, lats)
                exp = np.array([[psi.vec(p[0], p[1], t.R) for p in row] for row in e["grid"]])
                err = float(np.abs(real - exp).max())
                worst["small"] = max(worst["small"], err)
                ctx.count()
                ctx.trace_ok()
                ctx.distinct((csname, e["pos"], npix))
                if err > TOL:
                    r, c = np.unravel_index(np.argmax(np.abs(real - exp).max(axis=-1)), (npix, npix))
                    ctx.violation("C05:subsample:small-grid", "subsample(npix=%d) of tile %s [%s]: pixel (row %d, col %d) is %.2e away from the centre of tile (%d, %d, %d)"
                                  % (npix, e["pos"], csname, r, c, err, n + t.K, npix * x + c, npix * y + r), {"pos": e["pos"], "cs": csname, "npix": npix})
        # ---- the whole-sphere tile (level 0): pixel (i, j) is the centre of tile (8, j, i) - four level-1 grids side by side
        try:
            l0, t0 = toast.toast_tile_get_coords(toast.Tile(Pos(0, 0, 0), (None, None, None, None), False), coordsys=cs)
            real0 = lattice.lonlat_to_vec(l0, t0)
            exp0 = np.concatenate([np.concatenate([psi.grid(1, 0, 0, 7), psi.grid(1, 1, 0, 7)], axis=1),
                                   np.concatenate([psi.grid(1, 0, 1, 7), psi.grid(1, 1, 1, 7)], axis=1)], axis=0)
            d0 = np.abs(real0 - exp0).max(axis=-1)
            ctx.count()
            ctx.distinct((csname, (0, 0, 0), 256))
            worst["grid256"] = max(worst["grid256"], float(d0.max()))
            if float(d0.max()) > TOL:
                r, c = np.unravel_index(np.argmax(d0), d0.shape)
                ctx.violation("C05:get_coords:level0", "level-0 tile [%s]: pixel (row %d, col %d) is %.2e away from the centre of tile (8, %d, %d)" % (csname, r, c, float(d0.max()), c, r), {"cs": csname})
        except Exception as e:  # noqa
            ctx.violation("C05:get_coords:level0", "toast_tile_get_coords of the level-0 tile [%s] raised %r" % (csname, e), {"cs": csname})
        # ---- npix = 256
        tiles = [(n, x, y) for n in (1, 2) for y in range(2 ** n) for x in range(2 ** n)]
        if q:
            tiles = tiles[:4] + [tiles[i] for i in (4, 7, 9, 14, 19)]
        for _ in range(4 if q else 40):
            n = ctx.rng.randint(3, 12)
            tiles.append((n, ctx.rng.randrange(2 ** n), ctx.rng.randrange(2 ** n)))
        for (n, x, y) in tiles:
            tile = toast.create_single_tile(Pos(n, x, y), coordsys=cs)
            # the tile is first shown to the library's own footprint filters and area function, as in a filtered sampling
            # run: the grid asked for afterwards is still the grid of this tile
            toastlat.hand_to_consumers(tile, cons)
            # ... and to the library's other user of this grid, the pixel lookup (for a point inside this tile), before and
            # between the requests: what the lookup does with the grid must not show in what get_coords reports
            cvec = psi.centre(n, x, y)
            clon, clat = (float(v_) for v_ in lattice.vec_to_lonlat(cvec))
            try:
                toast.toast_pixel_for_point(n, clat, clon, coordsys=cs)
            except Exception:  # noqa - the lookup's own correctness is C12's subject
                pass
            lons, lats = toast.toast_tile_get_coords(tile)
            ctx.count()
            ctx.distinct((csname, (n, x, y), 256))
            if lons.shape != (256, 256) or lats.shape != (256, 256):
                ctx.violation("C05:get_coords:shape", "toast_tile_get_coords(%s) returns arrays of shape %s" % ((n, x, y), lons.shape), {"pos": (n, x, y)})
                continue
            real = lattice.lonlat_to_vec(lons, lats)
            exp = psi.grid(n, x, y, 8)
            d = np.abs(real - exp).max(axis=-1)
            err = float(d.max())
            worst["grid256"] = max(worst["grid256"], err)
            if err > TOL:
                r, c = np.unravel_index(np.argmax(d), d.shape)
                ctx.violation("C05:get_coords:pixel-centres", "tile %s [%s]: pixel (row %d, col %d) is %.2e away from the centre of tile (%d, %d, %d)"
                              % ((n, x, y), csname, r, c, err, n + 8, 256 * x + c, 256 * y + r), {"pos": (n, x, y), "cs": csname, "row": int(r), "col": int(c)})
            # the same pixel through the real tile eight levels deeper
            for _k in range(6 if q else 40):
                r, c = ctx.rng.randrange(256), ctx.rng.randrange(256)
                deep = toast.create_single_tile(Pos(n + 8, 256 * x + c, 256 * y + r), coordsys=cs)
                a, b = (deep.corners[3], deep.corners[1]) if deep.increasing else (deep.corners[0], deep.corners[2])
                va = lattice.lonlat_to_vec(a[0], a[1])
                vb = lattice.lonlat_to_vec(b[0], b[1])
                cen = (va + vb) / np.linalg.norm(va + vb)
                e2 = float(np.abs(real[r, c] - cen).max())
                worst["deeper-tile"] = max(worst["deeper-tile"], e2)
                ctx.count()
                if e2 > TOL:
                    ctx.violation("C05:get_coords:vs-deeper-tile", "tile %s [%s] pixel (row %d, col %d) differs by %.2e from the centre of the real tile %s"
                                  % ((n, x, y), csname, r, c, e2, tuple(deep.pos)), {"pos": (n, x, y), "cs": csname})
                    break
            # every pixel centre lies inside its tile, within the latitude range spanned by the corners
            clat = np.array([float(p[1]) for p in tile.corners])
            exc = max(float(lats.max() - clat.max()), float(clat.min() - lats.min()), 0.0)
            worst["lat-excess"] = max(worst["lat-excess"], exc)
            if exc > 1e-12:
                ctx.violation("C05:latitude-range", "tile %s [%s]: pixel latitudes leave the corners' latitude range by %.2e rad" % ((n, x, y), csname, exc), {"pos": (n, x, y), "cs": csname})
            cv = toastlat.tile_vecs(tile)
            out = 0.0
            for k in range(4):
                nrm = np.cross(cv[k], cv[(k + 1) % 4])
                out = min(out, float((real @ nrm).min()))
            worst["outside"] = max(worst["outside"], -out)
            if out < -1e-12:
                ctx.violation("C05:inside-tile", "tile %s [%s]: a pixel centre lies %.2e outside the tile's edges" % ((n, x, y), csname, -out), {"pos": (n, x, y), "cs": csname})
    # ---- the tile that arrives at a worker of a parallel leaf visit of a filtered pyramid
    from toasty.pyramid import Pyramid
    mods = {"toast": toast, "subsample": getattr(toast, "subsample", subsample), "Pyramid": Pyramid, "Pos": Pos}
    check_arrivals(ctx, mods, tabs[0], rng2, worst, cons, lconfigs, ltables, llags, LR, LK)
    # ---- the process environment
    judge_env_children(ctx, children, tabs, worst)
    ctx.note("worst_deviation", worst)
    e = tabs[0].sub[len(tabs[0].sub) // 2]
    ctx.sample({"tile": list(e["pos"]), "K": tabs[0].K, "R": tabs[0].R, "grid_lattice_points": e["grid"]})
    ctx.assume("normalize(a + b) is the great-circle midpoint; lib/lattice.Psi.grid (vectorised) is cross-checked against the scalar recursion on every run of C04")
    ctx.assume("the compiled toasty._libtoasty is what is exercised; the .pyx cannot be rebuilt here (no Cython)")
    ctx.assume("multiprocessing.Queue behaves like lib/simmp.py's fake one, with the item pickled when the feeder flushes it (CPython 3.12 Queue._feed); the real-process runs sample that")
    ctx.assume("the environment variables the library reads are spelled as string literals next to os.environ / getenv in its source")
