"""G03 (growth, DESIGN section 7) - resolve_parallelism decision table.

spec/ParDecision.tla transcribes par_util.resolve_parallelism and states its contract (positive result, no fork =>
serial, explicit request honoured, default = SLURM allocation else CPU count); TLC walks the whole configuration
space checking the contract in every state and emits the expected answer for every configuration; the real
function is run for each with the start method, environment and cpu_count substituted."""
import json
import os

from lib import repo, tla


def run(ctx):
    repo.setup(ctx)
    from toasty import par_util
    import multiprocessing as mp
    ctx.rule = "every (request, start method, SLURM_NPROCS, cpu_count) configuration of the enumerated space; distinct = configurations; all are non-trivial"
    reqs = [99999, -3, 0, 1, 2, 5, 64]
    slurms = [-1, -2, 0, 1, 4, 17]
    cpus = [1, 2, 16]
    defs = [("MCReq", "{" + ", ".join(str(r) for r in reqs) + "}"), ("MCSlurm", "{" + ", ".join(str(r) for r in slurms) + "}"),
            ("MCCpus", tla.lit(set(cpus))),
            'Emit == PrintT(<<"P", ToJson([req |-> req, fork |-> fork, slurm |-> slurm, cpus |-> cpus, r |-> R])>>)']
    cfg = ("SPECIFICATION Spec\nCONSTANTS\n Requests <- MCReq\n Slurms <- MCSlurm\n CpuCounts <- MCCpus\nINVARIANT Positive\nINVARIANT NoForkMeansSerial\n"
           "INVARIANT ExplicitHonoured\nINVARIANT NonPositiveIsSerial\nINVARIANT DefaultUsesAllocation\nINVARIANT DefaultUsesCpus\nINVARIANT Emit\n"
           "PROPERTY LosingForkSerialises\nCHECK_DEADLOCK FALSE\n")
    r = ctx.tlc("MCPar", extra={"MCPar.tla": tla.module("MCPar", ["ParDecision", "Json"], defs)}, cfg_text=cfg, workers=4, timeout=300)
    recs = r.json_lines("P")
    seen = set()
    saved = (mp.get_start_method, os.cpu_count, par_util.SHOW_INFORMATIONAL_MESSAGES, os.environ.get("SLURM_NPROCS"))
    par_util.SHOW_INFORMATIONAL_MESSAGES = False
    import io
    import contextlib
    try:
        for rec in recs:
            key = (rec["req"], rec["fork"], rec["slurm"], rec["cpus"])
            if key in seen:
                continue
            seen.add(key)
            mp.get_start_method = (lambda f=rec["fork"]: "fork" if f else "spawn")
            par_util.mp.get_start_method = mp.get_start_method
            os.cpu_count = (lambda c=rec["cpus"]: c)
            if rec["slurm"] == -1:
                os.environ.pop("SLURM_NPROCS", None)
            elif rec["slurm"] == -2:
                os.environ["SLURM_NPROCS"] = "lots"
            else:
                os.environ["SLURM_NPROCS"] = str(rec["slurm"])
            arg = None if rec["req"] == 99999 else rec["req"]
            ctx.count()
            ctx.trace_ok()
            ctx.distinct(key)
            try:
                with contextlib.redirect_stderr(io.StringIO()), contextlib.redirect_stdout(io.StringIO()):
                    got = par_util.resolve_parallelism(arg)
            except Exception as e:  # noqa
                ctx.violation("G03:resolve_parallelism:raises", "resolve_parallelism(%r) raised %r for %s" % (arg, e, rec), rec)
                continue
            if got != rec["r"]:
                ctx.violation("G03:resolve_parallelism:answer", "resolve_parallelism(%r) = %r, specified %r for %s" % (arg, got, rec["r"], rec), rec)
    finally:
        mp.get_start_method, os.cpu_count, par_util.SHOW_INFORMATIONAL_MESSAGES = saved[0], saved[1], saved[2]
        par_util.mp.get_start_method = saved[0]
        if saved[3] is None:
            os.environ.pop("SLURM_NPROCS", None)
        else:
            os.environ["SLURM_NPROCS"] = saved[3]
    ctx.exhaustive = True
    ctx.sample(recs[len(recs) // 2])
    ctx.sample(recs[3])
