"""C02 - cascade output: every parent tile is the 2x2 downsample of its children mosaic.

Spec: spec/Cascade.tla (+ spec/MCCascade.tla: TLC-enumerated families and the JSON emitter).  The machine works on
tiles as stored (file rows, the code's two slice tables, one Merge(pos) at a time in ANY order that respects
children-before-parents, stale parent files in the start directory); Final(c) is the property's sentence in display
orientation.  TLC explores every admissible merge order of every case and checks DoneRight (every order yields
exactly the display-sentence pyramid: serial = parallel, slice tables = display sentence, stale files replaced),
ExistenceRule / ExistsIffDataBelow, NeverStoredUndefined, RangeRule (C14), Progress, SerialAdmitted, MergeCommutes.

Binding (spec -> code, M4 + M5): the terminal state of every case is emitted (the leaves as handed to the writer in
the format's row order, the start directory, the final directory with exact rational / integer-interval pixels and
recorded ranges).  The harness lifts the abstract T x T leaves to real 256 x 256 tiles (leaf pixel (r, c) = abstract
[r mod T][c mod T]; a tile h levels above the leaves is indexed by the top h bits and the low log2(T) - h bits of r;
under this map the real merge commutes exactly with the abstract one for h <= log2 T), writes them with the real
PyramidIO in fits (bottom-up), npy, png, jpg, runs the real cascade_images / `toasty cascade` entry point / TOAST
filtered cascade with parallel = 1 and with real worker processes (2, 3), reads every produced file back with
numpy / astropy / PIL (not with toasty) and compares the tile SET and every pixel with TLC's expectation.
All expected values come out of TLC; Python only enumerates inputs and maps abstract values to dtypes.
"""
import contextlib
import glob
import itertools
import os
import shutil
import signal
import sys
import tempfile

from lib import repo, tla

TILE = 256

# (format, dtype tag) -> mode class of the spec
CONFIGS = {
    ("fits", "f4"): "Float", ("fits", "f8"): "Float", ("npy", "f4"): "Float", ("npy", "f8"): "Float",
    ("fits", "i2"): "Int", ("fits", "i4"): "Int", ("npy", "u1"): "Int", ("npy", "i2"): "Int", ("npy", "i4"): "Int",
    ("png", "rgba"): "Colour", ("png", "rgb"): "Colour", ("jpg", "rgb"): "Colour",
}
INT_MAX = {"u1": 255, "i2": 32767, "i4": 2147483647}
# int32 values above 2^24 (a float32 intermediate would lose counts there) next to small ones
I4_EXTRA = [16777217, 33554433, 1000000007, 1999999999, 2147483646]
FLOAT_VALUES = [-1000, -7, -1, 0, 1, 2, 3, 5, 10, 1000]
JPG_TOL = 12


def np_dtype(tag):
    import numpy as np
    return {"f4": np.float32, "f8": np.float64, "u1": np.uint8, "i2": np.int16, "i4": np.int32,
            "rgba": np.uint8, "rgb": np.uint8}[tag]


# ------------------------------------------------------------------------------------------------
# positions
# ------------------------------------------------------------------------------------------------

def level(n):
    return [(n, x, y) for y in range(2 ** n) for x in range(2 ** n)]


def kids(p):
    n, x, y = p
    return [(n + 1, 2 * x + (i % 2), 2 * y + (i // 2)) for i in range(4)]


def ancestor(p, n):
    return (n, p[1] >> (p[0] - n), p[2] >> (p[0] - n))


# ------------------------------------------------------------------------------------------------
# case generation: INPUTS only (leaf populations, leaf pixel values, stale positions, live sets)
# ------------------------------------------------------------------------------------------------

def _leaf_matrix(rng, T, mode, dtag, values, style, infs=None):
    """A T x T matrix of leaf pixel values: () = undefined (Float only), else a tuple of channel values."""
    def undefined():
        return () if mode == "Float" else ((0,) if mode == "Int" else (0, 0, 0, 0))

    def defined():
        if mode == "Colour":
            col = tuple(rng.choice(values) for _ in range(3))
            a = 255 if dtag == "rgb" else rng.choice([255, 255, 255, 128, 64, 16 if T <= 4 else 64])
            return col + (a,)
        return (rng.choice(values),)
    cells = [(r, c) for r in range(T) for c in range(T)]
    if style == "full" or dtag == "rgb":
        und = set()
    elif style == "allu":
        und = set(cells)            # Int: an all-zero tile - a stored value like any other, the tile must be kept
    elif style == "one":
        und = set(cells) - {rng.choice(cells)}
    elif style == "row":
        keep = rng.randrange(T)
        und = set(q for q in cells if (q[0] != keep if rng.random() < 0.5 else q[1] != keep))
    elif style == "const":
        und = set()
    else:
        pu = rng.choice([0.15, 0.4, 0.7])
        und = set(q for q in cells if rng.random() < pu)
    if style == "const":
        v = defined()
        return tuple(tuple(v for _ in range(T)) for _ in range(T))
    m = tuple(tuple(undefined() if (r, c) in und else defined() for c in range(T)) for r in range(T))
    if infs and mode == "Float":
        # +inf / -inf are DEFINED values: "p" some +inf, "n" some -inf, "both" both signs, "only" every defined pixel
        # infinite (one sign per leaf)
        sign = rng.choice([1, -1])

        def swap(px):
            if px == ():
                return px
            if infs == "only":
                return (sign, 0)
            if rng.random() < 0.3:
                return ({"p": 1, "n": -1}.get(infs) or rng.choice([1, -1]), 0)
            return px
        m = tuple(tuple(swap(px) for px in row) for row in m)
    return m


def _groups(T, s):
    """Top-left corners of the aligned 2^s x 2^s groups of a T x T matrix (s = 1: the 2x2 blocks of one reduction)."""
    g = 2 ** s
    return [(r0, c0) for r0 in range(0, T, g) for c0 in range(0, T, g)]


def _vanish_matrix(rng, T, values, s=1):
    """Float: undefined everywhere except in some aligned 2^s x 2^s groups that hold +inf all over one quarter and -inf all
    over another (s = 1: the quarters are single pixels of one 2x2 block); the other two quarters are undefined or finite.
    After s reductions every such group is one pixel with both infinities among its four inputs: no mean, undefined."""
    m = [[() for _ in range(T)] for _ in range(T)]
    h = 2 ** (s - 1)
    gs = _groups(T, s)
    for r0, c0 in rng.sample(gs, rng.randint(1, max(1, len(gs) // 2))):
        quarters = [(r0 + i * h, c0 + j * h) for i in range(2) for j in range(2)]
        rng.shuffle(quarters)
        fill = [(1, 0), (-1, 0), None, None]
        for (qr, qc), v in zip(quarters, fill):
            w = v if v is not None else (((rng.choice(values),) if rng.random() < 0.5 else ()))
            for r in range(qr, qr + h):
                for c in range(qc, qc + h):
                    m[r][c] = w
    return tuple(tuple(row) for row in m)


def _faint_matrix(rng, T, strong=None):
    """Colour with alpha: transparent everywhere except for faint pixels, at most three units of alpha per 2x2 block (one
    pixel of alpha 1-3, or two / three pixels sharing them): the block's mean alpha is below 1.  With `strong` (a matrix),
    the faint pixels are added to the blocks of that matrix that are entirely transparent, and a few blocks get alphas
    that sum to 4-6 (a mean of at least 1: surely defined)."""
    m = [[(0, 0, 0, 0) for _ in range(T)] for _ in range(T)] if strong is None else [list(row) for row in strong]
    blocks = [b for b in _groups(T, 1) if all(m[b[0] + i][b[1] + j][3] == 0 for i in range(2) for j in range(2))]
    if not blocks:
        return tuple(tuple(row) for row in m)
    for r0, c0 in rng.sample(blocks, rng.randint(1, len(blocks))):
        units = rng.randint(1, 3) if (strong is None or rng.random() < 0.7) else rng.randint(4, 6)
        cells = [(r0 + i, c0 + j) for i in range(2) for j in range(2)]
        rng.shuffle(cells)
        while units > 0:
            r, c = cells.pop()
            a = units if (not cells or rng.random() < 0.5) else rng.randint(1, units)
            a = min(a, 3)
            m[r][c] = (rng.randint(0, 255), rng.randint(0, 255), rng.randint(0, 255), a)
            units -= a
    return tuple(tuple(row) for row in m)


def _peaks_matrix(rng, T, mode, values, hi, lo):
    """Every pixel defined, mid values; the leaf's maximum `hi` (and, Float, its minimum `lo`) on single pixels whose three
    block neighbours hold mid values: 2x2 averaging dilutes both extremes at the first reduction.  -> (matrix, peak cells)"""
    m = [[(rng.choice(values),) for _ in range(T)] for _ in range(T)]
    b = rng.sample(_groups(T, 1), 2)
    peaks = []
    for (r0, c0), v in zip(b, [hi, lo]):
        if v is None:
            continue
        r, c = r0 + rng.randrange(2), c0 + rng.randrange(2)
        m[r][c] = (v,)
        peaks.append((r, c))
    return tuple(tuple(row) for row in m), peaks


def _is_allu(m, mode):
    if mode == "Float":
        return all(px == () for row in m for px in row)
    if mode == "Colour":
        return all(px[3] == 0 for row in m for px in row)
    return False


def make_case(rng, cid, T, depth, fmt, dtag, run="serial", pleaf=None, stale_p=0.3, keepu=None, shape=None, rewrite_p=None):
    mode = CONFIGS[(fmt, dtag)]
    floor = 4 ** depth
    if mode == "Float" and shape == "zero-min":        # non-negative data whose minimum is exactly 0
        values = [0, 2, 3, 5, 10]
    elif mode == "Float" and shape == "zero-max":      # non-positive data whose maximum is exactly 0
        values = [-1000, -7, -3, -1, 0]
    elif mode == "Float":
        values = rng.sample(FLOAT_VALUES, rng.randint(2, 5))
    elif mode == "Int" and (shape == "int-low" or rng.random() < 0.2):
        values = [1, 1, 2, 3]          # low counts: most 2x2 blocks sum to less than 4, the parent is zero almost everywhere
    elif mode == "Int":
        top = INT_MAX[dtag]
        values = sorted(set([1, floor, floor + 1, top] + [rng.randint(floor, top) for _ in range(3)] + [rng.randint(floor, 255)]
                            + (rng.sample(I4_EXTRA, 3) if dtag == "i4" else [])))
    else:
        values = [0, floor, floor + 1, 255] + [rng.randint(floor, 255) for _ in range(4)]
    can_u = mode != "Int" and dtag != "rgb"
    if keepu is None:
        keepu = can_u and rng.random() < 0.3
    leaves = {}
    all_leaves = level(depth)
    if pleaf is None:
        pleaf = rng.choice([0.25, 0.5, 0.8, 1.0])
    inf_classes = []
    if run.startswith("decim"):
        # a custom merger following the Merger Protocol (decimation: a VIEW of its input).  Every leaf is one constant,
        # fully defined value, so that any block reduction - mean or pick - gives the same tile at every level
        keepu = False
    elif mode == "Float" and (shape == "inf-mix" or rng.random() < 0.25):
        inf_classes = ["p", "n", "both", "only"] if shape == "inf-mix" else [rng.choice(["p", "n", "both", "only"]), None]
    if shape == "inf-mix":
        pleaf = max(pleaf, 0.6)
    for l in all_leaves:
        if rng.random() >= pleaf:
            continue
        if fmt == "jpg" or run.startswith("decim"):
            style = "const"
        else:
            style = rng.choice(["rand", "rand", "rand", "full", "one", "row"] + (["allu"] if (can_u or mode == "Int") else []))
        infs = inf_classes[len(leaves) % len(inf_classes)] if inf_classes else None
        leaves[l] = _leaf_matrix(rng, T, mode, dtag, values, style, infs)
    if shape == "full-then-sparse" and depth >= 1:
        # the first parent in walk order gets four full children, the next ones sparse / partly undefined ones:
        # a merge buffer that is not cleared between merges shows through
        first = level(depth - 1)[0]
        for k in kids(first):
            leaves[k] = _leaf_matrix(rng, T, mode, dtag, values, "const" if fmt == "jpg" else "full")
        for par in level(depth - 1)[1:]:
            ks = kids(par)
            for k in ks:
                leaves.pop(k, None)
            k = rng.choice(ks)
            leaves[k] = _leaf_matrix(rng, T, mode, dtag, values, "const" if fmt == "jpg" else ("rand" if can_u else "full"))
    if shape == "full-then-four-partial" and depth >= 2 and can_u:
        # the first parent in walk order is fully defined; every later parent has all FOUR children, each with undefined
        # pixels: whatever the previous merge left in the buffer must not show through them
        pars = level(depth - 1)
        for k in kids(pars[0]):
            leaves[k] = _leaf_matrix(rng, T, mode, dtag, values, "full")
        for par in pars[1:]:
            for k in kids(par):
                leaves[k] = _leaf_matrix(rng, T, mode, dtag, values, rng.choice(["rand", "rand", "one", "row"]))
    if shape == "empty-start" and depth >= 1:
        # nothing is stored at the start level (no leaf given, or only entirely undefined leaves that toasty does not store):
        # the cascade must refuse; the stale parent files must survive untouched
        keepu = False
        leaves = {}
        if can_u and rng.random() < 0.5:
            for l in rng.sample(all_leaves, 2):
                leaves[l] = _leaf_matrix(rng, T, mode, dtag, values, "allu")
    if shape == "int-low" and depth >= 1:
        # integer data has no undefined value: a parent over a lone all-zero leaf, a parent over a lone leaf with a single
        # count of 1 (its merge is zero everywhere), and ordinary leaves elsewhere - all these parents must exist
        pars = level(depth - 1)
        leaves = {}
        leaves[kids(pars[0])[rng.randrange(4)]] = _leaf_matrix(rng, T, mode, dtag, values, "allu")
        leaves[kids(pars[1 % len(pars)])[rng.randrange(4)]] = _leaf_matrix(rng, T, mode, dtag, [1], "one")
        for par in pars[2:]:
            for k in rng.sample(kids(par), rng.randint(1, 3)):
                leaves[k] = _leaf_matrix(rng, T, mode, dtag, [1, 2, 3, 40], "rand")
    if shape == "right-half" and depth >= 2:
        # only the right half of the pyramid is populated: in walk order empty sub-trees come first, and the parents of the
        # populated tiles share their rows with positions that were looked at while still empty
        leaves = {}
        cand = [l for l in all_leaves if l[1] >= 2 ** (depth - 1)]
        for l in rng.sample(cand, min(len(cand), rng.randint(5, 8))):
            leaves[l] = _leaf_matrix(rng, T, mode, dtag, values, "const" if fmt == "jpg" else rng.choice(["rand", "full", "row"]))
    if shape == "one-leaf-per-slot" and depth >= 1:
        # sparse filtered population: every parent of leaves has exactly ONE leaf, in slot 3, 2, 1, 0 in turn (the
        # lower-right child first); with a tile filter whose live set is exactly the populated leaves
        leaves = {}
        for i, par in enumerate(level(depth - 1)):
            k = kids(par)[(3 - i) % 4]
            vs = values
            if i == 0 and mode == "Float":
                vs = [max(values) + 5000, min(values) - 5000]        # the lone lower-right leaf holds both extremes
            leaves[k] = _leaf_matrix(rng, T, mode, dtag, vs, "const" if fmt == "jpg" else rng.choice(["rand", "full"]))
    if shape == "all-undefined-parent" and depth >= 1 and can_u:
        # a parent all of whose existing children are entirely undefined files written by a foreign tool
        keepu = True
        par = rng.choice(level(depth - 1))
        for k in kids(par):
            leaves.pop(k, None)
        for k in rng.sample(kids(par), rng.randint(1, 4)):
            leaves[k] = _leaf_matrix(rng, T, mode, dtag, values, "allu")
    if shape == "vanish" and depth >= 1 and mode == "Float":
        # parents whose children hold defined pixels that the 2x2 reduction ITSELF turns undefined: the only defined pixels
        # beneath them are +inf / -inf pairs inside one block (beside finite or undefined pixels), so the merged tile is entirely
        # undefined although the mosaic is not - the parent must not exist (an earlier file goes).  With T >= 4 and depth >= 2
        # also one level further up: a tile whose children exist and whose own reduction cancels everything.
        pars = level(depth - 1)
        vp = rng.sample(pars, 1 if len(pars) < 4 else rng.randint(1, 2))
        deep = depth >= 2 and T >= 4 and rng.random() < 0.5
        if deep:
            gp = rng.choice(level(depth - 2))
            vp = [q for q in pars if ancestor(q, depth - 2) == gp]
        for par in vp:
            for k in kids(par):
                leaves.pop(k, None)
            for k in rng.sample(kids(par), rng.randint(1, 4)):
                leaves[k] = _vanish_matrix(rng, T, values, 2 if deep else 1)
    if shape == "faint" and depth >= 1 and dtag == "rgba":
        # colour with alpha: parents whose only non-transparent pixels are faint and isolated (at most three units of alpha per
        # block, the mean alpha is below 1: 0 when truncated), beside ordinary leaves some of which carry faint pixels too
        pars = level(depth - 1)
        fp = rng.sample(pars, 1 if len(pars) < 4 else 2)
        for par in fp:
            for k in kids(par):
                leaves.pop(k, None)
            for k in rng.sample(kids(par), rng.randint(1, 4)):
                leaves[k] = _faint_matrix(rng, T)
        for l in sorted(leaves):
            if ancestor(l, depth - 1) not in fp and rng.random() < 0.5:
                leaves[l] = _faint_matrix(rng, T, strong=leaves[l])
    peaks = {}
    if shape == "peaks" and mode in ("Float", "Int"):
        # every leaf fully defined with its extremes on isolated pixels (averaging dilutes them at the first reduction); the
        # extremes differ from leaf to leaf, so that the range of every tile names the leaves beneath it
        mids = [2, 3, 5, 10] if mode == "Int" else [-7, -1, 0, 1, 2, 3, 5]
        chosen = [l for l in all_leaves if rng.random() < pleaf] or [rng.choice(all_leaves)]
        leaves = {}
        for i, l in enumerate(chosen):
            hi = 100 + 37 * i
            lo = None if mode == "Int" else -(60 + 29 * ((i * 7) % len(chosen)))
            leaves[l], peaks[l] = _peaks_matrix(rng, T, mode, mids, hi, lo)
    has_data = set(l for l, m in leaves.items() if not _is_allu(m, mode))
    has_finite = any(len(px) == 1 for m in leaves.values() for row in m for px in row) if mode != "Colour" else False
    live = set(all_leaves)
    if run.startswith("filter"):
        live = set(leaves) | set(l for l in all_leaves if rng.random() < 0.25)
    if shape == "one-leaf-per-slot":
        live = set(leaves)
    # stale parent files anywhere the walk comes by (the ancestors of the live leaves): above populated leaves, above
    # nothing at all (their children "have disappeared"), chains of stale ancestors included
    eligible = set(ancestor(l, n) for l in live for n in range(depth))
    stale = set()
    if shape in ("all-undefined-parent", "vanish", "faint") or rng.random() < stale_p:
        stale = set(p for p in eligible if rng.random() < (1.0 if shape == "all-undefined-parent" else 0.6))
    if shape == "empty-start" and not stale:
        stale = set(rng.sample(sorted(eligible), min(2, len(eligible))))
    if mode == "Float":
        sv = (rng.choice([5000, -5000, 4]),)          # mostly beyond the leaves' range: a stale range that survives shows at the root
    elif mode == "Int":
        sv = (min(INT_MAX[dtag], floor + 77),)
    else:
        sv = (floor + 3, 255, floor + 5, 255)
    scale = 1.0
    if mode == "Float":
        scale = rng.choice([1.0, 1.0, 0.25, 4096.0])
    # harness-side ways of producing the same leaf files: exact zeros written as -0.0; leaves written twice (a first
    # version without the extreme pixels, then PyramidIO.update_image painting the final pixels in)
    negzero = mode == "Float" and rng.random() < (0.5 if shape in ("zero-min", "zero-max") else 0.15)
    rewrite = fmt in ("fits", "npy") and rng.random() < (rewrite_p if rewrite_p is not None else 0.15)
    names = DIR_NAMES + (DIR_NAMES_GLOB if GLOB_DIRS[0] else [])
    return {"warn_env": "error" if (mode == "Float" and rng.random() < 0.3) else "quiet", "dirname": rng.choice(names), "spelling": rng.choice(SPELLINGS), "fmt_route": rng.choice(["explicit", "explicit", "guessed"]),
            "id": cid, "T": T, "depth": depth, "fmt": fmt, "dtag": dtag, "mode": mode, "run": run, "keepu": bool(keepu),
            "leaves": leaves, "stale": stale, "live": live, "sv": sv, "scale": scale,
            "has_data": bool(has_data), "has_finite": has_finite, "negzero": negzero, "rewrite": rewrite, "shape": shape, "peaks": peaks}


def tla_leafmap(leaves):
    def mat(m):
        return "<<" + ", ".join("<<" + ", ".join(tla.lit(px) for px in row) + ">>" for row in m) + ">>"
    if leaves:
        return "(" + " @@ ".join("%s :> %s" % (tla.lit(l), mat(m)) for l, m in sorted(leaves.items())) + ")"
    return "[x \\in {} |-> <<>>]"


def tla_case(c):
    bottomup = c["fmt"] == "fits"
    hist = ""
    if "first" in c:        # CascadeHistory.tla: the two batches of leaf data
        hist = ", first |-> %s, final |-> %s" % (tla_leafmap(c["first"]), tla_leafmap(c["final"]))
    return ("[id |-> %d, mode |-> %s, bottomup |-> %s, ranged |-> %s, keepu |-> %s, leaves |-> %s, live |-> %s, "
            "stale |-> %s, sv |-> %s%s]" % (c["id"], tla.lit(c["mode"]), tla.lit(bottomup), tla.lit(bottomup),
                                            tla.lit(c["keepu"]), tla_leafmap(c["leaves"]), tla.lit(set(c["live"])),
                                            tla.lit(set(c["stale"])), tla.lit(c["sv"]), hist))


INVARIANTS = ["CaseOK", "DoneRight", "RestUntouched", "ExistenceRule", "ExistsIffDataBelow", "ExistsOnlyAboveData", "VanishedOnlyByReduction",
              "MayOnlyColour", "StaleReplaced",
              "NeverStoredUndefined", "RangeRule", "LeafRangeRule", "NoRangeUnlessRanged", "RefusedLeavesDirectoryAlone", "Progress", "SerialAdmitted",
              "MergeCommutes"]


def cfg_text(T, depth, emit=True, window=None):
    """window = None: every children-first merge order is explored; else at most `window` ready positions run ahead."""
    if window is None:
        window = 4 ** max(depth - 1, 0) + 1
    lines = ["SPECIFICATION Spec", "CONSTANTS", " T = %d" % T, " Depth = %d" % depth, " Cases <- MCCases", " Window = %d" % window]
    lines += ["INVARIANT %s" % i for i in INVARIANTS]
    if emit:
        lines.append("INVARIANT Emit")
    lines.append("CHECK_DEADLOCK FALSE")
    return "\n".join(lines) + "\n"


def run_tlc_cases(ctx, name, T, depth, cases=None, cases_expr=None, emit=True, timeout=1800, workers=16, window=None):
    """Model-check a family; returns the emitted terminal records."""
    if cases_expr is None:
        cases_expr = "{" + ",\n ".join(tla_case(c) for c in cases) + "}"
    text = tla.module(name, ["MCCascade"], [("MCCases", cases_expr)])
    r = ctx.tlc(name, extra={name + ".tla": text}, cfg_text=cfg_text(T, depth, emit, window), timeout=timeout, workers=workers)
    recs = r.json_lines("R") if emit else []
    return r, recs


# ------------------------------------------------------------------------------------------------
# lifting / projection (M5)
# ------------------------------------------------------------------------------------------------

def lift_index(T, h):
    """Abstract row (column) index of each real row (column) of a tile h levels above the leaves."""
    import numpy as np
    k = T.bit_length() - 1
    if h > k:
        raise ValueError("lifting is exact only for h <= log2 T")
    r = np.arange(TILE)
    return ((r >> (8 - h)) << (k - h)) | (r & ((1 << (k - h)) - 1))


def lift(a, T, h):
    i = lift_index(T, h)
    return a[i[:, None], i[None, :]]


def abstract_arrays(px, mode, scale):
    """Abstract tile (rows of pixels of channel pairs) -> (lo, hi) float64 arrays of shape (T, T) or (T, T, 4).
    Float: lo = hi = num/den * scale (NaN when undefined)."""
    import numpy as np
    a = np.array(px, dtype=np.float64)          # (T, T, ch, 2)
    if mode == "Float":
        num, den = a[:, :, 0, 0], a[:, :, 0, 1]
        with np.errstate(divide="ignore", invalid="ignore"):
            v = np.where(den == 0, np.nan, num / np.where(den == 0, 1, den)) * scale
        v = np.where((den == 0) & (num > 0), np.inf, v)         # <<1, 0>> = +inf, <<-1, 0>> = -inf, <<0, 0>> = NaN
        v = np.where((den == 0) & (num < 0), -np.inf, v)
        return v, v
    lo, hi = a[..., 0], a[..., 1]
    if mode == "Int":
        return lo[:, :, 0], hi[:, :, 0]
    return lo, hi


def concrete_tile(px, meta, h):
    """Real 256 x 256 array of an abstract tile whose intervals are degenerate (leaves, stale files)."""
    import numpy as np
    lo, _hi = abstract_arrays(px, meta["mode"], meta["scale"])
    arr = lift(lo, meta["T"], h).astype(np_dtype(meta["dtag"]))
    if meta.get("negzero") and meta["mode"] == "Float":
        arr[arr == 0] = -0.0
    if meta["dtag"] == "rgb":
        arr = arr[..., :3]
    return np.ascontiguousarray(arr)


def load_raw(path, fmt):
    """Read a tile file without toasty."""
    import numpy as np
    if fmt == "npy":
        return np.load(path), None
    if fmt == "fits":
        from astropy.io import fits
        with fits.open(path) as hdul:
            data = hdul[0].data
            arr = np.array(data) if data is not None else None
            hdr = dict((k, hdul[0].header[k]) for k in ("DATAMIN", "DATAMAX") if k in hdul[0].header)
        return arr, hdr
    from PIL import Image as PILImage
    with PILImage.open(path) as im:
        if im.mode not in ("RGB", "RGBA"):
            im = im.convert("RGBA")
        return np.array(im), None


def raw_write(path, arr, fmt):
    """Write a tile file without toasty (a foreign tool): no data-range header."""
    import numpy as np
    if fmt == "npy":
        np.save(path, arr)
    elif fmt == "fits":
        from astropy.io import fits
        fits.writeto(path, arr, overwrite=True)
    else:
        from PIL import Image as PILImage
        PILImage.fromarray(arr).save(path, format="PNG" if fmt == "png" else "JPEG")


def scan_tiles(base, fmt):
    """All tile files in the L/Y/YX layout: {pos: path}; plus files of other kinds."""
    found, other = {}, []
    for path in glob.glob(os.path.join(glob.escape(base), "*", "*", "*_*.*")):
        rel = os.path.relpath(path, base).split(os.sep)
        stem, ext = os.path.splitext(rel[2])
        try:
            n, y = int(rel[0]), int(rel[1])
            ys, xs = stem.split("_")
            if int(ys) != y:
                raise ValueError
            x = int(xs)
        except ValueError:
            other.append(path)
            continue
        if ext[1:] != fmt:
            other.append(path)
            continue
        found[(n, x, y)] = path
    return found, other


def float_tol(meta, maxabs, h):
    import numpy as np
    eps = np.finfo(np_dtype(meta["dtag"])).eps
    return 2.0 * eps * max(1, h) * maxabs


def compare_tile(arr, exp_px, meta, h, maxabs):
    """None if the real array is the lifted expected tile, else a message.  (kind, message)"""
    import numpy as np
    mode, dtag, fmt, T = meta["mode"], meta["dtag"], meta["fmt"], meta["T"]
    lo, hi = abstract_arrays(exp_px, mode, meta["scale"])
    want_dtype = np.dtype(np_dtype(dtag))
    if arr is None:
        return ("pixels", "file holds no image data")
    if mode == "Colour":
        if arr.ndim != 3 or arr.shape[:2] != (TILE, TILE) or arr.shape[2] not in (3, 4):
            return ("dtype", "tile has shape %s" % (arr.shape,))
        if arr.dtype != np.uint8:
            return ("dtype", "tile has dtype %s, the input is uint8" % arr.dtype)
        if fmt == "jpg":
            lo, hi = lo[..., :3] - JPG_TOL, hi[..., :3] + JPG_TOL
            arr = arr[..., :3]
        elif arr.shape[2] == 3:
            if not (lo[..., 3] == 255).all():
                return ("pixels", "tile has no alpha channel although part of it is undefined / translucent")
            lo, hi = lo[..., :3], hi[..., :3]
    else:
        if arr.shape != (TILE, TILE):
            return ("dtype", "tile has shape %s" % (arr.shape,))
        if (arr.dtype.kind, arr.dtype.itemsize) != (want_dtype.kind, want_dtype.itemsize):
            return ("dtype", "tile has dtype %s, the input's data type is %s" % (arr.dtype, want_dtype))
    llo, lhi = lift(lo, T, h), lift(hi, T, h)
    a = arr.astype(np.float64)
    if mode == "Float":
        tol = float_tol(meta, maxabs, h)
        nan_e, nan_a = np.isnan(llo), np.isnan(a)
        with np.errstate(invalid="ignore"):
            bad = (nan_e != nan_a) | (~nan_e & ~nan_a & (a != llo) & ~(np.abs(a - np.where(nan_e, 0, llo)) <= tol))
    else:
        bad = (a < llo) | (a > lhi)
    if fmt == "jpg":
        # jpg is judged approximately: chroma upsampling bleeds across the borders of the constant blocks
        blk = TILE >> h
        inner = (np.arange(TILE) % blk >= 8) & (np.arange(TILE) % blk < blk - 8)
        bad &= (inner[:, None] & inner[None, :])[..., None]
    if not bad.any():
        return None
    idx = np.argwhere(bad)[0]
    r, c = int(idx[0]), int(idx[1])
    ii = lift_index(T, h)
    where = "real pixel (row %d, col %d%s) = abstract [%d][%d]" % (r, c, (", channel %d" % idx[2]) if len(idx) > 2 else "",
                                                                  ii[r], ii[c])
    got = a[tuple(idx)]
    if mode == "Float":
        want = "%r" % float(llo[tuple(idx)])
    else:
        want = "%d..%d" % (llo[tuple(idx)], lhi[tuple(idx)])
    return ("pixels", "%d of %d values differ; first: %s holds %r, expected %s (file row order)" % (int(bad.sum()), bad.size, where, float(got), want))


# ------------------------------------------------------------------------------------------------
# one case through the real code (pool worker)
# ------------------------------------------------------------------------------------------------

class _Timeout(Exception):
    pass


def _alarm(_sig, _frm):
    raise _Timeout()


def _snapshot(base):
    """Every file under the pyramid directory with a digest of its bytes."""
    import hashlib
    snap = {}
    for d, _dirs, files in os.walk(base):
        for fn in files:
            path = os.path.join(d, fn)
            with open(path, "rb") as f:
                snap[os.path.relpath(path, base)] = hashlib.sha1(f.read()).hexdigest()
    return snap


def _second_pass(rec):
    """`twice` runs: the leaves written only before the SECOND cascade - those in rows that hold no leaf of the first pass."""
    given = rec["given"]
    rows = sorted(set(g["pos"][2] for g in given))
    late_rows = set(rows[len(rows) // 2:]) if len(rows) > 1 else set()
    return set(tuple(g["pos"]) for g in given if g["pos"][2] in late_rows)


def _populate(base, meta, rec, pio=None, only=None, skip=None):
    """Write the case's start directory with the real PyramidIO (foreign writer for the `raw` leaves)."""
    from toasty.pyramid import PyramidIO, Pos
    from toasty.image import Image
    fresh = pio is None
    if pio is None:
        pio = PyramidIO(base, default_format=meta["fmt"])
    depth = meta["depth"]
    for g in rec["given"]:
        if (only is not None and tuple(g["pos"]) not in only) or (skip is not None and tuple(g["pos"]) in skip):
            continue
        arr = concrete_tile(g["px"], meta, 0)
        pos = Pos(*g["pos"])
        if g["raw"]:
            raw_write(pio.tile_path(pos), arr, meta["fmt"])
        elif meta.get("rewrite"):
            _write_twice(pio, pos, arr, meta)
        else:
            pio.write_image(pos, Image.from_array(arr))
    for t in rec["init"]:
        if fresh and t["pos"][0] < depth:
            arr = concrete_tile(t["px"], meta, depth - t["pos"][0])
            pio.write_image(Pos(*t["pos"]), Image.from_array(arr))
    return pio


def _write_twice(pio, pos, arr, meta):
    """The leaf is first written without its extreme pixels, then updated in place (PyramidIO.update_image, what the
    multi-image tilers and repeated sampling passes do) so that the file ends up holding exactly `arr`."""
    import numpy as np
    from toasty.image import Image
    first = arr.copy()
    if meta["mode"] == "Float":
        fin = np.isfinite(arr)
        if fin.any():
            first[fin & ((arr == arr[fin].min()) | (arr == arr[fin].max()))] = np.nan
    else:
        first[arr == arr.max()] = 0
    pio.write_image(pos, Image.from_array(first))
    img = Image.from_array(arr)
    with pio.update_image(pos, masked_mode=img.mode, default="masked") as basis:
        img.update_into_maskable_buffer(basis, slice(None), slice(None), slice(None), slice(None))


# the NAME and SPELLING of the directory the cascade is given, and the route by which the tile format is determined
DIR_NAMES = ["tiles", "out.d", "survey-dr2.1/tiles", "m31 v1.0 (final)", "p\u00e4th.\u00fc", "x.npy", "a*b"]
# names holding glob character classes: the format guess of the unchanged tree misses them (fixes/C02-format-guess-glob-escape.diff);
# kept out of the quick tier until that repair is in the tree
DIR_NAMES_GLOB = ["tiles[1]", "run[0-9]"]
GLOB_DIRS = [False]        # switched on by run() in the thorough tier
SPELLINGS = ["abs", "abs/", "./rel", "./rel/"]


def _handle(base, root, meta):
    """The PyramidIO / directory argument of the cascade under test: spelled and formatted as the case says."""
    from toasty.pyramid import PyramidIO
    spelling = meta.get("spelling", "abs")
    spelled = base
    if spelling.startswith("./rel"):
        os.chdir(root)
        spelled = "./" + os.path.relpath(base, root)
    if spelling.endswith("/"):
        spelled += "/"
    explicit = meta.get("fmt_route", "explicit") == "explicit"
    pio = PyramidIO(spelled, default_format=meta["fmt"]) if explicit else PyramidIO(spelled)
    return pio, spelled, explicit


def _decimating_merger(big):
    """A merger that follows the Merger Protocol and returns a view of its input: the top-left pixel of every block."""
    return big[::2, ::2]


def _par_of(run):
    """Worker count of a run tag: ...par2 / par3 / par4, ...parNone = left to the library (all CPUs), else 1."""
    import re
    m = re.search(r"par(None|\d+)$", run)
    if not m:
        return 1
    return None if m.group(1) == "None" else int(m.group(1))


def _run_cascade(pio, base, meta, rec, run, spelled=None, explicit=True, start=None):
    """Run one flavour of the real cascade (from level `start`, default the leaf level).  Returns extra observations (builder runs)."""
    from toasty.merge import cascade_images, averaging_merger
    depth = meta["depth"] if start is None else start
    par = _par_of(run)
    obs = {}
    if run.startswith("cli"):
        from toasty import cli
        cli.entrypoint(["cascade"] + (["--parallelism", str(par)] if par is not None else []) + (["--format", meta["fmt"]] if explicit else [])
                       + ["--start", str(depth), spelled or base])
    elif run.startswith("filter"):
        live = set(tuple(p) for p in rec["live"])
        accept = set(ancestor(l, n) for l in live for n in range(1, depth + 1))
        cascade_images(pio, depth, averaging_merger, parallel=par, tile_filter=lambda t: tuple(t.pos) in accept)
    elif run.startswith("builder"):
        from toasty.builder import Builder
        b = Builder(pio)
        b.imgset.tile_levels = depth
        b.cascade(parallel=par)
        obs["imgset"] = (b.imgset.data_min, b.imgset.data_max)
        b.write_index_rel_wtml()
        import xml.etree.ElementTree as ET
        root = ET.parse(os.path.join(base, "index_rel.wtml")).getroot()
        sets = [e for e in root.iter("ImageSet")]
        obs["wtml"] = [(float(e.get("DataMin", "0")), float(e.get("DataMax", "0"))) for e in sets]
    elif run.startswith("decim"):
        cascade_images(pio, depth, _decimating_merger, parallel=par)
    else:
        cascade_images(pio, depth, averaging_merger, parallel=par)
    return obs


def replay_case(job):
    """-> (findings, stats).  finding = (property, severity, key, message); severity V / D / M."""
    meta, rec = job
    if meta.get("history"):
        return replay_history(job)
    if meta.get("compare"):
        # the real run has already happened (workflow cases): only compare its observations with TLC's record
        import importlib
        mod, fn = meta["compare"]
        return getattr(importlib.import_module(mod), fn)(meta, rec)
    repo.setup()
    import numpy as np
    import warnings
    # the process-wide warning filters the cascade runs under are part of the environment: quiet (everything ignored), or an
    # application that escalates RuntimeWarnings to errors (installed after toasty was imported)
    warnings.resetwarnings()
    warnings.simplefilter("ignore")
    if meta.get("warn_env") == "error" and not meta["run"].startswith("builder"):     # (Builder.cascade's pixel-cut percentiles are not the cascade)
        warnings.simplefilter("error", RuntimeWarning)
    out = []
    fmt, depth, T, mode, run = meta["fmt"], meta["depth"], meta["T"], meta["mode"], meta["run"]
    fam = "%s-%s" % (fmt, meta["dtag"])
    runkind = "parallel" if run.endswith(("par2", "par3")) else "serial"
    if meta.get("start_method"):
        # the process creates workers by spawn / forkserver (the default outside Linux, and of Python >= 3.14): whatever route
        # the library takes there, for every worker count the result is the one pyramid TLC expects
        runkind = "nofork"

    def add(prop, sev, key, msg):
        out.append((prop, sev, key, "%s [case %s: %s depth %d T %d run %s]" % (msg, meta["id"], fam, depth, T, run)))

    root = tempfile.mkdtemp(prefix="c02-", dir=meta["scratch"])
    base = os.path.join(root, meta.get("dirname", "tiles"))
    os.makedirs(base)
    spelled, explicit = base, True
    if run.startswith("builder") and not rec.get("refused"):
        # Builder.cascade reads the root tile's cards: only where TLC expects a root with a range (a root can vanish, or hold
        # nothing finite, when +inf and -inf cancel)
        rootrec = [t for t in rec["final"] if tuple(t["pos"]) == (0, 0, 0)]
        if not rootrec or not rootrec[0]["rng"]:
            run = "par2" if run.endswith("par2") else "serial"
    old = signal.signal(signal.SIGALRM, _alarm)
    signal.alarm(120)
    try:
        if run.startswith("twice-"):
            # ONE PyramidIO handle: some leaves, a first (serial) cascade, the remaining leaves (in new rows), then the
            # cascade under test - the final directory must be that of a single cascade over all the leaves
            late = _second_pass(rec)
            pio = _populate(base, meta, rec, skip=late)
            try:
                if any(p[0] == depth for p in scan_tiles(base, fmt)[0]):       # (an empty start level would be refused)
                    _run_cascade(pio, base, meta, rec, "serial")
            except _Timeout:
                raise
            except BaseException as e:  # noqa
                add("C02", "V", "raised:serial", "the first cascade raised %r" % (e,))
                return out, {"tiles": 0}
            _populate(base, meta, rec, pio=pio, only=late)
            run = run[len("twice-"):]
            start = want_start = None
        else:
            pio = _populate(base, meta, rec)
            start, other = scan_tiles(base, fmt)
            want_start = set(tuple(t["pos"]) for t in rec["init"])
        if start is not None and set(start) != want_start:
            add("C02", "D", "start-directory", "the start directory holds %s, the spec's writing rule (C15's subject) gives %s"
                % (sorted(set(start) ^ want_start), "a different set"))
            return out, {"tiles": 0}
        twin = None
        if runkind == "parallel" and not rec.get("refused"):
            shutil.copytree(root, root + "-serial")
            twin = os.path.join(root + "-serial", meta.get("dirname", "tiles"))
        if not meta["run"].startswith("twice-"):
            # the leaves were written through an explicit handle; the cascade gets its own, as the case spells it
            pio, spelled, explicit = _handle(base, root, meta)
        if rec.get("refused"):
            # the start level holds no stored tile: the cascade must refuse (raise) and leave the directory - stale parent
            # files included - exactly as it found it, through every route
            before = _snapshot(base)
            raised = None
            try:
                _run_cascade(pio, base, meta, rec, run, spelled, explicit)
            except _Timeout:
                raise
            except BaseException as e:  # noqa
                raised = e
            ok_exc = isinstance(raised, ValueError) or (isinstance(raised, SystemExit) and raised.code not in (0, None))
            if raised is None:
                add("C02", "V", "refusal:%s" % runkind, "the start level holds no tile, yet the cascade ran instead of refusing")
            elif not ok_exc:
                add("C02", "V", "raised:%s" % runkind, "the cascade from an empty start level raised %r instead of refusing with a ValueError" % (raised,))
            after = _snapshot(base)
            if after != before:
                gone, new = sorted(set(before) - set(after)), sorted(set(after) - set(before))
                add("C02", "V", "refusal:%s" % runkind, "the refused cascade changed the directory: removed %s, created %s, rewrote %s"
                    % (gone[:6], new[:6], sorted(k for k in set(before) & set(after) if before[k] != after[k])[:6]))
            return out, {"tiles": 0}
        try:
            obs = _run_cascade(pio, base, meta, rec, run, spelled, explicit)
        except _Timeout:
            raise
        except BaseException as e:  # noqa - SystemExit from the CLI included
            add("C02", "V", "raised:%s" % runkind, "the cascade raised %r" % (e,))
            if run.startswith("builder"):
                add("C14", "V", "builder-raised:%s" % runkind, "Builder.cascade raised %r" % (e,))
            return out, {"tiles": 0}
        found, other = scan_tiles(base, fmt)
        final = dict((tuple(t["pos"]), t) for t in rec["final"])
        exp_above = set(p for p in final if p[0] < depth)
        got_above = set(p for p in found if p[0] < depth)
        if other:
            add("C02", "D", "other-files", "files of another kind in the pyramid: %s" % [os.path.relpath(o, base) for o in other[:4]])
        if set(p for p in found if p[0] == depth) != set(p for p in final if p[0] == depth):
            add("C02", "D", "leaves-changed", "the cascade changed the set of leaf files")
        # tiles that MAY be entirely undefined (colour, faint alpha: undefined when the mean is truncated, defined when it is
        # rounded up): the file may be absent; when it is there it must hold a defined pixel (checked with the pixels below)
        may_above = set(p for p in exp_above if final[p].get("may"))
        if (exp_above - may_above) - got_above or got_above - exp_above:
            missing, extra = sorted((exp_above - may_above) - got_above), sorted(got_above - exp_above)
            stale = set(tuple(t["pos"]) for t in rec["init"] if t["pos"][0] < depth)
            add("C02", "V", "tile-set:%s" % runkind,
                "tiles above the start level: missing %s, unexpected %s%s" % (missing, extra, " (stale files left: %s)" % sorted(set(extra) & stale) if set(extra) & stale else ""))
        leafvals = [abs(ch[0]) for g in rec["given"] for row in g["px"] for px in row for ch in px]
        maxabs = (max(leafvals) if leafvals else 1) * meta["scale"]
        ntiles = 0
        for p in sorted(exp_above & got_above):
            arr, _hdr = load_raw(found[p], fmt)
            res = compare_tile(arr, final[p]["px"], meta, depth - p[0], maxabs)
            ntiles += 1
            if res is None and p in may_above and arr.ndim == 3 and arr.shape[2] == 4 and not arr[..., 3].any():
                add("C02", "V", "tile-set:%s" % runkind, "tile %s exists although it is entirely undefined (every pixel transparent): the merged "
                    "result of its children is entirely undefined, the tile must not exist" % (p,))
                break
            if res is not None:
                kind, msg = res
                add("C02", "V", "%s:%s" % (kind, runkind), "tile %s: %s" % (p, msg))
                break
        # ---- C14 observations ride on the same run
        if fmt == "fits" and rec["ranged"] and not rec["keepu"] and rec.get("connected", True):
            # (pyramids in which a tile vanishes because +inf and -inf cancel are judged by C02 only: C14's domain)
            ghosts = [p for p in sorted(set(found) - set(final)) if p[0] < depth]
            if ghosts:
                _a, hdr = load_raw(found[ghosts[0]], fmt)
                add("C14", "V", "tile-range:%s" % runkind, "tile %s records %s although no leaf tile lies beneath it (a file left by an earlier "
                    "cascade): its range describes data that does not exist and reaches its ancestors" % (ghosts[0], hdr))
            lost = [p for p in sorted(set(final) - set(found)) if final[p]["rng"] and p[0] < depth]
            if lost:
                add("C14", "V", "tile-range:%s" % runkind, "tile %s is missing although leaf tiles with finite values lie beneath it: "
                    "their range is lost to its ancestors" % (lost[0],))
            for p in sorted(set(final) & set(found)):
                rng_ = final[p]["rng"]
                _arr, hdr = load_raw(found[p], fmt)
                if not rng_:
                    # no finite value beneath this tile (all its data infinite): there is nothing a card could equal
                    if hdr:
                        add("C14", "V", "tile-range:%s" % runkind, "tile %s records %s although no finite value lies beneath it" % (p, hdr))
                        break
                    continue
                want = (np.float32(rng_[0] * meta["scale"]), np.float32(rng_[1] * meta["scale"]))
                if "DATAMIN" not in hdr or "DATAMAX" not in hdr:
                    add("C14", "V", "tile-range:%s" % runkind, "tile %s records %s, expected DATAMIN/DATAMAX = %s" % (p, hdr, want))
                    break
                got = (np.float32(hdr["DATAMIN"]), np.float32(hdr["DATAMAX"]))
                if got != want:
                    add("C14", "V", "tile-range:%s" % runkind,
                        "tile %s records DATAMIN/DATAMAX = %s, the leaves beneath it range over %s" % (p, got, want))
                    break
            if "imgset" in obs and (0, 0, 0) in final:
                rr = final[(0, 0, 0)]["rng"]
                want = (np.float32(rr[0] * meta["scale"]), np.float32(rr[1] * meta["scale"]))
                got = tuple(np.float32(v) for v in obs["imgset"])
                if got != want:
                    add("C14", "V", "imageset-range:%s" % runkind, "Builder.cascade set data_min/data_max = %s, the leaves range over %s" % (got, want))
                if len(obs["wtml"]) != 1:
                    add("C14", "D", "wtml-shape", "index_rel.wtml holds %d ImageSet elements" % len(obs["wtml"]))
                else:
                    gotw = tuple(np.float32(v) for v in obs["wtml"][0])
                    if gotw != want:
                        add("C14", "V", "wtml-range:%s" % runkind, "index_rel.wtml has DataMin/DataMax = %s, the leaves range over %s" % (gotw, want))
        # ---- serial = parallel, literally
        if twin is not None:
            from toasty.pyramid import PyramidIO
            tpio = PyramidIO(twin, default_format=fmt)
            try:
                _run_cascade(tpio, twin, meta, rec, run.replace("-par2", "").replace("-par3", "").replace("par2", "serial").replace("par3", "serial"))
            except _Timeout:
                raise
            except BaseException as e:  # noqa
                add("C02", "V", "raised:serial", "the serial cascade raised %r" % (e,))
                return out, {"tiles": ntiles}
            sfound, _o = scan_tiles(twin, fmt)
            if set(sfound) != set(found):
                add("C02", "V", "serial-vs-parallel", "serial run produced tiles %s, the %s run %s"
                    % (sorted(set(sfound) - set(found)), run, sorted(set(found) - set(sfound))))
            else:
                for p in sorted(found):
                    a1, h1 = load_raw(found[p], fmt)
                    a2, h2 = load_raw(sfound[p], fmt)
                    same = a1.shape == a2.shape and a1.dtype == a2.dtype and np.array_equal(a1, a2, equal_nan=(a1.dtype.kind == "f"))
                    if not same or h1 != h2:
                        add("C02" if not same else "C14", "V", "serial-vs-parallel", "tile %s differs between the serial and the %s run" % (p, run))
                        break
        return out, {"tiles": ntiles}
    except _Timeout:
        add("C02", "M", "timeout", "the run did not finish within 120 s")
        return out, {"tiles": 0}
    finally:
        signal.alarm(0)
        signal.signal(signal.SIGALRM, old)
        os.chdir(meta["scratch"])
        shutil.rmtree(root, ignore_errors=True)
        shutil.rmtree(root + "-serial", ignore_errors=True)


def _quiet_worker():
    devnull = os.open(os.devnull, os.O_WRONLY)
    os.dup2(devnull, 1)
    os.dup2(devnull, 2)


def report(ctx, prop, jobs, results):
    """Turn the workers' findings into verdicts for property `prop`."""
    for (meta, rec), (findings, stats) in zip(jobs, results):
        ctx.count()
        ctx.trace_ok()
        ntl = len(rec["final"]) - len([t for t in rec["final"] if t["pos"][0] == meta["depth"]])
        if ntl > 0:
            ctx.distinct((meta["fmt"], meta["dtag"], meta["depth"], meta["T"], meta["run"], meta["id"], _digest(rec)))
        for p, sev, key, msg in findings:
            if sev == "M":
                ctx.machinery(msg)
            elif p != prop:
                continue
            elif sev == "V":
                ctx.violation("%s:%s:%s" % (prop, key, meta["fmt"]), msg, {"meta": _plain(meta), "given": rec["given"], "init_stale": [t["pos"] for t in rec["init"] if t["pos"][0] < meta["depth"]]})
            else:
                ctx.drift("%s %s" % (key, msg))


def _digest(rec):
    import hashlib
    import json
    return hashlib.sha1(json.dumps([rec["given"], [t["pos"] for t in rec["init"]]], sort_keys=True).encode()).hexdigest()[:12]


def _plain(meta):
    return dict((k, (sorted(v) if isinstance(v, (set, frozenset)) else v)) for k, v in meta.items() if k not in ("leaves", "scratch", "obs", "rankvals", "compare", "peaks", "first", "final", "hrec"))


# ------------------------------------------------------------------------------------------------
# families
# ------------------------------------------------------------------------------------------------

# depth-1 family enumerated by TLC itself (T = 2): every leaf absent or one of these matrices
ENUM_MATRICES_QUICK = ["<<<<<<>>, <<>>>>, <<<<>>, <<>>>>>>",          # entirely undefined
                       "<<<<<<0>>, <<2>>>>, <<<<3>>, <<5>>>>>>",      # full, four different values, minimum exactly 0
                       "<<<<<<-7>>, <<1, 0>>>>, <<<<>>, <<10>>>>>>"]  # -7, +inf / undefined, 10: an infinite pixel beside the extremes
ENUM_VALS_THOROUGH = "{<<>>, <<1>>}"


def enum_family_expr(quick):
    if quick:
        ms = "{" + ", ".join(ENUM_MATRICES_QUICK) + "}"
        maps = "LeafMapsOver(%s)" % ms
    else:
        maps = "AllLeafMaps(%s)" % ENUM_VALS_THOROUGH
    qmaps = "LeafMapsOver({%s})" % ", ".join(ENUM_MATRICES_QUICK)
    return ("EnumCases(\"Float\", TRUE, FALSE, %s, <<4>>, TRUE) \\cup EnumCases(\"Float\", FALSE, FALSE, %s, <<4>>, FALSE)"
            % (maps, qmaps))


def enum_meta(rec, i, scratch):
    """Harness-side attributes of a TLC-enumerated record (depth 1, T = 2, Float)."""
    fmt = "fits" if rec["bottomup"] else "npy"
    return {"id": "enum-%d" % i, "T": 2, "depth": 1, "fmt": fmt, "dtag": "f4" if i % 3 else "f8", "mode": "Float",
            "run": "serial" if i % 5 else "cli", "scale": 1.0, "scratch": scratch,
            "negzero": i % 4 == 1, "rewrite": i % 3 == 1, "dirname": DIR_NAMES[i % len(DIR_NAMES)], "spelling": SPELLINGS[i % 4],
            "fmt_route": "guessed" if i % 2 else "explicit"}


QUICK_PLAN = [
    # (fmt, dtag, random cases at depth 2 (T=4), at depth 1 (T=4)); the structured shapes come on top (build_cases)
    ("fits", "f4", 10, 10), ("fits", "f8", 3, 4), ("fits", "i2", 4, 4), ("fits", "i4", 3, 3),
    ("npy", "f4", 8, 10), ("npy", "f8", 4, 4), ("npy", "u1", 5, 6), ("npy", "i2", 3, 3), ("npy", "i4", 4, 4),
    ("png", "rgba", 10, 10), ("png", "rgb", 5, 6), ("jpg", "rgb", 2, 2),
]
PARALLEL_PLAN_QUICK = [("fits", "f8", "decim-par2"), ("npy", "i2", "twice-par2"), ("fits", "f4", "par2"), ("fits", "f4", "par3"), ("npy", "f4", "par2"), ("npy", "u1", "par3"),
                       ("png", "rgba", "par2"), ("png", "rgb", "cli-par2"), ("fits", "i2", "cli-par2"),
                       ("npy", "f8", "filter-par2"), ("fits", "f8", "par2"), ("png", "rgba", "par3")]


def build_cases(ctx, T, depth, plan, parallel_plan, mult=1, allow_keepu=True, rewrite_p=None):
    rng = ctx.rng
    cases = []
    cid = [0]

    def new(fmt, dtag, **kw):
        cid[0] += 1
        if not allow_keepu:
            kw["keepu"] = False
        kw.setdefault("rewrite_p", rewrite_p)
        c = make_case(rng, cid[0], T, depth, fmt, dtag, **kw)
        cases.append(c)
        return c
    for fmt, dtag, run in parallel_plan:         # first: they take longest and go into the first chunk
        can_u = CONFIGS[(fmt, dtag)] != "Int" and dtag != "rgb"
        if run.startswith("filter"):
            new(fmt, dtag, run=run, stale_p=0.5, shape="one-leaf-per-slot")
            continue
        if run.startswith("twice"):
            new(fmt, dtag, run=run, stale_p=0.0, pleaf=0.7)
            continue
        new(fmt, dtag, run=run, pleaf=rng.choice([0.5, 0.8, 1.0]), stale_p=0.5,
            shape=("full-then-four-partial" if can_u else "full-then-sparse") if run in ("par3", "par2") else None)
    for fmt, dtag, n2, n1 in plan:
        n = (n2 if depth >= 2 else n1) * mult
        can_u = CONFIGS[(fmt, dtag)] != "Int" and dtag != "rgb"
        new(fmt, dtag, shape="full-then-sparse", run="serial", stale_p=0.0, pleaf=0.5)
        new(fmt, dtag, shape="full-then-sparse", run="cli", stale_p=1.0, pleaf=0.3)
        if can_u and allow_keepu:
            new(fmt, dtag, shape="all-undefined-parent", run="serial", pleaf=0.4)
        if can_u and depth >= 2:
            new(fmt, dtag, shape="full-then-four-partial", run="serial", stale_p=0.3, pleaf=0.2)
            new(fmt, dtag, shape="full-then-four-partial", run="cli", stale_p=0.0, pleaf=0.0)
        if (fmt, dtag) in (("fits", "f4"), ("npy", "u1"), ("png", "rgba")) and depth >= 1:
            # an empty start level through every route: API, CLI entry point, filtered, Builder.cascade, 2 processes
            for r_ in (["serial", "cli", "filter", "par2"] + (["builder"] if fmt == "fits" else []))[: 5 if depth >= 2 else 2]:
                new(fmt, dtag, shape="empty-start", run=r_, stale_p=1.0)
        if (fmt, dtag) in (("npy", "f4"), ("fits", "f4"), ("png", "rgba"), ("npy", "u1")) and depth >= 1:
            new(fmt, dtag, run="decim", pleaf=0.6)
        if CONFIGS[(fmt, dtag)] == "Int" and depth >= 1:
            new(fmt, dtag, shape="int-low", run="serial", stale_p=0.0)
        if (fmt, dtag) in (("npy", "f4"), ("fits", "f4"), ("png", "rgba"), ("npy", "u1"), ("fits", "i2")) and depth >= 1:
            new(fmt, dtag, run="twice-serial", stale_p=0.0, pleaf=0.6, shape="right-half" if depth >= 2 and fmt == "npy" else None)
        if CONFIGS[(fmt, dtag)] == "Float":
            new(fmt, dtag, shape="zero-min", run="serial")
            new(fmt, dtag, shape="zero-max", run="cli")
            new(fmt, dtag, shape="inf-mix", run="serial")
            if depth >= 1:
                # tiles that the reduction itself makes entirely undefined (+inf / -inf pairs): they must not exist
                new(fmt, dtag, shape="vanish", run="serial" if dtag == "f4" else "cli", pleaf=0.6)
                if (fmt, dtag) == ("npy", "f4") and depth >= 2:
                    new(fmt, dtag, shape="vanish", run="par2", pleaf=0.6)
        if (fmt, dtag) == ("png", "rgba") and depth >= 1:
            # ... and for colour with alpha: parents over nothing but faint isolated pixels (the mean alpha is below 1)
            for r_ in ["serial", "cli"] + (["par2"] if depth >= 2 else []):
                new(fmt, dtag, shape="faint", run=r_, pleaf=0.6)
        for i in range(n):
            run = ["serial", "serial", "cli", "serial", "filter", "serial"][i % 6]
            new(fmt, dtag, run=run)
    return cases


def jobs_for(ctx, cases, recs):
    by_id = dict((c["id"], c) for c in cases)
    jobs = []
    for rec in recs:
        c = by_id.get(rec["id"])
        if c is None:
            ctx.machinery("TLC emitted a record with unknown id %r" % (rec["id"],))
            continue
        meta = dict((k, v) for k, v in c.items() if k != "leaves")
        meta["scratch"] = ctx.scratch
        jobs.append((meta, rec))
    if len(jobs) != len(cases):
        ctx.machinery("TLC emitted %d terminal records for %d cases" % (len(jobs), len(cases)))
    return jobs


def check_terminal_unique(ctx, recs, what):
    """Every admissible merge order of a case must end in ONE terminal state (TLC emits each distinct one once)."""
    seen = {}
    for rec in recs:
        if rec["id"] == 0:
            continue
        seen[rec["id"]] = seen.get(rec["id"], 0) + 1
    dup = [k for k, v in seen.items() if v > 1]
    if dup:
        ctx.machinery("%s: cases %s have more than one terminal state although DoneRight holds" % (what, dup[:5]))


def plan_binding(ctx, prop, plan, parallel_plan, only_fits=False, builder_runs=0, allow_keepu=True, rewrite_p=None):
    """Shared by C02 and C14: the harness-enumerated case families as TLC tasks (name, T, depth, cases)."""
    quick = ctx.quick
    tasks = []
    if only_fits:
        plan = [p for p in plan if p[0] == "fits"]
        parallel_plan = [p for p in parallel_plan if p[0] == "fits"]
    # ---- depth 2 (T = 4) and depth 1 (T = 4): all modes and formats
    for T, depth in ((4, 2), (4, 1)):
        cases = build_cases(ctx, T, depth, plan, parallel_plan if depth == 2 else ([p for p in parallel_plan if p[2].startswith("filter")][:1] + parallel_plan[:1]),
                            mult=1 if quick else 6,
                            allow_keepu=allow_keepu, rewrite_p=rewrite_p)
        if builder_runs:
            fits_data = [c for c in cases if c["fmt"] == "fits" and c["has_finite"] and not c["keepu"] and c["run"] in ("serial", "cli", "par2") and c.get("shape") != "vanish"]
            for i, c in enumerate(fits_data[: builder_runs * (2 if depth == 2 else 1)]):
                c["run"] = "builder-par2" if (c["run"] == "par2" or (i % 7 == 3 and depth == 2 and not quick)) else "builder"
        # quick tier: every children-first order for the first chunk, a window of 2 ready positions for the others
        tasks.append({"name": "MC%sd%d" % (prop, depth), "T": T, "depth": depth, "cases": cases, "chunk": 58 if depth >= 2 else 130,
                      "first_chunk": (30 if quick else 45) if depth >= 2 else 120,
                      "later_window": 2 if (quick and depth >= 2) else None})
    # depth 3 needs T = 8 for the lifting to stay exact through three levels; TLC explores the merge orders in which
    # at most 2 ready positions run ahead of the walk order (all 2^16 interleavings of level 2 are out of reach).
    # Sparse one-sided populations: empty sub-trees precede the populated tiles in walk order.
    deep = []
    cid = 5000
    for fmt, dtag, run in ([("npy", "f4", "serial"), ("fits", "i2", "par2")] if quick else
                           [("npy", "f4", "serial"), ("fits", "i2", "par2"), ("fits", "f4", "cli"), ("png", "rgba", "twice-serial"),
                            ("npy", "u1", "par3"), ("fits", "f8", "twice-par2")]):
        if only_fits and fmt != "fits":
            continue
        cid += 1
        c = make_case(ctx.rng, cid, 8, 3, fmt, dtag, run=run, stale_p=0.0, keepu=False, shape="right-half", rewrite_p=rewrite_p)
        deep.append(c)
    if deep:
        tasks.append({"name": "MC%sd3s" % prop, "T": 8, "depth": 3, "cases": deep, "chunk": 2 if quick else 3, "window": 1 if quick else 2})
    if not quick:
        small = [(f, d, 0, 0) for f, d, _a, _b in plan if (f, d) in (("fits", "f4"), ("fits", "i2"), ("npy", "f4"), ("npy", "u1"),
                                                                     ("png", "rgba"), ("png", "rgb"))]
        cases = build_cases(ctx, 8, 3, small, [p for p in [("fits", "f4", "par2"), ("png", "rgba", "par3")] if p in parallel_plan or not only_fits],
                            mult=1, allow_keepu=allow_keepu, rewrite_p=rewrite_p)
        if builder_runs:
            for c in cases:
                if c["fmt"] == "fits" and c["has_finite"] and not c["keepu"] and c["run"] == "serial" and c.get("shape") != "vanish":
                    c["run"] = "builder"
        tasks.append({"name": "MC%sd3" % prop, "T": 8, "depth": 3, "cases": cases, "chunk": 3, "window": 2})
    return tasks


# ------------------------------------------------------------------------------------------------
# the tile_fits / FitsTiler workflow (shared with checks/c14.py)
# ------------------------------------------------------------------------------------------------

# (RA, Dec of the centre, lowest value, highest value): far apart on the sky, distinct value ranges
WF_IMAGES = [(30.0, 30.0, 100.0, 200.0), (210.0, -30.0, 1.0, 2.0), (300.0, 20.0, -50.0, -40.0)]


def workflow_run(args):
    """Real run: toasty.tile_fits in TOAST mode on tiny FITS images, then read EVERYTHING back with astropy:
    the finite data range of every leaf file (ground truth), the cards of every tile, the Builder, the WTML."""
    scratch, order, start, parallel = args[:4]
    tan_shape = args[4] if len(args) > 4 else None      # TAN route: one image of this (height, width), depth chosen by toasty
    integer = args[5] if len(args) > 5 else False       # integer-valued pixels (so that TLC can take the stored base layer)
    repo.setup()
    import glob
    import os
    import tempfile
    import warnings
    import xml.etree.ElementTree as ET
    import numpy as np
    from astropy.io import fits
    from astropy.wcs import WCS
    warnings.simplefilter("ignore")
    work = tempfile.mkdtemp(prefix="c14wf-", dir=scratch)
    paths = []
    n = 24
    for k in order:
        ra, dec, lo, hi = WF_IMAGES[k]
        ny, nx = tan_shape or (n, n)
        w = WCS(naxis=2)
        w.wcs.ctype = ["RA---TAN", "DEC--TAN"]
        w.wcs.crval = [ra, dec]
        w.wcs.crpix = [nx / 2 + 0.5, ny / 2 + 0.5]
        w.wcs.cdelt = [-0.1, 0.1] if tan_shape is None else [-0.001, 0.001]
        data = np.linspace(lo, hi, ny * nx, dtype=np.float32).reshape((ny, nx))
        if integer:
            data = np.round(data * (50 if hi - lo < 5 else 1)).astype(np.float32)
        data[3, 5] = np.nan
        path = os.path.join(work, "img%d.fits" % k)
        fits.writeto(path, data, header=w.to_header(), overwrite=True)
        paths.append(path)
    out = os.path.join(work, "tiled")
    obs = {"out": out, "order": list(order), "start": start, "parallel": parallel, "error": None, "leaves": {}, "tiles": {},
           "route": "TOAST" if tan_shape is None else "TAN %dx%d" % (tan_shape[1], tan_shape[0])}
    try:
        from toasty import TilingMethod, tile_fits
        if tan_shape is None:
            _dir, bld = tile_fits(fits=paths, out_dir=out, tiling_method=TilingMethod.TOAST, parallel=parallel, override=True, start=start)
        else:
            _dir, bld = tile_fits(fits=paths, out_dir=out, tiling_method=TilingMethod.TAN, parallel=parallel, override=True)
            start = obs["start"] = int(bld.imgset.tile_levels)
        obs["imgset"] = (float(bld.imgset.data_min), float(bld.imgset.data_max))
    except BaseException as e:  # noqa
        obs["error"] = repr(e)
        return obs
    found, _other = scan_tiles(out, "fits")
    for pos, path in found.items():
        with fits.open(path) as hdul:
            hdr = dict((k, float(hdul[0].header[k])) for k in ("DATAMIN", "DATAMAX") if k in hdul[0].header)
            obs["tiles"][pos] = hdr
            if pos[0] == start:
                d = np.asarray(hdul[0].data)
                d = d[np.isfinite(d)]
                obs["leaves"][pos] = (float(d.min()), float(d.max())) if d.size else None
    wtml = os.path.join(out, "index_rel.wtml")
    if os.path.exists(wtml):
        obs["wtml"] = [(float(e.get("DataMin", "0")), float(e.get("DataMax", "0"))) for e in ET.parse(wtml).getroot().iter("ImageSet")]
    return obs



def deep_prepare(ctx, pool_map):
    """C02 side of the workflow: real tile_fits TOAST runs (integer-valued images of disjoint footprints, several input
    orders), then (a) Cascade.tla cases over the stored base tiles for the expected tile SET and (b) MCDeep's input: the
    base layer as stored + the pixels of every tile above it that TLC is asked to compute."""
    import itertools
    import json
    import numpy as np
    from astropy.io import fits
    quick = ctx.quick
    orders = [(0, 1), (1, 0), (0, 1, 2), (2, 1, 0)] if quick else (list(itertools.permutations(range(2))) + list(itertools.permutations(range(3))))
    runs = [(ctx.scratch, o, 3, 1, None, True) for o in orders]
    if not quick:
        runs += [(ctx.scratch, (1, 2, 0), 4, 1, None, True), (ctx.scratch, (0, 1), 3, 2, None, True), (ctx.scratch, (0,), 3, 1, None, True)]
    observed = pool_map(workflow_run, runs)
    cases, table, wants = [], [], []
    for i, obs in enumerate(observed):
        ctx.count()
        what = "tile_fits TOAST images %s start %d parallel %d" % (obs["order"], obs["start"], obs["parallel"])
        if obs["error"]:
            ctx.violation("C02:workflow-raised:fits", "%s raised %s" % (what, obs["error"]), {"order": obs["order"]})
            continue
        depth = obs["start"]
        found, _o = scan_tiles(obs["out"], "fits")
        arrays = {}
        for pos, path in found.items():
            with fits.open(path) as hdul:
                arrays[pos] = np.array(hdul[0].data, dtype=np.float64)
        leaves_json, leaf_cases, boxes = [], {}, {}
        for pos, a in sorted(arrays.items()):
            if pos[0] != depth:
                continue
            ok = np.isfinite(a)
            if not ok.any():
                continue
            if not np.array_equal(a[ok], np.round(a[ok])):
                ctx.machinery("%s: base tile %s holds non-integer values" % (what, pos))
            rr, cc = np.where(ok.any(axis=1))[0], np.where(ok.any(axis=0))[0]
            r0, r1, c0, c1 = rr[0], rr[-1], cc[0], cc[-1]
            box = a[r0:r1 + 1, c0:c1 + 1]
            leaves_json.append({"pos": list(pos), "r0": int(r0) + 1, "c0": int(c0) + 1,
                                "rows": [[[] if not np.isfinite(v) else [int(v)] for v in row] for row in box]})
            boxes[pos] = (r0, r1, c0, c1)
            leaf_cases[pos] = (((1,), ()), ((), ()))          # for the tile set only: "holds a defined pixel"
        # pixels to evaluate: where the base layer's data lands in each tile above it (+ a seeded scatter), chosen from the
        # stored files; TLC decides what must be there
        rng = np.random.default_rng(ctx.seed + i)
        want = []
        above = sorted(set(ancestor(l, n) for l in boxes for n in range(depth)) | set(p for p in arrays if p[0] < depth))
        for p in above:
            h = depth - p[0]
            picks = set((int(r), int(c)) for r, c in rng.integers(0, TILE, size=(60, 2)))
            for l, (r0, r1, c0, c1) in boxes.items():
                if ancestor(l, p[0]) != p:
                    continue
                # leaf file rows -> display rows -> position inside the ancestor (display) -> file rows again (fits: bottom-up)
                dy0, dy1 = (TILE - 1 - r1), (TILE - 1 - r0)
                oy = (l[2] - (p[2] << h)) * TILE
                ox = (l[1] - (p[1] << h)) * TILE
                ys = range((oy + dy0) >> h, ((oy + dy1) >> h) + 1)
                xs = range((ox + c0) >> h, ((ox + c1) >> h) + 1)
                cells = [(TILE - 1 - y, x) for y in ys for x in xs]
                if len(cells) > 150:
                    cells = [cells[k] for k in rng.choice(len(cells), size=150, replace=False)]
                picks.update(cells)
            for r, c in sorted(picks):
                want.append({"pos": list(p), "r": r + 1, "c": c + 1})
        table.append({"n": TILE, "depth": depth, "bottomup": True, "leaves": leaves_json, "want": want})
        wants.append((obs, what, arrays, want))
        cases.append({"id": 8000 + i, "T": 2, "depth": depth, "fmt": "fits", "dtag": "f4", "mode": "Float", "run": "workflow",
                      "keepu": False, "leaves": leaf_cases, "stale": set(), "live": set(leaf_cases), "sv": (0,), "scale": 1.0,
                      "has_data": True, "has_finite": True, "negzero": False, "rewrite": False,
                      "found": sorted(found), "what": what, "compare": ("checks.c02", "deep_tileset_compare")})
    path = os.path.join(ctx.scratch, "deep-in.json")
    with open(path, "w") as f:
        json.dump(table, f)
    tasks = {}
    for c in cases:
        tasks.setdefault(c["depth"], []).append(c)
    tasks = [{"name": "MCC02wf%d" % d, "T": 2, "depth": d, "cases": cs, "chunk": 60, "window": 2 if d >= 3 else None} for d, cs in sorted(tasks.items())]
    return tasks, wants, path


def deep_tileset_compare(meta, rec):
    """The tiles tile_fits left above the base layer must be exactly those of a cascade whose filter accepts every
    populated tile (TLC's final directory for the stored base tiles)."""
    want = set(tuple(t["pos"]) for t in rec["final"])
    got = set(tuple(p) for p in meta["found"])
    out = []
    if want != got:
        out.append(("C02", "V", "workflow-tile-set", "tiles missing %s, unexpected %s [%s]" % (sorted(want - got), sorted(got - want), meta["what"])))
    return out, {"tiles": len(want)}


def deep_tlc(ctx, in_path):
    import json
    out_path = os.path.join(ctx.scratch, "deep-out.json")
    ctx.tlc("MCDeep", cfg_text="CONSTANTS\n T = 2\n", env={"IN": in_path, "OUT": out_path}, workers=1, timeout=3600, count=False)
    with open(out_path) as f:
        return json.load(f)


def deep_compare(ctx, wants, expected):
    import numpy as np
    if len(expected) != len(wants):
        ctx.machinery("MCDeep returned %d pyramids for %d" % (len(expected), len(wants)))
        return
    npx = 0
    for (obs, what, arrays, want), exp in zip(wants, expected):
        ctx.trace_ok()
        maxabs = max([float(np.nanmax(np.abs(a))) for a in arrays.values() if np.isfinite(a).any()] or [1.0])
        bad = None
        for w, e in zip(want, exp):
            p = tuple(w["pos"])
            npx += 1
            ev = np.nan if e[1] == 0 else e[0] / e[1]
            if p not in arrays:
                if not np.isnan(ev) and bad is None:
                    bad = "tile %s is missing although TLC finds defined pixels in it (e.g. stored pixel (%d, %d) = %r)" % (p, w["r"] - 1, w["c"] - 1, ev)
                continue
            gv = float(arrays[p][w["r"] - 1, w["c"] - 1])
            tol = 2.0 * np.finfo(np.float32).eps * (obs["start"] - p[0]) * maxabs
            same = (np.isnan(ev) and np.isnan(gv)) or (not np.isnan(ev) and not np.isnan(gv) and abs(ev - gv) <= tol)
            if not same and bad is None:
                bad = "tile %s, stored pixel (row %d, col %d) holds %r, the reduction of the stored base layer gives %r" % (p, w["r"] - 1, w["c"] - 1, gv, ev)
        ctx.distinct(("workflow", tuple(obs["order"]), obs["start"], obs["parallel"]))
        if bad:
            ctx.violation("C02:workflow-pixels:fits", "%s [%s]" % (bad, what), {"order": obs["order"], "start": obs["start"]})
    ctx.note("workflow_toast", {"runs": len(wants), "pixels_compared": npx})


# ------------------------------------------------------------------------------------------------
# lossy tile formats (jpg with noisy content), code -> spec: the property speaks about the tiles AS STORED
# ------------------------------------------------------------------------------------------------

LOSSY_POPULATIONS = [
    # depth, leaves: sparse, several parents with their bottom-right child present
    (2, [(2, 0, 0), (2, 1, 1), (2, 3, 0), (2, 2, 2), (2, 3, 2), (2, 2, 3), (2, 3, 3), (2, 1, 3)]),
    (2, [(2, 3, 3), (2, 0, 1), (2, 1, 0), (2, 2, 1), (2, 3, 1), (2, 0, 3)]),
    (3, [(3, 7, 7), (3, 6, 6), (3, 1, 1), (3, 0, 1), (3, 5, 3), (3, 4, 2), (3, 5, 2), (3, 3, 7)]),
    (2, [(2, x, y) for y in range(4) for x in range(4)]),
]


def lossy_real_run(args):
    """Noisy RGB leaves written as jpg by the real PyramidIO, cascaded serially (and by a 2-process twin on a copy of
    the very same leaf files).  Only runs the code; what was stored is looked at afterwards."""
    scratch, idx, seed, depth, leaves, run, twin = args
    repo.setup()
    import numpy as np
    import warnings
    warnings.simplefilter("ignore")
    from toasty.pyramid import PyramidIO, Pos
    from toasty.image import Image
    rng = np.random.default_rng(seed * 1000 + idx)
    base = tempfile.mkdtemp(prefix="c02-lossy-", dir=scratch)
    out = {"idx": idx, "depth": depth, "run": run, "base": base, "twin": None, "error": None, "twin_error": None}
    pio = PyramidIO(base, default_format="jpg")
    for l in leaves:
        smooth = rng.integers(0, 256, size=(1, 1, 3))
        noise = rng.integers(0, 256, size=(TILE, TILE, 3))
        arr = noise if (l[1] + l[2]) % 3 else (noise // 2 + smooth // 2)
        pio.write_image(Pos(*l), Image.from_array(arr.astype(np.uint8)))
    if twin:
        out["twin"] = base + "-par"
        shutil.copytree(base, out["twin"])
    meta = {"fmt": "jpg", "depth": depth}
    try:
        _run_cascade(pio, base, meta, {"live": []}, run)
    except BaseException as e:  # noqa
        out["error"] = repr(e)
    if twin:
        try:
            _run_cascade(PyramidIO(out["twin"], default_format="jpg"), out["twin"], meta, {"live": []}, "par2")
        except BaseException as e:  # noqa
            out["twin_error"] = repr(e)
    return out


def _decode_jpg(path):
    import numpy as np
    from PIL import Image as PILImage
    with PILImage.open(path) as im:
        from PIL import JpegImagePlugin
        info = (im.quantization, JpegImagePlugin.get_sampling(im))
        return np.array(im.convert("RGB")), info


def _reencode(arr, info):
    """Encode with the stored file's own quantisation tables and chroma subsampling, decode again."""
    import io
    import numpy as np
    from PIL import Image as PILImage
    buf = io.BytesIO()
    PILImage.fromarray(arr).save(buf, format="JPEG", qtables=info[0], subsampling=info[1])
    buf.seek(0)
    with PILImage.open(buf) as im:
        return np.array(im.convert("RGB"))


def lossy_observe(ctx, runs, full_all):
    """Decode what the real runs stored; build MCLossy's input (the stored children of every parent)."""
    import json
    import numpy as np
    parents, table = [], []
    for obs in runs:
        if obs["error"]:
            continue
        found, _other = scan_tiles(obs["base"], "jpg")
        dec = dict((p, _decode_jpg(path)) for p, path in found.items())
        obs["found"] = found
        obs["decoded"] = dec
        above = sorted((p for p in dec if p[0] < obs["depth"]), key=lambda p: (-p[0], p[2], p[1]))
        for k, p in enumerate(above):
            ks = [dec.get(q) for q in kids(p)]
            # every output pixel through TLC for the tiles two or more levels above the leaves (all parents in the
            # thorough tier); 1500 seeded sample pixels per tile otherwise
            full = full_all or p[0] <= obs["depth"] - 2
            want = [] if full else [[int(a), int(b)] for a, b in np.random.default_rng(k).integers(1, TILE + 1, size=(1500, 2))]
            table.append({"n": TILE, "kids": [[] if kk is None else kk[0].tolist() for kk in ks], "want": want})
            parents.append((obs, p, ks, want))
    path = os.path.join(ctx.scratch, "lossy-in.json")
    with open(path, "w") as f:
        json.dump(table, f)
    return parents, path


def lossy_tlc(ctx, in_path):
    import json
    out_path = os.path.join(ctx.scratch, "lossy-out.json")
    ctx.tlc("MCLossy", cfg_text="CONSTANTS\n T = 2\n", env={"IN": in_path, "OUT": out_path}, workers=1, timeout=3600, count=False)
    with open(out_path) as f:
        return json.load(f)


def lossy_compare(ctx, runs, parents, expected):
    """Every stored parent must be the re-encoding (with its own tables) of the 2x2 reduction of its STORED children.
    The reduction comes from TLC as <<floor, ceiling>> of the exact mean; the statement fixes the data type, not the
    rounding, so the candidates are the uniform roundings: down, up, to nearest (ties to even / ties up)."""
    import numpy as np
    if len(expected) != len(parents):
        ctx.machinery("MCLossy returned %d tiles for %d parents" % (len(expected), len(parents)))
        return
    ntiles = 0
    for (obs, p, ks, want), exp in zip(parents, expected):
        ctx.count()
        ctx.trace_ok()
        ntiles += 1
        what = "lossy case %d: jpg depth %d run %s" % (obs["idx"], obs["depth"], obs["run"])
        # the stored children's block sums (harness arithmetic, used for the remainder that picks "nearest" and, for
        # the sampled tiles, for the pixels TLC was not asked about - anchored to TLC's values at the sample)
        mosaic = np.zeros((2 * TILE, 2 * TILE, 3), dtype=np.int64)
        for slot, kk in enumerate(ks):
            if kk is not None:
                j, i = slot // 2, slot % 2
                mosaic[TILE * j: TILE * (j + 1), TILE * i: TILE * (i + 1)] = kk[0]
        s4 = mosaic.reshape(TILE, 2, TILE, 2, 3).sum(axis=(1, 3))
        e = np.array(exp, dtype=np.int64)
        if not want:
            lo, hi = e[:, :, :3, 0], e[:, :, :3, 1]
            if not (np.array_equal(lo, s4 // 4) and np.array_equal(hi, -((-s4) // 4))):
                ctx.machinery("%s: the harness's mosaic of tile %s disagrees with TLC's display sentence" % (what, p))
                continue
        else:
            lo, hi = s4 // 4, -((-s4) // 4)
            rr = np.array([w[0] - 1 for w in want])
            cc = np.array([w[1] - 1 for w in want])
            if not (np.array_equal(lo[rr, cc], e[:, :3, 0]) and np.array_equal(hi[rr, cc], e[:, :3, 1])):
                ctx.machinery("%s: the harness's reduction of tile %s disagrees with TLC at the sampled pixels" % (what, p))
                continue
        rem = s4 % 4
        cands = {"down": lo, "up": hi,
                 "nearest-even": np.where(rem < 2, lo, np.where(rem > 2, hi, np.where(lo % 2 == 0, lo, hi))),
                 "nearest-up": np.where(rem < 2, lo, hi)}
        stored, info = obs["decoded"][p]
        best = None
        for name, cand in cands.items():
            diff = np.abs(_reencode(cand.astype(np.uint8), info).astype(np.int64) - stored.astype(np.int64))
            if best is None or diff.sum() < best[1].sum():
                best = (name, diff)
            if not diff.any():
                break
        ctx.distinct(("lossy", obs["idx"], obs["run"], p))
        if best[1].any():
            h = TILE // 2
            quads = dict(((j, i), int(best[1][h * j: h * (j + 1), h * i: h * (i + 1)].max())) for j in range(2) for i in range(2))
            ctx.violation("C02:stored-children:serial:jpg",
                          "tile %s is not the 2x2 reduction of its children as stored: against the re-encoded reduction (closest rounding: %s) "
                          "%d of %d samples differ, by up to %d grey levels; largest difference per quadrant (row, col) %s [%s]"
                          % (p, best[0], int((best[1] > 0).sum()), best[1].size, int(best[1].max()), quads, what),
                          {"case": obs["idx"], "depth": obs["depth"], "run": obs["run"], "tile": p})
    # serial = parallel on the same stored leaves
    for obs in runs:
        ctx.count()
        if obs["error"]:
            ctx.violation("C02:raised:serial:jpg", "the cascade raised %s [lossy case %d]" % (obs["error"], obs["idx"]), {"case": obs["idx"]})
            continue
        if not obs["twin"]:
            continue
        if obs["twin_error"]:
            ctx.violation("C02:raised:parallel:jpg", "the 2-process cascade raised %s [lossy case %d]" % (obs["twin_error"], obs["idx"]), {"case": obs["idx"]})
            continue
        tfound, _o = scan_tiles(obs["twin"], "jpg")
        if set(tfound) != set(obs["found"]):
            ctx.violation("C02:serial-vs-parallel:jpg", "serial run stored tiles %s, the 2-process run %s [lossy case %d]"
                          % (sorted(set(obs["found"]) - set(tfound)), sorted(set(tfound) - set(obs["found"])), obs["idx"]), {"case": obs["idx"]})
            continue
        for p in sorted(tfound):
            a, _i = _decode_jpg(tfound[p])
            if not np.array_equal(a, obs["decoded"][p][0]):
                d = np.abs(a.astype(np.int64) - obs["decoded"][p][0].astype(np.int64))
                ctx.violation("C02:serial-vs-parallel:jpg", "tile %s differs between the serial and the 2-process cascade of the same stored "
                              "leaves (%d samples, up to %d grey levels) [lossy case %d]" % (p, int((d > 0).sum()), int(d.max()), obs["idx"]),
                              {"case": obs["idx"], "tile": p})
                break
    ctx.note("lossy_jpg", {"cases": len(runs), "parents_compared": ntiles,
                           "fully_through_tlc": len([1 for _o, _p, _k, w in parents if not w])})


# ------------------------------------------------------------------------------------------------
# histories over one pyramid directory (spec/CascadeHistory.tla): staged cascades, leaf data that grows between cascades,
# one Builder used for several cascades, a Builder restored from index_rel.wtml
# ------------------------------------------------------------------------------------------------

HIST_INVARIANTS = ["HistCase", "DoneRight", "ExistenceRule", "NeverStoredUndefined", "RangeRule", "LeafRangeRule", "NoRangeUnlessRanged",
                   "BuilderRule", "IndexRule"]


def make_history_case(rng, cid, T, depth, fmt, dtag, run="serial", second=True):
    """A case of CascadeHistory.tla: `final` = what the leaf files hold in the end, `first` = the first batch - fewer leaves,
    some of them in a narrower version (without their extreme pixels; PyramidIO.update_image paints those in later)."""
    mode = CONFIGS[(fmt, dtag)]
    c = make_case(rng, cid, T, depth, fmt, dtag, run=run, pleaf=0.7, stale_p=0.0, keepu=False,
                  shape="peaks" if mode in ("Float", "Int") else "history-plain", rewrite_p=0.0)
    c["warn_env"], c["dirname"], c["spelling"], c["fmt_route"], c["negzero"] = "quiet", "tiles", "abs", "explicit", False
    final = dict((l, m) for l, m in c["leaves"].items() if not _is_allu(m, mode))
    if len(final) < 2:
        for l in level(depth)[:3]:
            final.setdefault(l, _leaf_matrix(rng, T, mode, dtag, [4 ** depth, 255, 200], "full"))
    first = dict(final)
    if second:
        order = sorted(final)
        late = set(rng.sample(order, max(1, len(order) // 3)))
        if c["peaks"] and rng.random() < 0.5:
            late.add(order[-1])                      # the leaf holding the overall maximum arrives with the second batch
        if len(late) == len(order):
            late.discard(order[0])
        for l in late:
            del first[l]
        for l in sorted(first):
            pk = c["peaks"].get(l)
            if pk and (l == order[-1] or rng.random() < 0.6):
                # the first version lacks the leaf's extreme pixels (undefined; integer data: 0, the update keeps the larger value)
                m = [list(row) for row in first[l]]
                for r, col in pk:
                    m[r][col] = () if mode == "Float" else (0,)
                first[l] = tuple(tuple(row) for row in m)
    c["leaves"], c["first"], c["final"] = final, first, final
    c["live"] = set(level(depth))
    c["has_data"], c["history"] = True, True
    return c


def hist_cfg_text(T, depth, maxops):
    lines = ["SPECIFICATION HSpec", "CONSTANTS", " T = %d" % T, " Depth = %d" % depth, " Cases <- MCCases", " Window = 1", " MaxOps = %d" % maxops]
    lines += ["INVARIANT %s" % i for i in HIST_INVARIANTS]
    lines += ["INVARIANT EmitCase", "INVARIANT EmitHistory", "CHECK_DEADLOCK FALSE"]
    return "\n".join(lines) + "\n"


def run_tlc_history(ctx, name, T, depth, cases, maxops, timeout=3600, workers=3):
    """Model-check the histories of the cases; -> (TLC result, {"C": per-case records, "H": per-state histories})."""
    text = tla.module(name, ["MCCascadeHistory"], [("MCCases", "{" + ",\n ".join(tla_case(c) for c in cases) + "}")])
    r = ctx.tlc(name, extra={name + ".tla": text}, cfg_text=hist_cfg_text(T, depth, maxops), timeout=timeout, workers=workers)
    return r, {"C": r.json_lines("C"), "H": r.json_lines("H")}


def _step_label(st):
    return {"cascade": "c", "write": "w", "index": "i", "builder": "b"}[st["op"]] + st["how"][:1] + (str(st["k"]) if st["op"] == "cascade" else "")


def select_histories(hists, limit):
    """The maximal histories (no other history extends them), or - with a limit - a greedy cover: histories are taken, longest
    first, as long as they show a pair of steps (in order, not necessarily adjacent) or three consecutive steps not seen yet."""
    labelled = sorted(set(tuple(_step_label(st) for st in h) for h in hists), key=lambda q: (-len(q), q))
    by_label = dict((tuple(_step_label(st) for st in h), h) for h in hists)
    maximal = [q for q in labelled if not any(o != q and o[:len(q)] == q for o in labelled)]
    if limit is None or len(maximal) <= limit:
        return [by_label[q] for q in maximal]

    def features(q):
        f = set((q[i], q[j]) for i in range(len(q)) for j in range(i + 1, len(q)))
        f |= set(q[i:i + 3] for i in range(len(q) - 2))
        return f
    seen, picked, rest = set(), [], list(maximal)
    while rest and len(picked) < limit:
        best = max(rest, key=lambda q: (len(features(q) - seen), len(q), tuple(-ord(ch) for ch in " ".join(q))))
        if not features(best) - seen:
            break
        picked.append(best)
        seen |= features(best)
        rest.remove(best)
    return [by_label[q] for q in picked]


def history_jobs(ctx, task, cases, recs):
    by_id = dict((c["id"], c) for c in cases)
    crec = dict((r["id"], r) for r in recs["C"])
    if set(crec) != set(by_id):
        ctx.machinery("TLC emitted case records for %s, the cases are %s" % (sorted(crec), sorted(by_id)))
        return []
    jobs, total = [], 0
    for cid in sorted(by_id):
        c, cr = by_id[cid], crec[cid]
        hs = [r["hist"] for r in recs["H"] if r["id"] == cid]
        chosen = select_histories(hs, task.get("replay_limit"))
        total += len(hs)
        for n, h in enumerate(chosen):
            meta = dict((k, v) for k, v in c.items() if k not in ("leaves", "first", "final"))
            meta["scratch"] = ctx.scratch
            meta["id"] = "%s.h%d" % (cid, n)
            meta["label"] = " ".join(_step_label(st) for st in h)
            last = h[-1]["batch"]
            rec = {"id": cid, "hist": h, "given1": cr["given1"], "given2": cr["given2"], "init": cr["init"], "fin1": cr["fin1"], "fin2": cr["fin2"],
                   "connected1": cr["connected1"], "connected2": cr["connected2"], "ranged": cr["ranged"], "keepu": cr["keepu"],
                   "given": cr["given%d" % last], "final": cr["fin%d" % last]}
            jobs.append((meta, rec))
    ctx.notes["histories"] = {"explored_by_tlc": ctx.notes.get("histories", {}).get("explored_by_tlc", 0) + total,
                              "replayed": ctx.notes.get("histories", {}).get("replayed", 0) + len(jobs)}
    return jobs


def _restore_builder(bld, base):
    """What FitsTiler does when it reuses a directory: the Builder's imageset is the one recorded in index_rel.wtml."""
    from wwt_data_formats.folder import Folder
    from wwt_data_formats.imageset import ImageSet
    from wwt_data_formats.place import Place
    for item in Folder.from_file(os.path.join(base, "index_rel.wtml")).children:
        if isinstance(item, Place) and item.foreground_image_set is not None:
            bld.place = item
            bld.imgset = item.foreground_image_set
            return True
        if isinstance(item, ImageSet):
            bld.imgset = item
            bld.place.foreground_image_set = item
            return True
    return False


def replay_history(job):
    """One TLC history through the real code, judged after every step.  -> (findings, stats) like replay_case."""
    meta, rec = job
    repo.setup()
    import numpy as np
    import warnings
    import xml.etree.ElementTree as ET
    warnings.resetwarnings()
    warnings.simplefilter("ignore")
    out = []
    fmt, depth, T, mode = meta["fmt"], meta["depth"], meta["T"], meta["mode"]
    fam = "%s-%s" % (fmt, meta["dtag"])
    ntiles = [0]

    def add(prop, sev, key, msg):
        out.append((prop, sev, key, "%s [case %s: %s depth %d T %d history: %s]" % (msg, meta["id"], fam, depth, T, meta["label"])))

    def f32(pair):
        return (np.float32(pair[0] * meta["scale"]), np.float32(pair[1] * meta["scale"]))

    leafvals = [abs(ch[0]) for g in rec["given2"] for row in g["px"] for px in row for ch in px]
    maxabs = (max(leafvals) if leafvals else 1) * meta["scale"]
    root = tempfile.mkdtemp(prefix="c02h-", dir=meta["scratch"])
    base = os.path.join(root, "tiles")
    os.makedirs(base)

    def judge(st, i, what):
        """The levels that are current after this step (and the leaves) against TLC's directory for the batch on disk."""
        exp = dict((tuple(t["pos"]), t) for t in rec["fin%d" % st["batch"]])
        levels = set(st["current"]) | set([depth])
        found, _other = scan_tiles(base, fmt)
        want = set(p for p in exp if p[0] in levels)
        got = set(p for p in found if p[0] in levels)
        may = set(p for p in want if exp[p].get("may"))
        if (want - may) - got or got - want:
            add("C02", "V", "tile-set:history", "after step %d (%s): tiles missing %s, unexpected %s" % (i + 1, what, sorted((want - may) - got), sorted(got - want)))
        for p in sorted(want & got):
            arr, hdr = load_raw(found[p], fmt)
            ntiles[0] += 1
            res = compare_tile(arr, exp[p]["px"], meta, depth - p[0], maxabs)
            if res is not None:
                add("C02", "V", "%s:history" % res[0], "after step %d (%s): tile %s: %s" % (i + 1, what, p, res[1]))
                break
        if fmt == "fits" and rec["ranged"] and rec["connected%d" % st["batch"]]:
            for p in sorted(want & got):
                rng_ = exp[p]["rng"]
                _arr, hdr = load_raw(found[p], fmt)
                if not rng_:
                    if hdr:
                        add("C14", "V", "tile-range:history", "after step %d (%s): tile %s records %s although no finite value lies beneath it" % (i + 1, what, p, hdr))
                        break
                    continue
                got_r = (np.float32(hdr.get("DATAMIN", np.nan)), np.float32(hdr.get("DATAMAX", np.nan)))
                if got_r != f32(rng_):
                    add("C14", "V", "tile-range:history", "after step %d (%s): tile %s records DATAMIN/DATAMAX = %s, the leaves beneath it range over %s"
                        % (i + 1, what, p, got_r, f32(rng_)))
                    break

    old = signal.signal(signal.SIGALRM, _alarm)
    signal.alarm(180)
    try:
        from toasty import cli
        from toasty.builder import Builder
        from toasty.image import Image
        from toasty.merge import averaging_merger, cascade_images
        from toasty.pyramid import PyramidIO, Pos
        pio = _populate(base, meta, {"given": rec["given1"], "init": rec["init"]})
        bld = Builder(pio)
        g1 = dict((tuple(g["pos"]), g) for g in rec["given1"])
        par_last = _par_of(meta["run"])
        for i, st in enumerate(rec["hist"]):
            last = i == len(rec["hist"]) - 1
            if st["op"] == "write":
                # the second batch: new leaves are written, leaves that are there already are updated in place
                for g in rec["given2"]:
                    pos = tuple(g["pos"])
                    arr = concrete_tile(g["px"], meta, 0)
                    if pos not in g1:
                        pio.write_image(Pos(*pos), Image.from_array(arr))
                    elif g["px"] != g1[pos]["px"]:
                        img = Image.from_array(arr)
                        with pio.update_image(Pos(*pos), masked_mode=img.mode, default="masked") as basis:
                            img.update_into_maskable_buffer(basis, slice(None), slice(None), slice(None), slice(None))
                judge(st, i, "second batch of leaf data written")
            elif st["op"] == "builder":
                pio = PyramidIO(base, default_format=fmt)
                bld = Builder(pio)
                if st["how"] == "restored" and not _restore_builder(bld, base):
                    add("C14", "D", "restore", "index_rel.wtml holds no imageset to restore the Builder from")
            elif st["op"] == "index":
                bld.write_index_rel_wtml()
                sets = [(float(e.get("DataMin", "0")), float(e.get("DataMax", "0"))) for e in ET.parse(os.path.join(base, "index_rel.wtml")).getroot().iter("ImageSet")]
                if len(sets) != 1:
                    add("C14", "D", "wtml-shape", "index_rel.wtml holds %d ImageSet elements" % len(sets))
                elif fmt == "fits" and rec["connected%d" % st["batch"]] and st["idx"]:
                    gotw = tuple(np.float32(v) for v in sets[0])
                    if gotw != f32(st["idx"]):
                        add("C14", "V", "wtml-range:history", "after step %d: index_rel.wtml has DataMin/DataMax = %s, the leaf tiles now in the directory range "
                            "over %s" % (i + 1, gotw, f32(st["idx"])))
            else:
                k = st["k"]
                par = par_last if last else 1
                what = "%s cascade from level %d" % ("Builder" if st["how"] == "builder" else "API / CLI", k)
                try:
                    if st["how"] == "builder":
                        bld.imgset.tile_levels = k
                        bld.cascade(parallel=par)
                    elif i % 2 == 0:
                        cascade_images(pio, k, averaging_merger, parallel=par)
                    else:
                        cli.entrypoint(["cascade", "--parallelism", str(par), "--format", fmt, "--start", str(k), base])
                except _Timeout:
                    raise
                except BaseException as e:  # noqa
                    add("C02", "V", "raised:history", "step %d (%s) raised %r" % (i + 1, what, e))
                    if st["how"] == "builder":
                        add("C14", "V", "builder-raised:history", "step %d (%s) raised %r" % (i + 1, what, e))
                    break
                judge(st, i, what)
                if st["how"] == "builder" and fmt == "fits" and rec["connected%d" % st["batch"]]:
                    got = tuple(np.float32(v) for v in (bld.imgset.data_min, bld.imgset.data_max))
                    if got != f32(st["bld"]):
                        add("C14", "V", "imageset-range:history", "after step %d (%s): the Builder's imageset has data_min/data_max = %s, the leaf tiles now in "
                            "the directory range over %s" % (i + 1, what, got, f32(st["bld"])))
        return out, {"tiles": ntiles[0]}
    except _Timeout:
        add("C02", "M", "timeout", "the history did not finish within 180 s")
        return out, {"tiles": 0}
    finally:
        signal.alarm(0)
        signal.signal(signal.SIGALRM, old)
        os.chdir(meta["scratch"])
        shutil.rmtree(root, ignore_errors=True)


def history_tasks(ctx, prop, configs, depths=(2,)):
    """TLC tasks of kind `history`: (format, dtype, run of the last cascade, second batch?) per configuration."""
    tasks = []
    cid = 6000
    for depth in depths:
        cases = []
        for fmt, dtag, run, second in configs:
            cid += 1
            cases.append(make_history_case(ctx.rng, cid, 4 if depth <= 2 else 8, depth, fmt, dtag, run=run, second=second))
        tasks.append({"name": "MC%shist%d" % (prop, depth), "kind": "history", "T": 4 if depth <= 2 else 8, "depth": depth, "cases": cases,
                      "chunk": 2 if depth <= 2 else 1, "maxops": 4 * depth + 2, "replay_limit": 10 if ctx.quick else None})
    return tasks


# ------------------------------------------------------------------------------------------------
# the multiprocessing START METHOD as a configuration dimension
# ------------------------------------------------------------------------------------------------

NOFORK_METHODS = ["spawn", "forkserver"]
NOFORK_PARALLEL = [None, 2, 4]
NOFORK_UNITS = ("d2c0", "d3sc0")       # the TLC units whose records are also run without fork (deterministic choice)


def nofork_select(js, limit=6):
    """Cases to run again in a process whose start method is not fork: several parents in flight, every format at most twice."""
    picked, seen = [], {}
    for meta, rec in js:
        if meta.get("compare") or rec.get("refused") or meta["run"] not in ("serial", "cli", "filter"):
            continue
        nparents = len([t for t in rec["final"] if t["pos"][0] == meta["depth"] - 1 and not t.get("may")])
        if nparents < 3 or seen.get((meta["fmt"], meta["mode"]), 0) >= 2 or meta["fmt"] == "jpg":
            continue
        seen[(meta["fmt"], meta["mode"])] = seen.get((meta["fmt"], meta["mode"]), 0) + 1
        picked.append((meta, rec))
        if len(picked) >= limit:
            break
    out = []
    for i, (meta, rec) in enumerate(picked):
        for k, par in enumerate(NOFORK_PARALLEL):
            m = dict(meta)
            m["start_method"] = NOFORK_METHODS[(i + k) % len(NOFORK_METHODS)]
            m["run"] = "%s%spar%s" % (meta["run"] if meta["run"] != "serial" else "", "-" if meta["run"] != "serial" else "", par)
            m["id"] = "%s/%s-par%s" % (meta["id"], m["start_method"], par)
            m["rewrite"] = False
            out.append((m, rec))
    return out


def nofork_child(path):
    """Runs in a FRESH interpreter (the start method is process-global): replay the pickled jobs with the start method set."""
    import multiprocessing as mp
    import pickle
    with open(path, "rb") as f:
        jobs = pickle.load(f)
    out = []
    for job in jobs:
        mp.set_start_method(job[0]["start_method"], force=True)
        out.append(replay_case(job))
    with open(path + ".out", "wb") as f:
        pickle.dump(out, f)


def nofork_batch(jobs):
    """Pool worker: hand the jobs to a fresh interpreter and fetch its findings."""
    import pickle
    import subprocess
    if not jobs:
        return []
    fd, path = tempfile.mkstemp(prefix="c02-nofork-", suffix=".pkl", dir=jobs[0][0]["scratch"])
    with os.fdopen(fd, "wb") as f:
        pickle.dump(jobs, f)
    root = os.path.dirname(os.path.dirname(os.path.abspath(__file__)))
    try:
        p = subprocess.run([sys.executable, "-c", "import sys; from checks import c02; c02.nofork_child(sys.argv[1])", path], cwd=root,
                           stdout=subprocess.DEVNULL, stderr=subprocess.PIPE, timeout=600, text=True, errors="replace")
        if p.returncode != 0 or not os.path.exists(path + ".out"):
            return [([("C02", "M", "nofork-child", "the interpreter running the no-fork cases failed (exit %s): %s" % (p.returncode, p.stderr[-400:]))], {"tiles": 0})] \
                + [([], {"tiles": 0}) for _ in jobs[1:]]
        with open(path + ".out", "rb") as f:
            return pickle.load(f)
    except subprocess.TimeoutExpired:
        return [([("C02", "M", "nofork-child", "the interpreter running the no-fork cases did not finish within 600 s")], {"tiles": 0})] + [([], {"tiles": 0}) for _ in jobs[1:]]


def _warm():
    import time
    time.sleep(0.3)
    return os.getpid()


def run_pipeline(ctx, tasks, enum_jobs, chunk=45, concurrent=6, workers=8, extra=None, nofork_units=()):
    """Model-check the tasks with several TLC processes side by side (TLC generates initial states sequentially and
    one case = one initial state, so the families are cut into chunks) and push every chunk's emitted records through
    the real code as soon as TLC has finished with it.  -> (jobs, results) in a deterministic order."""
    import concurrent.futures as cf
    import multiprocessing as mp
    import time
    units, windows = [], {}
    for ti, t in enumerate(tasks):
        if "expr" in t:
            units.append((ti, None, t["name"]))
            continue
        n = t.get("chunk", chunk)
        first = t.get("first_chunk", n)
        cuts = [0] + list(range(first, len(t["cases"]), n))
        for ci, k in enumerate(cuts):
            end = cuts[ci + 1] if ci + 1 < len(cuts) else len(t["cases"])
            units.append((ti, t["cases"][k:end], "%sc%d" % (t["name"], ci)))
            if ci > 0 and t.get("later_window"):
                windows[units[-1][2]] = t["later_window"]
    # the biggest models first
    units.sort(key=lambda u: -(tasks[u[0]]["depth"] * 1000 + (len(u[1]) if u[1] else 500)))

    def one(u):
        ti, cases, name = u
        t = tasks[ti]
        if t.get("kind") == "history":
            return run_tlc_history(ctx, name, t["T"], t["depth"], cases, t["maxops"], workers=max(2, 16 // concurrent))
        return run_tlc_cases(ctx, name, t["T"], t["depth"], cases=cases, cases_expr=t.get("expr"), timeout=3600,
                             workers=max(2, 16 // concurrent), window=windows.get(name, t.get("window")))
    t0 = time.time()
    # real worker processes (non-daemonic: the parallel cascades fork their own workers); all forked before any thread exists
    pool = cf.ProcessPoolExecutor(max_workers=workers, mp_context=mp.get_context("fork"), initializer=_quiet_worker)
    try:
        pids = set(f.result() for f in [pool.submit(_warm) for _ in range(workers)])
        submitted, nofork = [], []
        per_task = dict((ti, {"recs": 0, "states": 0}) for ti in range(len(tasks)))
        with cf.ThreadPoolExecutor(max_workers=concurrent) as tex:
            extra_futs = [tex.submit(fn) for fn in (extra or [])]
            futs = dict((tex.submit(one, u), u) for u in units)
            for f in cf.as_completed(futs):
                ti, cases, name = futs[f]
                r, recs = f.result()
                t = tasks[ti]
                per_task[ti]["recs"] += len(recs["H"]) if t.get("kind") == "history" else len(recs)
                per_task[ti]["states"] += r.distinct
                if t.get("kind") == "history":
                    js = history_jobs(ctx, t, cases, recs)
                elif cases is None:
                    js = enum_jobs(t, recs)
                else:
                    check_terminal_unique(ctx, recs, name)
                    js = jobs_for(ctx, cases, recs)
                # long (parallel) runs first
                js.sort(key=lambda j: 0 if j[0]["run"].endswith(("par2", "par3")) else 1)
                if name.endswith(tuple(nofork_units)) and nofork_units:
                    batch = nofork_select(js)
                    nofork.append((ti, name + "-nofork", batch, pool.submit(nofork_batch, batch)))
                for j in js:
                    submitted.append((ti, name, j, pool.submit(replay_case, j)))
            extra_results = [f.result() for f in extra_futs]
        t_tlc = time.time() - t0
        out = [(ti, name, j, fut.result()) for ti, name, j, fut in submitted]
        for ti, name, batch, fut in nofork:
            out += [(ti, name, j, res) for j, res in zip(batch, fut.result())]
    finally:
        pool.shutdown(wait=True, cancel_futures=True)
    out.sort(key=lambda o: (o[0], o[1], str(o[2][0]["id"])))
    for ti, t in enumerate(tasks):
        ctx.note("tlc_%s" % t["name"], {"T": t["T"], "depth": t["depth"], "cases": len(t["cases"]) if "cases" in t else t.get("family"),
                                         "window": t.get("window") or ("all children-first orders (first chunk), 2 (others)" if t.get("later_window") else "all children-first orders"),
                                         "distinct_states": per_task[ti]["states"], "terminal_records": per_task[ti]["recs"]})
    ctx.note("phase_wall_s", {"tlc": round(t_tlc, 1), "replay_tail": round(time.time() - t0 - t_tlc, 1), "pool_processes": len(pids)})
    if extra is not None:
        return [o[2] for o in out], [o[3] for o in out], extra_results
    return [o[2] for o in out], [o[3] for o in out]


def run(ctx):
    repo.setup(ctx)
    ctx.rule = ("cases = (format, data type, start depth 1-2 (3 in the thorough tier), sparse leaf population, leaf pixel matrices with "
                "undefined pixels, stale parent files, foreign entirely-undefined leaves, live set of a tile filter) enumerated by the "
                "harness or by TLC (depth-1 family); TLC explores every admissible merge order of each case, checks the theorems and emits "
                "the terminal directory; each is lifted to real 256x256 tiles, cascaded by the real code (serial / CLI entry point / "
                "TOAST-filtered / 2-3 real worker processes) and every file compared. distinct = distinct (format, dtype, depth, run, "
                "leaves+stale digest); non-trivial = at least one tile above the start level expected")
    quick = ctx.quick
    GLOB_DIRS[0] = True
    # ---- depth-1 family enumerated by TLC itself (T = 2): all 16 leaf subsets x matrices, both row orders, stale files
    tasks = [{"name": "MCC02enum", "T": 2, "depth": 1, "expr": enum_family_expr(quick),
              "family": "each of the 4 leaves absent or one of %s" % ("3 matrices, both row orders" if quick else "all 16 matrices over {U,1} bottom-up (17^4 populations) + 3 matrices top-down")}]
    # ---- harness-enumerated inputs, all modes / formats / run flavours
    tasks += plan_binding(ctx, "C02", QUICK_PLAN, PARALLEL_PLAN_QUICK)
    # ---- histories over one directory (CascadeHistory.tla): staged cascades (cascade(D); cascade(k < D)), leaf data growing between
    # cascades; every current tile must be the display-sentence tile of the leaves now on disk
    tasks += history_tasks(ctx, "C02", [("npy", "f4", "serial", True), ("png", "rgba", "par2", True)] +
                           ([] if quick else [("fits", "i2", "serial", True), ("npy", "u1", "par2", False), ("fits", "f8", "par2", True)]),
                           depths=(2,) if quick else (2, 3))
    def enum_jobs(t, recs):
        step = 3 if quick else 6
        return [(enum_meta(rec, i, ctx.scratch), rec) for i, rec in enumerate(recs) if i % step == 0]
    # ---- the lossy format: real jpg cascades of noisy tiles first, TLC evaluates the stored children alongside the rest
    # ---- and the pyramid a whole workflow leaves behind (tile_fits, TOAST, several images): real runs first as well
    import concurrent.futures as cf
    import multiprocessing as mp
    with cf.ProcessPoolExecutor(max_workers=8, mp_context=mp.get_context("fork"), initializer=_quiet_worker) as ex:
        pops = LOSSY_POPULATIONS[:1] if quick else LOSSY_POPULATIONS
        largs = [(ctx.scratch, i, ctx.seed, d, ls, "serial" if i % 2 == 0 else "cli", i in (0, 2)) for i, (d, ls) in enumerate(pops)]
        lossy_futs = [ex.submit(lossy_real_run, a) for a in largs]
        deep_tasks, deep_wants, deep_in = deep_prepare(ctx, lambda fn, args: [f.result() for f in [ex.submit(fn, a) for a in args]])
        lossy_runs = [f.result() for f in lossy_futs]
    lossy_parents, lossy_in = lossy_observe(ctx, lossy_runs, full_all=not quick)
    tasks += deep_tasks
    jobs, results, extra = run_pipeline(ctx, tasks, enum_jobs, extra=[lambda: lossy_tlc(ctx, lossy_in), lambda: deep_tlc(ctx, deep_in)],
                                        nofork_units=NOFORK_UNITS)
    lossy_compare(ctx, lossy_runs, lossy_parents, extra[0])
    deep_compare(ctx, deep_wants, extra[1])
    ctx.exhaustive = False
    if not jobs:
        ctx.machinery("no cases")
    report(ctx, "C02", jobs, results)
    ctx.note("replayed", {"cases": len(jobs), "tiles_compared": sum(s["tiles"] for _f, s in results),
                          "parallel_runs": len([1 for m, _r in jobs if m["run"].endswith(("par2", "par3"))]),
                          "by_format": dict((f, len([1 for m, _r in jobs if m["fmt"] == f])) for f in ("fits", "npy", "png", "jpg"))})
    for meta, rec in jobs[:2] + jobs[len(jobs) // 2: len(jobs) // 2 + 2]:
        ctx.sample({"meta": _plain(meta), "given": [[g["pos"], g["stored"], g["raw"]] for g in rec["given"]][:8],
                    "stale": [t["pos"] for t in rec["init"] if t["pos"][0] < meta["depth"]],
                    "final": [[t["pos"], t["px"][0][0], t["rng"]] for t in rec["final"] if t["pos"][0] < meta["depth"]][:6]})
    ctx.assume("integer tiles hold non-negative values (negative integers are clamped by the placement rule: DESIGN 5/C02 domain note); integer "
               "data has no undefined value, so all-zero tiles and low counts are in scope and such parents must exist; non-zero colour / "
               "alpha values are >= 4^depth so that a defined pixel's alpha never averages down to 0 = undefined")
    ctx.assume("+/-inf pixels are defined values: a block holding +inf (or -inf) averages to +inf (-inf); a block holding both has no mean and "
               "the output pixel is undefined (IEEE inf - inf), the one case where an output is undefined although not all four inputs are; "
               "pyramids in which a whole tile vanishes only through such cancellation are outside the domain (skipped by the spec's Init)")
    ctx.assume("stale parent files exist only at positions that have a child to merge; a childless stale parent is not judged")
    ctx.assume("pixel patterns are the lifted family (every real tile is the image of an abstract T x T tile, T = 2, 4, 8), not arbitrary noise; "
               "jpg is compared within +-%d on constant-colour leaves only" % JPG_TOL)
