"""C06 - TOAST sampling writes the sampler's values at each tile's own pixel centres.

Spec: spec/SampleLayer.tla (over ToastLattice.tla): leaves of the (filtered) pyramid visited in any order, each
writing - clobbering or read-modify-write updating - the identity sampler's values at its own 2^K x 2^K pixel grid,
rows reversed for bottom-up formats, all-undefined tiles not stored.  TLC checks FinalOK / OnlyLeaves / OwnPixels over
every visiting order, and T_Level0 (the whole-sphere tile's grid is the four level-1 grids side by side), and emits the
final files of every configuration.
Binding: the harness's closed form "file row fr, column c of tile (n, x, y) = centre of tile (n+K, 2^K x + c,
2^K y + display_row(fr))" is validated against every file TLC emitted (K = 1, 2), then applied at K = 8 through psi:
the real sample_layer / sample_layer_filtered / Builder.toast_base are run with smooth injective samplers (scalar and
RGB), formats npy / fits / png, both coordinate systems, depths 0-3, serially, under the deterministic scheduler and
with real processes, clobbering and updating (complementary masked passes from TLC's pass lists); every file is read
back and compared with the sampler at the tile's own coordinates (exactly) and at psi (1e-9); the set of files must
be the spec's leaf set.
Representation (spec/SampleOps.tla, shared operators): what the sampler returns is an ARRAY OBJECT standing for its values -
element bytes in either order, row-major / Fortran / reversed / gapped strides, writable or not (read-only memory maps,
0-strided broadcasts).  TLC checks that the stored tile is a function of the values only (Visit chooses a representation
anew for every tile; T_ReprInvisible, and T_ReprSensitive: a reader that relabels the element type or ignores the strides
is visible in the model); the synthetic samplers of the real runs hand out the same values in the representations of
REPRS (big-endian '>f8' / '>f4' / '>i2' as astropy gives for FITS data, ...), in every format, clobbering and updating.
Separately started jobs (spec/SampleJobs.tla): two or three updating-mode runs on ONE directory at overlapping times, each
leaf update being Sample (outside the lock) / Acquire / Read+merge / Write+release with TileLock.tla's critical section;
TLC checks JFinalOK (every leaf = union of all jobs' contributions), JKept, JMutex, termination over every interleaving,
refutes them for the unlocked variant, and emits the final files.  Real binding: forked processes run
sample_layer_filtered / Builder.toast_base(tile_filter=) with complementary / overlapping masked samplers that rendezvous
(per shared tile, a barrier with a time-out) inside the sampling of each tile both visit, so that they reach the tile's
read-modify-write together; the final tiles must hold every job's pixels.
"""
import os

import numpy as np

from lib import repo, lattice, tla, simrun, guard
from checks import toastlat

CFG = """SPECIFICATION SSpec
CONSTANTS
 R = %(R)d
 MaxDepth = %(D)d
 K = %(K)d
 Depth = %(D)d
 Filters <- MCFilters
 Modes <- MCModes
 PassLists <- MCPasses
 Reprs <- MCReprs
INVARIANT FinalOK
INVARIANT OnlyLeaves
INVARIANT OwnPixels
INVARIANT Emit
CHECK_DEADLOCK FALSE
"""


def mc_module(filters, passes):
    defs = [("MCFilters", "{" + ", ".join(f if isinstance(f, str) else tla.lit(set(f)) for f in filters) + "}"),
            ("MCModes", '{"clobber", "update"}'),
            ("MCPasses", "{" + ", ".join(passes) + "}"),
            ("MCReprs", reprs_lit()),
            "ASSUME MCReprs \\subseteq AllReprs",
            "ASSUME T_Level0",
            "ASSUME T_ReprInvisible({<<0, S + 1>>, <<0, H>>, <<H - 3, S + 1>>})",
            "ASSUME T_ReprSensitive",
            'Emit == Finished => PrintT(<<"F", ToJson([filter |-> filter, bottomUp |-> bottomUp, mode |-> mode, passes |-> passes, files |-> files])>>)']
    return tla.module("MCSample", ["SampleLayer", "Json"], defs)


PASSES = ["<< <<0, S + 1>> >>", "<< <<0, H>>, <<H, S + 1>> >>", "<< <<0, H + 3>>, <<H - 3, S + 1>> >>", "<< <<H, S + 1>>, <<0, H>> >>"]


# ---- representations: name -> (order, layout, writable) of spec/SampleOps.tla; as_repr realises them on numpy arrays
REPRS = {"native": ("native", "C", True),
         "be": ("swapped", "C", True),              # '>f8' / '>f4' / '>i2': FITS data as astropy hands them out
         "fortran": ("native", "F", True),          # Fortran order (a transposed view)
         "negstride": ("native", "rev", True),      # both axes walked backwards
         "gapped": ("swapped", "F", True),          # a big-endian column-major view with gaps into a larger array
         "readonly": ("native", "C", False),
         "memmap": ("swapped", "C", False),         # a read-only memory map of big-endian data (an opened FITS file)
         "broadcast": ("native", "rev", False)}     # a constant tile as a 0-strided read-only broadcast of one element
REP_CYCLE = ["be", "fortran", "memmap", "negstride", "gapped", "readonly", "broadcast", "native"]


def reprs_lit(names=None):
    recs = sorted({REPRS[n] for n in (names or REPRS)})
    return "{" + ", ".join('[order |-> "%s", layout |-> "%s", writable |-> %s]' % (o, l, "TRUE" if w else "FALSE") for (o, l, w) in recs) + "}"


CFGJ = """SPECIFICATION %(spec)s
CONSTANTS
 R = %(R)d
 MaxDepth = %(D)d
 K = %(K)d
 Depth = %(D)d
 Locked = %(locked)s
 MaxJobs = %(maxjobs)d
 JobCfgs <- MCJobCfgs
 Reprs <- MCReprs
INVARIANT JFinalOK
INVARIANT JKept
INVARIANT JMutex
INVARIANT JLockOK
INVARIANT JOnlyLeaves
INVARIANT JOwnPixels
INVARIANT Emit
%(props)s
CHECK_DEADLOCK FALSE
"""


def jobs_module(jobcfgs):
    """jobcfgs: list of dict(id, jobs=[(filter, region-text)], pre=region-text)."""
    def flt(f):
        return f if isinstance(f, str) else tla.lit(set(f))
    cf = ["[id |-> %d, pre |-> %s, jobs |-> << %s >>]" % (c["id"], c["pre"], ", ".join("[filter |-> %s, region |-> %s]" % (flt(f), reg) for (f, reg) in c["jobs"]))
          for c in jobcfgs]
    defs = [("MCJobCfgs", "{" + ", ".join(cf) + "}"),
            ("MCReprs", reprs_lit(["native", "be", "memmap"])),
            'Emit == JAllDone => PrintT(<<"J", ToJson([id |-> cfg.id, bottomUp |-> bottomUp, files |-> files])>>)']
    return tla.module("MCJobs", ["SampleJobs", "Json"], defs)


def expected_point(n, x, y, K, fr, c, bottom_up):
    """Closed form of SampleLayer!Stored(DisplayGrid): lattice point (i, j, R) held at file row fr, column c."""
    npix = 2 ** K
    r = npix - 1 - fr if bottom_up else fr
    return (2 * (npix * x + c) + 1, 2 * (npix * y + r) + 1, n + K + 1)


def validate_closed_form(ctx, recs, R, K, depth):
    """Every file TLC emitted agrees with expected_point (where defined); returns number of pixels compared."""
    n = 0
    for rec in recs:
        if isinstance(rec["files"], list):      # the empty function is serialised as []
            rec["files"] = {}
        for key, rows in rec["files"].items():
            pos = tuple(int(v) for v in key.strip("<>").split(","))
            for fr_s, row in rows.items():
                for c_s, pt in row.items():
                    fr, c = int(fr_s), int(c_s)
                    if pt == []:
                        continue
                    i, j, RR = expected_point(pos[0], pos[1], pos[2], K, fr, c, rec["bottomUp"])
                    sh = R - RR
                    if sh < 0 or (i << sh, j << sh) != tuple(pt):
                        ctx.machinery("harness closed form for stored pixels disagrees with TLC: tile %s file row %d col %d: %s vs %s" % (pos, fr, c, (i, j, RR), pt))
                    n += 1
    return n


# ---- samplers ----------------------------------------------------------------------------------

A1 = np.array([0.3, 0.5, 0.81])
A2 = np.array([-0.7, 0.2, 0.4])


def scalar_of_vec(v):
    return v @ A1 + 0.25 * (v @ A2) ** 2


def in_band(l, reg):
    """Longitudes l (already reduced to [0, 2 pi)) inside the band reg = (lo, hi), or (lo, hi, period): the same band repeated
    with that period (period pi/2: the same part of every level-1 tile, each of which spans a quarter of the longitudes)."""
    if len(reg) == 3:
        l = l % reg[2]
    return (l >= reg[0]) & (l < reg[1])


def make_sampler(kind, region=None, psi_anchor=None, infband=None):
    """region = None or (lo, hi) in units of the unit square's column coordinate u in [0, 1): the sampler is undefined
    outside.  The column coordinate of a sphere point is not available to a sampler, so masked samplers use a
    longitude band instead (chosen to correspond to TLC's column bands only in spirit: what matters is that the two
    passes are complementary / overlapping)."""
    def f(lon, lat):
        v = lattice.lonlat_to_vec(lon, lat)
        val = scalar_of_vec(v)
        if kind == "rgb":
            out = np.empty(lon.shape + (3,), dtype=np.uint8)
            out[..., 0] = np.clip(np.round(127.5 + 127 * v[..., 0]), 0, 255)
            out[..., 1] = np.clip(np.round(127.5 + 127 * v[..., 1]), 0, 255)
            out[..., 2] = np.clip(np.round(127.5 + 127 * v[..., 2]), 0, 255)
            return out
        if kind == "mixed":
            # integer counts inside the survey's coverage, float with NaN at its edge: the dtype of what the sampler returns
            # differs from tile to tile (decided from the request as a whole, robustly to rounding)
            cnt = np.round(100 * val) + 300          # positive counts (for integer tiles zero means undefined, negative values are outside the update rule)
            pick = int(np.floor(3 * float(v[..., 0].mean()) + 5 * float(v[..., 1].mean()) + 7 * float(v[..., 2].mean()) + 0.123)) % 2
            if pick == 0:
                return cnt.astype(np.int16)
            return np.where(np.asarray(lat) < -1.25, np.nan, cnt).astype(np.float32)
        val = val.astype(np.float64)
        if infband is not None:
            # a band of longitudes where the map is infinite (log of zero flux, 1/x ...): defined values, not missing ones
            l = np.asarray(lon) % (2 * np.pi)
            val = np.where((l >= infband[0]) & (l < infband[1]), np.where(v[..., 2] > 0, np.inf, -np.inf), val)
        if region is not None:
            l = np.asarray(lon) % (2 * np.pi)
            inside = in_band(l, region)
            val = np.where(inside, val, np.nan)
        return val
    return f


def memoising(f):
    """A sampler that keeps what it computed (a cache in front of an expensive map lookup): asked again for the same points
    it hands out the very same array object."""
    cache = {}

    def g(lon, lat):
        key = (lon.shape, float(lon.flat[0]), float(lat.flat[0]), float(lon.flat[-1]), float(lat.flat[-1]), float(lon.flat[lon.size // 3]))
        if key not in cache:
            cache[key] = f(lon, lat)
        return cache[key]
    return g


_REP_SEQ = [0]


def as_repr(a, rep, scratch):
    """The same VALUES in another array object (spec/SampleOps.tla: ArrayOf); `rep` is a key of REPRS."""
    swapped = a.dtype.newbyteorder(">" if a.dtype.isnative and np.little_endian else "<") if a.dtype.itemsize > 1 else a.dtype
    if rep == "broadcast":
        first = a[:1, :1]
        with np.errstate(invalid="ignore"):
            const = bool(np.all((a == first) | ((a != a) & (first != first))))
        if const:
            return np.broadcast_to(a[0, 0], a.shape)            # strides 0, read-only
        rep = "negstride"
        out = np.ascontiguousarray(a[::-1, ::-1])[::-1, ::-1]
        out.setflags(write=False)
        return out
    if rep == "native":
        return a
    if rep == "be":
        if a.dtype.itemsize == 1:
            rep = "gapped"                                       # single-byte elements have no order
        else:
            return a.astype(swapped)
    if rep == "fortran":
        return np.asfortranarray(a)
    if rep == "negstride":
        return np.ascontiguousarray(a[::-1, ::-1])[::-1, ::-1]
    if rep == "gapped":
        h, w = a.shape[:2]
        big = np.zeros((2 * w + 3, 2 * h + 1) + a.shape[2:], dtype=swapped)
        view = big[2:2 * w + 2:2, 1::2].swapaxes(0, 1)
        view[...] = a
        return view
    if rep == "readonly":
        out = a.copy()
        out.setflags(write=False)
        return out
    if rep == "memmap":
        _REP_SEQ[0] += 1
        path = os.path.join(scratch, "mm-%d-%d.dat" % (os.getpid(), _REP_SEQ[0]))
        mm = np.memmap(path, dtype=swapped, mode="w+", shape=a.shape)
        mm[...] = a
        mm.flush()
        del mm
        return np.memmap(path, dtype=swapped, mode="r", shape=a.shape)
    raise ValueError(rep)


def representing(f, rep, scratch):
    """Sampler f handing its values out in representation rep."""
    if rep in (None, "native"):
        return f

    def g(lon, lat):
        return as_repr(f(lon, lat), rep, scratch)
    return g


def read_tile(path, fmt):
    if fmt == "npy":
        return np.load(path)
    if fmt == "fits":
        from astropy.io import fits
        with fits.open(path) as h:
            return np.array(h[0].data)
    from PIL import Image as PImage
    return np.array(PImage.open(path))


def tile_files(d, fmt):
    out = {}
    for root, _dirs, files in os.walk(d):
        for fn in files:
            if fn.endswith("." + fmt):
                rel = os.path.relpath(os.path.join(root, fn), d).split(os.sep)
                if len(rel) == 3:
                    n, y, yx = rel
                    out[(int(n), int(yx.split(".")[0].split("_")[1]), int(y))] = os.path.join(root, fn)
    return out


def expected_leafset(depth, accept):
    if depth == 0:
        return {(0, 0, 0)}
    reach = {(0, 0, 0)}
    for n in range(1, depth + 1):
        reach = {(n, x, y) for x in range(2 ** n) for y in range(2 ** n)
                 if (accept is None or (n, x, y) in accept) and (n - 1, x // 2, y // 2) in reach}
    return reach


def judge_dir(ctx, label, key, d, fmt, depth, cs, psi, kind, regions, mode, accept, leaves_from_tlc=None, infband=None, contrib=None):
    """Compare every tile file of a finished sampling run with the specification.
    contrib (separately started updating jobs, SampleJobs!JExpected): list of (accept, region) - a pixel of tile p is defined iff
    it lies in the region (None = everywhere) of some contributor whose filtered pyramid has p as a leaf."""
    from toasty import toast
    from toasty.pyramid import Pos
    bottom_up = fmt == "fits"
    files = tile_files(d, fmt)
    leaves = expected_leafset(depth, accept)
    if contrib is not None:
        contrib = [(expected_leafset(depth, acc), reg) for (acc, reg) in contrib]
        leaves = set().union(*[lv for (lv, _reg) in contrib])
    if leaves_from_tlc is not None and leaves != leaves_from_tlc:
        ctx.machinery("harness leaf set disagrees with TLC's")
    rep = {"run": label, "depth": depth, "format": fmt, "mode": mode, "coordsys": str(cs), "sampler": kind}
    extra = set(files) - leaves
    if extra:
        ctx.violation(key + ":extra-tiles", "%s: tile files written at %s, which are not leaves of the sampled layer" % (label, sorted(extra)[:4]), rep)
    worst = 0.0
    for pos in sorted(leaves):
        n, x, y = pos
        # expectation at psi, display orientation
        if n == 0:
            g = np.concatenate([np.concatenate([psi.grid(1, 0, 0, 7), psi.grid(1, 1, 0, 7)], axis=1),
                                np.concatenate([psi.grid(1, 0, 1, 7), psi.grid(1, 1, 1, 7)], axis=1)], axis=0)
            rl, rt = toast.toast_tile_get_coords(toast.Tile(Pos(0, 0, 0), (None,) * 4, False), coordsys=cs)
        else:
            g = psi.grid(n, x, y, 8)
            rl, rt = toast.toast_tile_get_coords(toast.create_single_tile(Pos(n, x, y), coordsys=cs))
        if kind == "rgb":
            exp_psi = make_sampler("rgb")(*lattice.vec_to_lonlat(g)).astype(float)
            exp_real = make_sampler("rgb")(rl, rt).astype(float)
            defined = np.ones((256, 256), bool)
        else:
            lon_psi, lat_psi = lattice.vec_to_lonlat(g)
            if kind == "mixed":
                exp_psi = make_sampler("mixed")(lon_psi, lat_psi).astype(float)
                got_real = make_sampler("mixed")(rl, rt)
                exp_real = got_real.astype(float)
                mixed_dtype = got_real.dtype
            else:
                exp_psi = make_sampler("scalar", infband=infband)(lon_psi, lat_psi) if infband is not None else scalar_of_vec(g)
                exp_real = make_sampler("scalar", infband=infband)(rl, rt)
            if infband is not None and np.isinf(exp_real).all():
                ctx.add_note("leaf_tiles_entirely_infinite")
            if kind == "mixed":
                defined = ~np.isnan(exp_real)
            elif contrib is not None:
                l = rl % (2 * np.pi)
                defined = np.zeros((256, 256), bool)
                for (lv, reg) in contrib:
                    if pos in lv:
                        defined |= np.ones((256, 256), bool) if reg is None else in_band(l, reg)
            elif regions is None:
                defined = np.ones((256, 256), bool)
            else:
                use = regions if mode == "update" else regions[-1:]
                l = rl % (2 * np.pi)
                defined = np.zeros((256, 256), bool)
                for reg in use:
                    defined |= in_band(l, reg)
        ctx.count()
        if pos not in files:
            if defined.any():
                ctx.violation(key + ":missing-tile", "%s: no file for leaf tile %s although %d of its pixels are defined" % (label, pos, int(defined.sum())), dict(rep, pos=pos))
            continue
        if not defined.any():
            ctx.violation(key + ":all-undefined-stored", "%s: a file exists for tile %s whose pixels are all undefined" % (label, pos), dict(rep, pos=pos))
            continue
        raw = read_tile(files[pos], fmt)
        if kind == "mixed" and np.dtype(raw.dtype).newbyteorder("=") != np.dtype(mixed_dtype):
            ctx.violation(key + ":dtype", "%s: tile %s is stored as %s, the sampler returned %s for it" % (label, pos, raw.dtype, mixed_dtype), dict(rep, pos=pos))
        data = raw.astype(float)
        if kind == "rgb" and data.shape[-1] == 4:
            data = data[..., :3]
        if bottom_up:
            data = data[::-1]
        if data.shape[:2] != (256, 256):
            ctx.violation(key + ":shape", "%s: tile %s has shape %s" % (label, pos, data.shape), dict(rep, pos=pos))
            continue
        if kind == "rgb":
            dm = defined[..., None] & np.ones(3, bool)
            err_real = np.abs(data - exp_real)[dm].max()
            err_psi = np.abs(data - exp_psi)[dm].max()
            bad = err_real > 0 or err_psi > 1.0
        else:
            und = np.isnan(data)
            if (und != ~defined).any():
                k = int((und != ~defined).sum())
                ctx.violation(key + ":defined-mask", "%s: tile %s: %d pixels are defined/undefined contrary to the sampler (update must keep defined pixels, never store undefined over them)" % (label, pos, k), dict(rep, pos=pos))
                continue
            tol_store = 1e-6 if fmt == "fits" or data.dtype == np.float32 else 0.0
            with np.errstate(invalid="ignore"):
                d_real = np.where(data == exp_real, 0.0, np.abs(data - exp_real))
                # psi and the real grid may fall on different sides of the band's edge for a pixel within rounding of it
                d_psi = np.where((data == exp_psi) | np.isinf(data) | np.isinf(exp_psi), 0.0, np.abs(data - exp_psi))
            d_real = np.where(np.isnan(d_real), np.inf, d_real)
            err_real = float(d_real[defined].max())
            err_psi = float(d_psi[defined].max())
            bad = err_real > tol_store or err_psi > (1.0 if kind == "mixed" else 1e-9 + tol_store)
        worst = max(worst, float(err_psi))
        if bad:
            with np.errstate(invalid="ignore"):
                dd = np.where(data == exp_real, 0.0, np.abs(data - exp_real))
            dd = np.where(np.isnan(dd), np.inf, dd)
            if kind == "rgb":
                dd = dd.max(axis=-1)
            r, c = np.unravel_index(np.nanargmax(np.where(defined, dd, -1)), (256, 256))
            ctx.violation(key + ":pixel-values", "%s: tile %s pixel (display row %d, col %d) holds %s, the sampler at that pixel's own coordinates gives %s"
                          % (label, pos, r, c, data[r, c], exp_real[r, c]), dict(rep, pos=pos, row=int(r), col=int(c)))
        ctx.distinct((label, pos))
    return worst


# ---- separately started updating jobs on one directory (spec/SampleJobs.tla) ---------------------------------------

RENDEZVOUS_S = 30.0      # backstop only: every party of a shared tile's first rendezvous arrives unless its job died
INSIDE_S = 1.0           # second rendezvous: how long a job that is about to merge its samples waits for the others to get there too


class LateArray(np.ndarray):
    """An array whose elements arrive late (a memory map on a slow file system, a lazily evaluated result): the first numpy
    operation that READS its elements - of the array or of any view of it - first runs `hook`.  Values, dtype, shape, strides
    are those of the array it was made from."""
    _late = None

    def __array_finalize__(self, obj):
        self._late = getattr(obj, "_late", None)

    def __array_ufunc__(self, ufunc, method, *inputs, **kwargs):
        for x in inputs:
            if isinstance(x, LateArray) and x._late is not None and not x._late["done"]:
                x._late["done"] = True
                x._late["hook"]()
        inputs = tuple(x.view(np.ndarray) if isinstance(x, LateArray) else x for x in inputs)
        if kwargs.get("out") is not None:
            kwargs["out"] = tuple(o.view(np.ndarray) if isinstance(o, LateArray) else o for o in kwargs["out"])
        return getattr(ufunc, method)(*inputs, **kwargs)


def late(a, hook):
    out = a.view(LateArray)
    out._late = {"done": False, "hook": hook}
    return out


def tile_signature(lon, lat):
    h, w = lon.shape[0] // 3, lon.shape[1] // 5
    lo = np.array([lon[0, 0], lon[-1, -1], lon[h, w]], dtype=float)
    la = np.array([lat[0, 0], lat[-1, -1], lat[h, w]], dtype=float)
    return np.concatenate([np.cos(la) * np.cos(lo), np.cos(la) * np.sin(lo), np.sin(la)])


def _job_main(j, sc, d, cs, shared, barriers, inside, scratch):
    """One job: a forked process running a complete updating-mode sampling call.  For a tile that other jobs visit too its
    sampler computes the values and waits for the others (first rendezvous: all of them go on into the tile's read-modify-write
    together); the array it returns makes whoever first reads its elements wait a moment for the other jobs to get as far
    (second rendezvous, with a short time-out: it is kept only if several jobs are between sampling and merging at once -
    under mutual exclusion of the whole read-modify-write it never is, and the time-out is all that happens)."""
    import json
    import threading
    import warnings
    warnings.simplefilter("ignore")
    err, met = None, [0, 0]
    try:
        from toasty import toast, pyramid, builder
        job = sc["jobs"][j]
        pio = pyramid.PyramidIO(d, default_format=sc["fmt"])
        base = representing(make_sampler(sc["kind"], job["region"]), job.get("rep"), scratch)

        def sampler(lon, lat):
            out = base(lon, lat)
            sig = tile_signature(lon, lat)
            for k, (_pos, ref) in enumerate(shared):
                if np.abs(sig - ref).max() < 1e-6:
                    def hook(k=k):
                        try:
                            inside[k].wait(INSIDE_S)
                            met[1] += 1
                        except threading.BrokenBarrierError:
                            pass
                    out = late(out, hook)
                    try:
                        barriers[k].wait(RENDEZVOUS_S)
                        met[0] += 1
                    except threading.BrokenBarrierError:
                        pass
                    break
            return out
        acc = job["accept"]
        flt = (lambda t: True) if acc is None else (lambda t: tuple(t.pos) in acc)
        with simrun.quiet():
            if sc["entry"] == "toast_base":
                builder.Builder(pio).toast_base(sampler, sc["depth"], coordsys=cs, tile_filter=flt, parallel=1)
            else:
                toast.sample_layer_filtered(pio, flt, sampler, sc["depth"], coordsys=cs, parallel=1)
    except BaseException as e:  # noqa
        err = "%s: %s" % (type(e).__name__, str(e)[:300])
    try:
        with open(os.path.join(scratch, "job-%s-%d.json" % (os.path.basename(d), j)), "w") as f:
            json.dump({"error": err, "met": met}, f)
    finally:
        os._exit(0)


def start_jobs(ctx, sc, d, cs):
    """Fork the jobs of one scenario; -> handle for finish_jobs."""
    import multiprocessing as mp
    from toasty import toast, pyramid
    from toasty.pyramid import Pos
    mpc = mp.get_context("fork")
    depth = sc["depth"]
    leafsets = [expected_leafset(depth, job["accept"]) for job in sc["jobs"]]
    if sc.get("pre") is not None:
        # an earlier, finished run left tiles behind (serial, through the same entry point)
        union = set().union(*leafsets)
        pio = pyramid.PyramidIO(d, default_format=sc["fmt"])
        with simrun.quiet():
            closure = {(n - k, x >> k, y >> k) for (n, x, y) in union for k in range(n)}
            toast.sample_layer_filtered(pio, lambda t: tuple(t.pos) in closure, make_sampler(sc["kind"], sc["pre"]), depth, coordsys=cs, parallel=1)
    shared, barriers, inside = [], [], []
    for pos in sorted(set().union(*leafsets)):
        parties = sum(1 for lv in leafsets if pos in lv)
        if parties >= 2:
            lon, lat = toast.toast_tile_get_coords(toast.create_single_tile(Pos(*pos), coordsys=cs))
            shared.append((pos, tile_signature(lon, lat)))
            barriers.append(mpc.Barrier(parties))
            inside.append(mpc.Barrier(parties))
    procs = [mpc.Process(target=_job_main, args=(j, sc, d, cs, shared, barriers, inside, ctx.scratch)) for j in range(len(sc["jobs"]))]
    for p in procs:
        p.start()
    # the barriers' shared state must stay allocated for as long as the children use it: the handle keeps them alive
    return procs, d, sum(len([lv for lv in leafsets if pos in lv]) for (pos, _s) in shared), (barriers, inside)


def finish_jobs(ctx, handle):
    """-> (status, detail): ("ok", (first rendezvous met, expected, second rendezvous met)) | ("raised", text) | ("hung", None)."""
    import json
    import time
    procs, d, expected, _keep = handle
    deadline = time.time() + 180
    for p in procs:
        p.join(max(0.1, deadline - time.time()))
    if any(p.is_alive() for p in procs):
        for p in procs:
            if p.is_alive():
                p.kill()
                p.join(5)
        return "hung", None
    met = [0, 0]
    for j in range(len(procs)):
        try:
            st = json.load(open(os.path.join(ctx.scratch, "job-%s-%d.json" % (os.path.basename(d), j))))
        except (OSError, ValueError):
            return "raised", "job %d ended without a status" % j
        if st["error"]:
            return "raised", "job %d: %s" % (j, st["error"])
        met = [met[0] + st["met"][0], met[1] + st["met"][1]]
    return "ok", (met[0], expected, met[1])


def run(ctx):
    repo.setup(ctx)
    from toasty import toast, pyramid, builder
    q = ctx.quick
    ctx.rule = ("runs = (entry point, depth, coordinate system, format, sampler kind, clobber/update passes, filter, worker mode); every tile of every run is read back "
                "and all 65536 pixels compared; TLC enumerates configurations x visiting orders on the abstract lattice and emits the final files; distinct = distinct (run, tile)")
    # ---- TLC: abstract sampling machine
    l1 = [(1, 0, 0), (1, 1, 0), (1, 0, 1), (1, 1, 1)]
    sparse = {(1, 0, 0), (1, 1, 1), (2, 0, 1), (2, 1, 1), (2, 3, 3), (2, 2, 2)}
    sparse2 = {(1, 1, 0), (1, 0, 1), (2, 2, 0), (2, 3, 1), (2, 1, 2), (2, 0, 2), (2, 0, 3)}
    confs = [(4, 1, 1, ["FullFilter", {(1, 0, 0), (1, 1, 0)}, {(1, 0, 1)}]), (5, 2, 1, [sparse, sparse2]), (4, 0, 2, ["FullFilter"]), (5, 1, 2, ["FullFilter"])]
    if not q:
        confs += [(6, 2, 2, [sparse, sparse2]), (6, 1, 3, ["FullFilter"]), (5, 0, 3, ["FullFilter"])]
    npx = 0
    tlc_leafsets = {}
    # job configurations (SampleJobs.tla): filters per job, bands per job, band of an earlier finished run
    F2 = {(1, 0, 0), (1, 1, 0)}
    FA = {(1, 0, 0), (1, 1, 0), (1, 1, 1)}
    FB = {(1, 1, 0), (1, 1, 1), (1, 0, 1)}
    FC = {(1, 0, 0), (1, 1, 1)}
    FD = {(1, 1, 1), (1, 0, 1)}
    jR, jD = 4, 1
    jobcfgs = [dict(id=1, pre="<<0, 0>>", jobs=[(F2, "<<0, H>>"), (F2, "<<H, S + 1>>")]),
               dict(id=2, pre="<<0, 0>>", jobs=[(FA, "<<0, H + 3>>"), (FB, "<<H - 3, S + 1>>")]),
               dict(id=3, pre="<<0, 3>>", jobs=[(FC, "<<H, S + 1>>"), (FD, "<<0, H>>")])]
    if not q:
        jobcfgs += [dict(id=4, pre="<<0, 0>>", jobs=[("FullFilter", "<<0, H>>"), ("FullFilter", "<<H, S + 1>>")]),
                    dict(id=5, pre="<<0, 0>>", jobs=[(FC, "<<0, H>>"), (FD, "<<H - 3, S + 1>>"), (F2 | FD, "<<3, H + 3>>")])]
    import concurrent.futures
    with concurrent.futures.ThreadPoolExecutor(max_workers=5) as pool:
        futs = [pool.submit(lambda R=R, D=D, K=K, filters=filters: ctx.tlc("MCSample", extra={"MCSample.tla": mc_module(filters, PASSES)}, cfg_text=CFG % dict(R=R, D=D, K=K),
                                                                           timeout=3000, workers=4)) for (R, D, K, filters) in confs]
        ftl = pool.submit(lambda: toastlat.run_tlc(ctx, 4, 2, 1))
        # separately started updating jobs: every interleaving of Sample / Acquire / Read / Write steps, and the negative control
        # (no exclusion around read-merge-write), which TLC must refute
        jmax = max(len(c["jobs"]) for c in jobcfgs)
        fjobs = pool.submit(lambda: ctx.tlc("MCJobs", extra={"MCJobs.tla": jobs_module(jobcfgs)}, timeout=3000, workers=2 if q else 6,
                                            cfg_text=CFGJ % dict(spec="JFairSpec", R=jR, D=jD, K=1, locked="TRUE", maxjobs=jmax, props="PROPERTY JTermination")))
        fneg = pool.submit(lambda: ctx.tlc("MCJobs", extra={"MCJobs.tla": jobs_module(jobcfgs[:1])}, timeout=3000, workers=2, expect_violation=True, count=False,
                                           cfg_text=CFGJ % dict(spec="JSpec", R=jR, D=jD, K=1, locked="FALSE", maxjobs=jmax, props="")))
        results = [f.result() for f in futs]
        tl = ftl.result()
        rjobs, rneg = fjobs.result(), fneg.result()
    if rneg.violated not in ("JFinalOK", "JKept"):
        ctx.machinery("negative control: TLC did not refute the unlocked read-merge-write of SampleJobs.tla (got %r)" % (rneg.violated,))
    jrecs = rjobs.json_lines("J")
    if {rec["id"] for rec in jrecs} != {c["id"] for c in jobcfgs}:
        ctx.machinery("TLC emitted no finished behaviour for some job configuration")
    npx_jobs = validate_closed_form(ctx, jrecs, jR, 1, jD)
    tlc_job_leaves = {}
    for rec in jrecs:
        tlc_job_leaves[rec["id"]] = {tuple(int(v) for v in k.strip("<>").split(",")) for k in rec["files"]}
    ctx.trace_ok(len(jrecs))
    ctx.note("abstract_pixels_of_job_configurations", npx_jobs)
    for (R, D, K, filters), r in zip(confs, results):
        recs = r.json_lines("F")
        if not recs:
            ctx.machinery("TLC emitted no finished sampling behaviours")
        npx += validate_closed_form(ctx, recs, R, K, D)
        for rec in recs:
            if rec["mode"] == "clobber" and len(rec["passes"]) == 1:
                tlc_leafsets[(D, frozenset(tuple(p) for p in rec["filter"]))] = {tuple(int(v) for v in k.strip("<>").split(",")) for k in rec["files"]}
        ctx.trace_ok(len(recs))
        if (R, D, K) == (5, 2, 1):
            ex = recs[0]
            ctx.sample({"abstract_config": {"filter": ex["filter"], "bottomUp": ex["bottomUp"], "mode": ex["mode"], "passes": ex["passes"]},
                        "final_files": {k: v for k, v in list(ex["files"].items())[:2]}})
    ctx.note("abstract_pixels_validating_closed_form", npx)
    # ---- real runs
    worst = 0.0
    runs = []
    fmts = ["npy", "fits", "png"]
    for csname, cs in toastlat.coordsystems():
        for depth in ([0, 1, 2] if q else [0, 1, 2, 3]):
            for fmt in fmts:
                kind = "rgb" if fmt == "png" else "scalar"
                if q and depth == 2 and not (fmt == "fits" and csname == "astronomical"):
                    continue
                runs.append(dict(entry="sample_layer", cs=csname, depth=depth, fmt=fmt, kind=kind, mode="clobber", regions=None, accept=None, par=1))
    # update mode with complementary / overlapping masked passes; filtered; parallel
    B = np.pi
    runs += [dict(entry="filtered", cs="astronomical", depth=1, fmt="npy", kind="scalar", mode="update", regions=[(0, B), (B, 7.0)], accept=None, par=1),
             dict(entry="filtered", cs="planetary", depth=2, fmt="fits", kind="scalar", mode="update", regions=[(0, B + 0.4), (B - 0.4, 7.0)], accept=None, par=1),
             dict(entry="filtered", cs="astronomical", depth=2, fmt="npy", kind="scalar", mode="update", regions=[(1.0, 2.0)], accept=sparse, par=1),
             dict(entry="filtered", cs="astronomical", depth=2, fmt="fits", kind="scalar", mode="update", regions=None, accept=sparse2, par=1),
             dict(entry="toast_base", cs="planetary", depth=1, fmt="npy", kind="scalar", mode="clobber", regions=None, accept=None, par=1),
             # the Builder route with a tile filter (the updating mode of toast_base), coordinate system given either way
             dict(entry="toast_base", cs="planetary", depth=2, fmt="npy", kind="scalar", mode="update", regions=None, accept=sparse2, par=1),
             dict(entry="toast_base", cs="planetary", depth=1, fmt="fits", kind="scalar", mode="update", regions=None, accept={(1, 1, 0), (1, 0, 1)}, par=1, is_planet=True),
             dict(entry="toast_base", cs="astronomical", depth=2, fmt="npy", kind="scalar", mode="update", regions=[(0, B), (B, 7.0)], accept=sparse, par=1),
             # one PyramidIO object used again after its output tree (or one row directory) was removed
             dict(entry="sample_layer", cs="astronomical", depth=1, fmt="npy", kind="scalar", mode="clobber", regions=None, accept=None, par=1, reuse_pio="tree"),
             dict(entry="sample_layer", cs="planetary", depth=2, fmt="fits", kind="scalar", mode="clobber", regions=None, accept=None, par="sim2", reuse_pio="row"),
             # a sampler whose dtype differs from tile to tile
             dict(entry="sample_layer", cs="astronomical", depth=2, fmt="fits", kind="mixed", mode="clobber", regions=None, accept=None, par=1),
             dict(entry="filtered", cs="planetary", depth=2, fmt="fits", kind="mixed", mode="update", regions=None, accept=None, par="sim2"),
             # colour samples into a bottom-up format (the row reversal acts on the row axis of a (rows, columns, planes) array)
             dict(entry="sample_layer", cs="astronomical", depth=1, fmt="fits", kind="rgb", mode="clobber", regions=None, accept=None, par=1),
             # samplers that memoise: the arrays they return stay theirs (second pyramid from the same sampler objects)
             dict(entry="sample_layer", cs="astronomical", depth=1, fmt="fits", kind="scalar", mode="clobber", regions=None, accept=None, par=1, memo=True),
             dict(entry="filtered", cs="planetary", depth=1, fmt="fits", kind="scalar", mode="update", regions=[(0, B), (B, 7.0)], accept=None, par=1, memo=True),
             dict(entry="sample_layer", cs="planetary", depth=1, fmt="png", kind="rgb", mode="clobber", regions=None, accept=None, par=1, memo=True),
             # a map that is infinite over whole tiles: infinities are values of the sampler, the tiles exist and hold them
             dict(entry="sample_layer", cs="astronomical", depth=2, fmt="npy", kind="scalar", mode="clobber", regions=None, accept=None, par=1, infband=(0.7, 2.9)),
             dict(entry="sample_layer", cs="planetary", depth=2, fmt="fits", kind="scalar", mode="clobber", regions=None, accept=None, par="sim2", infband=(3.3, 5.6)),
             # clobbering re-sample into a directory that already holds tiles: tiles the second sampler leaves entirely
             # undefined must disappear, the others must hold only the second sampler's values
             dict(entry="sample_layer", cs="astronomical", depth=2, fmt="npy", kind="scalar", mode="clobber", regions=[(0, 7.0), (1.0, 2.0)], accept=None, par=1),
             dict(entry="sample_layer", cs="planetary", depth=2, fmt="fits", kind="scalar", mode="clobber", regions=[(0, 7.0), (4.0, 5.5)], accept=None, par="sim2"),
             dict(entry="sample_layer", cs="astronomical", depth=1, fmt="fits", kind="scalar", mode="clobber", regions=None, accept=None, par="sim2"),
             dict(entry="filtered", cs="astronomical", depth=2, fmt="npy", kind="scalar", mode="update", regions=[(0, B), (B, 7.0)], accept=sparse, par="sim3"),
             dict(entry="sample_layer", cs="planetary", depth=2, fmt="npy", kind="scalar", mode="clobber", regions=None, accept=None, par="real3"),
             dict(entry="sample_layer", cs="planetary", depth=0, fmt="npy", kind="scalar", mode="clobber", regions=None, accept=None, par="sim2"),
             # format= override whose vertical parity differs from the pyramid's default format
             dict(entry="sample_layer", cs="astronomical", depth=1, fmt="fits", piofmt="png", kind="scalar", mode="clobber", regions=None, accept=None, par=1),
             dict(entry="sample_layer", cs="planetary", depth=1, fmt="npy", piofmt="fits", kind="scalar", mode="clobber", regions=None, accept=None, par=1),
             dict(entry="sample_layer", cs="astronomical", depth=1, fmt="fits", piofmt="npy", kind="scalar", mode="clobber", regions=None, accept=None, par="sim2"),
             dict(entry="sample_layer", cs="astronomical", depth=0, fmt="fits", kind="scalar", mode="clobber", regions=None, accept=None, par="real2")]
    if not q:
        runs += [dict(entry="sample_layer", cs="astronomical", depth=3, fmt="fits", kind="scalar", mode="clobber", regions=None, accept=None, par="real4"),
                 dict(entry="sample_layer", cs="astronomical", depth=0, fmt="fits", kind="scalar", mode="clobber", regions=None, accept=None, par="sim2"),
                 dict(entry="filtered", cs="planetary", depth=3, fmt="npy", kind="scalar", mode="update", regions=[(0, 2.0), (2.0, 7.0)], accept=None, par="sim2"),
                 dict(entry="toast_base", cs="astronomical", depth=2, fmt="png", kind="rgb", mode="clobber", regions=None, accept=None, par=1)]
    # the representation dimension: the float64 / float32 / int16 / uint8 values of every sampler are handed out big-endian
    # (as astropy does for FITS data) in every scalar format, clobbering and updating ...
    runs += [dict(entry="sample_layer", cs="astronomical", depth=1, fmt="npy", kind="scalar", mode="clobber", regions=None, accept=None, par=1, rep="be"),
             dict(entry="sample_layer", cs="planetary", depth=0, fmt="fits", kind="scalar", mode="clobber", regions=None, accept=None, par=1, rep="be"),
             dict(entry="filtered", cs="planetary", depth=1, fmt="npy", kind="scalar", mode="update", regions=[(0, B), (B, 7.0)], accept=None, par=1, rep="be"),
             dict(entry="toast_base", cs="astronomical", depth=1, fmt="fits", kind="scalar", mode="update", regions=[(0, B + 0.4), (B - 0.4, 7.0)], accept={(1, 1, 0), (1, 0, 1)}, par=1, rep="memmap"),
             dict(entry="sample_layer", cs="astronomical", depth=1, fmt="fits", kind="mixed", mode="clobber", regions=None, accept=None, par=1, rep="be"),
             dict(entry="filtered", cs="astronomical", depth=1, fmt="fits", kind="mixed", mode="update", regions=None, accept=None, par=1, rep="gapped"),
             dict(entry="sample_layer", cs="planetary", depth=0, fmt="png", kind="rgb", mode="clobber", regions=None, accept=None, par=1, rep="gapped"),
             dict(entry="filtered", cs="astronomical", depth=1, fmt="png", kind="rgb", mode="update", regions=None, accept={(1, 0, 0)}, par=1, rep="broadcast")]
    # ... and every other run takes its turn with one of the representations of REPRS
    for i, rn in enumerate(runs):
        rn.setdefault("rep", REP_CYCLE[i % len(REP_CYCLE)])
    ctx.note("representation_x_format_x_mode_of_real_runs", sorted({"%s/%s/%s/%s" % (rn["rep"], rn["fmt"], rn["mode"], rn["kind"]) for rn in runs}))
    csmap = dict(toastlat.coordsystems())
    for rn in runs:
        cs = csmap[rn["cs"]]
        psi = toastlat.psi_for(tl, rn["cs"])
        d = ctx.mkdtemp("c06")
        label = "%(entry)s depth %(depth)d %(cs)s %(fmt)s %(kind)s %(mode)s par=%(par)s sampler arrays=%(rep)s" % rn + (" (pyramid default format %s)" % rn["piofmt"] if "piofmt" in rn else "")
        key = "C06:%s" % rn["entry"]
        passes = rn["regions"] if rn["regions"] is not None else [None]
        acc = rn["accept"]

        memo_box = {}

        def body(rn=rn, d=d, cs=cs, passes=passes, acc=acc, parallel=1, memo_box=memo_box):
            pio = pyramid.PyramidIO(d, default_format=rn.get("piofmt", rn["fmt"]))
            if rn.get("reuse_pio"):
                # one PyramidIO object outlives its output tree: sample, remove the tree (rn["reuse_pio"] = "tree") or one row
                # directory ("row"), sample again through the same object
                import shutil
                toast.sample_layer(pio, make_sampler(rn["kind"]), rn["depth"], coordsys=cs, parallel=1)
                if rn["reuse_pio"] == "tree":
                    shutil.rmtree(d)
                else:
                    shutil.rmtree(os.path.join(d, str(rn["depth"]), "0"))
            for reg in passes:
                sampler = representing(make_sampler(rn["kind"], reg, infband=rn.get("infband")), rn["rep"], ctx.scratch)
                if rn.get("memo"):
                    sampler = memo_box.setdefault(repr(reg), memoising(sampler))
                if rn["entry"] == "sample_layer" and "piofmt" in rn:
                    # the documented format= override: tiles in rn["fmt"] although the pyramid's default format differs
                    toast.sample_layer(pio, sampler, rn["depth"], coordsys=cs, format=rn["fmt"], parallel=parallel)
                elif rn["entry"] == "sample_layer":
                    toast.sample_layer(pio, sampler, rn["depth"], coordsys=cs, parallel=parallel)
                elif rn["entry"] == "toast_base":
                    kw = dict(is_planet=True) if rn.get("is_planet") else dict(coordsys=cs)
                    if acc is not None or rn["mode"] == "update":
                        kw["tile_filter"] = (lambda t: True) if acc is None else (lambda t: tuple(t.pos) in acc)
                    builder.Builder(pio).toast_base(sampler, rn["depth"], parallel=parallel, **kw)
                else:
                    flt = (lambda t: True) if acc is None else (lambda t: tuple(t.pos) in acc)
                    toast.sample_layer_filtered(pio, flt, sampler, rn["depth"], coordsys=cs, parallel=parallel)
        try:
            if rn["par"] == 1:
                with simrun.quiet():
                    body()
            elif str(rn["par"]).startswith("sim"):
                nw = int(rn["par"][3:])
                out = simrun.run(lambda: body(parallel=nw), simrun.pol_random(ctx.rng))
                if out.status != "returned":
                    ctx.violation(key + ":parallel-outcome", "%s: ended as %s %r under the deterministic scheduler" % (label, out.status, out.exc), {"run": label})
                    continue
            else:
                nw = int(rn["par"][4:])
                kindr, val = guard.run_guarded(lambda: simrun_quiet_call(lambda: body(parallel=nw)), 180)
                if kindr != "ok":
                    ctx.violation(key + ":parallel-outcome", "%s: real-process run ended as %s %s" % (label, kindr, val), {"run": label})
                    continue
        except Exception as e:  # noqa
            ctx.violation(key + ":raises", "%s raised %r" % (label, e), {"run": label})
            continue
        w = judge_dir(ctx, label, key, d, rn["fmt"], rn["depth"], cs, psi, rn["kind"], rn["regions"], rn["mode"], acc,
                      tlc_leafsets.get((rn["depth"], frozenset(acc))) if acc is not None and rn["regions"] is None else None, infband=rn.get("infband"))
        worst = max(worst, w)
        ctx.trace_ok()
        if rn.get("memo"):
            # the same sampler objects serve a second pyramid: what they hand out the second time are the arrays they handed
            # out the first time, which the library was only lent
            d2 = ctx.mkdtemp("c06b")
            try:
                with simrun.quiet():
                    body(d=d2)
            except Exception as e:  # noqa
                ctx.violation(key + ":raises", "%s, second pyramid from the same sampler objects: raised %r" % (label, e), {"run": label})
                continue
            judge_dir(ctx, label + " (second pyramid from the same memoising sampler)", key, d2, rn["fmt"], rn["depth"], cs, psi, rn["kind"], rn["regions"], rn["mode"], acc, None,
                      infband=rn.get("infband"))
            ctx.trace_ok()
    # ---- separately started updating jobs on one directory, reaching shared tiles together
    # every level-1 tile spans a quarter of the longitudes: bands repeated with period pi/2 cut every tile the same way, so the
    # jobs' samplers are complementary / overlapping inside each tile they share (as TLC's column bands are)
    Q = np.pi / 2
    jobruns = [dict(id=1, entry="filtered", cs="planetary", fmt="fits", regions=[(0, 0.7, Q), (0.7, Q, Q)], reps=["native", "be"]),
               dict(id=2, entry="toast_base", cs="astronomical", fmt="npy", regions=[(0, 0.9, Q), (0.5, Q, Q)], reps=["memmap", "native"]),
               dict(id=3, entry="filtered", cs="astronomical", fmt="npy", regions=[(0.8, Q, Q), (0, 0.8, Q)], reps=["fortran", "gapped"], pre=(0.2, 0.4, Q))]
    if not q:
        jobruns += [dict(id=4, entry="filtered", cs="astronomical", fmt="fits", regions=[(0, 0.6, Q), (0.6, Q, Q)], reps=["be", "readonly"]),
                    dict(id=5, entry="toast_base", cs="planetary", fmt="npy", regions=[(0, 0.7, Q), (0.5, Q, Q), (0.3, 1.1, Q)], reps=["native", "be", "negstride"]),
                    dict(id=1, entry="toast_base", cs="astronomical", fmt="npy", regions=[(0, 0.7), (0.7, 7.0)], reps=["be", "memmap"]),
                    dict(id=2, entry="filtered", cs="planetary", fmt="fits", regions=[(0, 0.9, Q), (0.5, Q, Q)], reps=["gapped", "fortran"], pre=(1.0, 1.3, Q))]
    met_total = [0, 0, 0]
    pending = []
    for jr in jobruns:
        jc = [c for c in jobcfgs if c["id"] == jr["id"]][0]
        accepts = [None if isinstance(f, str) else set(f) for (f, _reg) in jc["jobs"]]
        sc = dict(entry=jr["entry"], depth=jD, fmt=jr["fmt"], kind="scalar", pre=jr.get("pre"),
                  jobs=[dict(accept=acc, region=reg, rep=rep) for acc, reg, rep in zip(accepts, jr["regions"], jr["reps"])])
        label = "%d separately started jobs (%s, update) on one directory, depth %d %s %s, filters %s, sampler arrays %s%s" % (
            len(sc["jobs"]), jr["entry"], jD, jr["cs"], jr["fmt"], [sorted(a) if a is not None else "all" for a in accepts], jr["reps"],
            ", tiles of an earlier run present" if jr.get("pre") else "")
        key = "C06:%s-jobs" % jr["entry"]
        pending.append((jr, sc, accepts, label, key))
    while pending:
        # scenarios run side by side, at most 6 job processes at a time
        batch, nproc = [], 0
        while pending and nproc + len(pending[0][1]["jobs"]) <= 6:
            batch.append(pending.pop(0))
            nproc += len(batch[-1][1]["jobs"])
        started = []
        for (jr, sc, accepts, label, key) in batch:
            try:
                started.append(start_jobs(ctx, sc, ctx.mkdtemp("c06j"), csmap[jr["cs"]]))
            except Exception as e:  # noqa
                ctx.violation(key + ":raises", "%s raised %r" % (label, e), {"run": label})
                started.append(None)
        for (jr, sc, accepts, label, key), handle in zip(batch, started):
            if handle is None:
                continue
            status, detail = finish_jobs(ctx, handle)
            if status == "hung":
                ctx.violation(key + ":outcome", "%s: the jobs had not returned after 180 s" % label, {"run": label})
                continue
            if status == "raised":
                ctx.violation(key + ":raises", "%s: %s" % (label, detail), {"run": label})
                continue
            met_total = [a + b for a, b in zip(met_total, detail)]
            contrib = [(job["accept"], job["region"]) for job in sc["jobs"]]
            union = set().union(*[expected_leafset(jD, a) for a in accepts])
            if tlc_job_leaves[jr["id"]] != union:
                ctx.machinery("harness leaf set of job configuration %d disagrees with TLC's" % jr["id"])
            if jr.get("pre"):
                contrib.append(({(n - k, x >> k, y >> k) for (n, x, y) in union for k in range(n)}, jr["pre"]))
            w = judge_dir(ctx, label, key, handle[1], jr["fmt"], jD, csmap[jr["cs"]], toastlat.psi_for(tl, jr["cs"]), "scalar", None, "update", None, contrib=contrib)
            worst = max(worst, w)
            ctx.trace_ok()
    ctx.note("job_rendezvous_before_sampling_returns_met_of_expected_and_kept_inside_read_modify_write", met_total)
    ctx.note("worst_deviation_from_psi", worst)
    ctx.sample({"real_run": runs[5], "note": "every tile read back, 65536 pixels each"})
    ctx.assume("psi is validated against the real tile corners (C04) and pixel grids (C05); png tiles carry 8-bit RGB so the psi comparison allows one level")
    ctx.assume("masked samplers are longitude bands; the band edges fall between pixel centres with probability 1 and the comparison uses the sampler at the real coordinates")


def simrun_quiet_call(fn):
    with simrun.quiet():
        fn()
    return True
