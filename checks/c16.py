"""C16 - flipping image parity reverses rows but moves no pixel on the sky.

Spec: spec/Parity.tla - the object under flip_parity / ensure_negative_parity calls as a state machine over exact
integers (CDELT, PC, doubled CRPIX, the array representation and the PIL representation of the pixel rows), the original
kept as a history variable.  Kinds: array-backed Image, PIL-backed Image (asarray() fills a cache: the Touch action =
any asarray()/dtype call before the parity operation), data-less ImageDescription.  TLC enumerates
kind x width x height x header (CDELT, PC) x CRPIX1 x CRPIX2 (inside, half-pixel, outside the image), explores the
operations from every case and checks SkyUnchanged / SamePicture / SignTracksRows / ViewsAgree (asarray() and aspil()
never disagree) in every state and the action properties FlipOK (sign and determinant negated, rows reversed in both
views, World(x, y) = World'(x, h-1-y) on the pixel lattice and a ring around it, involution), EnsureOK (yields -1,
idempotent, no-op on negative parity) and TouchInvisible (filling the array cache changes neither the views nor the
outcome of any later flip / ensure).  Every initial state emits the predicted header values, signs, row orders of both
views and per-pixel world tables after flip / flip.flip / ensure / ensure.ensure.

Binding (spec -> code): every emitted case is built as a real astropy WCS (CD or PC+CDELT form; the integer matrix given a
pixel scale of 1e-2 .. 1e-9 deg per unit - arcminutes to micro-arcseconds; seven native frames: CRVAL incl. RA wrap, near and AT
both poles, default and explicitly non-default LONPOLE / LATPOLE) and a real toasty object: Image.from_array (F32, RGB), ImageDescription,
or a PIL-backed Image (Image.from_pil of an RGB / RGBA bitmap, ImageLoader.load_pil of an 'L' bitmap, ImageLoader.load_path
of a png file; WCS attached as toasty's cli does) after one of the pre-call histories nothing / asarray() / dtype /
aspil() / shape.  The real flip_parity, flip_parity again, ensure_negative_parity twice are run and compared with the
prediction: parity signs, row order read through asarray() AND through aspil(), wcs_pix2world before at (x, y) against
after at (x, h-1-y) for every pixel (1e-4 pixel on the sphere, at most 1e-9 deg), the linear stage (imgcrd) against TLC's world table,
header CD / CRPIX (drift only).

Call histories: in a second pair of TLC runs the spec records the calls made (MaxHist = 4, thorough 5): every sequence of
that many calls over {flip_parity, ensure_negative_parity} (x a data read, asarray()/dtype, for PIL-backed objects) from
every case of a thin header set is a behaviour of its own, checked by the same invariants plus EnsureAlwaysNegative
(sign -1 after every ensure of every history).  Each history is replayed on ONE real object of its kind and compared with
the spec's state after every call (sign, rows in both views, sky positions); judging stops at the first deviating call.
Two more history families (length 3): (a) the WCS object records a pixel-grid size (wcs.pixel_shape, set directly or by
building the WCS from a header with NAXISn) equal to, larger or smaller than the image - the spec mirrors about the image's
own height, so the recorded size must not matter; (b) TWO Images over one pixel buffer (the second an alias or an
overlapping row slice, with its own WCS object), calls going to either: the spec never writes the buffer (NonInterference,
BufferUntouched, PeerSkyUnchanged, PeerOK), and after every call BOTH real objects are compared with their specified state
(key ...:bystander when the object that was not called has moved on the sky); a written buffer alone is drift.
(c) the WCS object of the Image / ImageDescription is edited IN PLACE between calls (spec action EditWcs: CDi_2 negated,
CDELT1 negated, matrix rows exchanged; base - the reference picture for "moves no pixel" - is reset to the edited object,
EditOK: the parity afterwards is that of the edited matrix): get_parity_sign must follow the object's current contents
(key ...get_parity_sign:convention) and every later flip / ensure is judged against the edited picture.
(d) ONE astropy WCS object held by several owners (spec/ParityHolders.tla, which INSTANCEs Parity for the operations and adds
WHERE the result is stored): 2 or 3 holders (array-backed / PIL-backed Image, ImageDescription; three colour planes, an image and
its description, ...) plus the caller, who keeps its own object w.  The spec gives every slot a WCS cell (= astropy's Wcsprm);
TLC enumerates which slots start on the same cell, and every history of 3 (2 for three holders; thorough 4 / 3) calls over
flip(i) / ensure(i) / an in-place edit of the WCS object reached through a slot.  A flip stores a NEW cell for the flipped holder
and writes no existing one (Bystanders, Detached, NamedOK, HoldersSkyUnchanged, HoldersSignTracksRows; EditScope: an edit is seen by
exactly the slots then on that cell).  Replay: slots on one cell get w itself or w.copy() (shallow: same Wcsprm), slots with a
cell of their own get w.deepcopy() / w.sub() / w.celestial / a fresh WCS (the harness checks `a.wcs is b.wcs` against the spec's
partition); after EVERY call EVERY holder is compared with its specified state: sign, rows in both views, sky positions of its
pixels against its own reference picture, linear stage.  Keys: the called holder ...:sign / rows / sky as before; a holder that
was NOT called but changed ...:bystander; the caller's own object written while no holder shows it is drift (...:caller-wcs), as a
written pixel buffer is.
Not enumerated: WCS objects carrying a FITS alternate-axis key (WCS(header, key="A")).  get_parity_sign / flip_parity /
ensure_negative_parity raise KeyError("Keyword 'CDELT1' not found.") on them (to_header() emits CDELT1A ...): a loud refusal before
anything is written - no sign is reported, no row reversed, no pixel moved - so none of the property's sentences can be observed to
fail on it; toasty reads every WCS through unsuffixed header keywords (builder, WTML) and never constructs an alternate description.
"""
import itertools
import math
import os

from lib import repo, tla

# "all linear celestial WCS": the integer matrices of the spec are given a pixel scale from arcminutes down to micro-arcseconds
# (deg per unit), and the native frame is oriented in every way a header can: reference point anywhere incl. RA wrap, at and
# near the poles, default and explicitly non-default LONPOLE / LATPOLE.  (CRVAL, LONPOLE, LATPOLE): None = the default.
SCALES = [1e-3, 1e-2, 1e-5, 1e-7, 1e-9]
FRAMES = [((10.0, 20.0), None, None), ((359.9995, -45.0), None, None), ((120.0, 89.99), None, None),
          ((40.0, 30.0), 150.0, None), ((200.0, 90.0), 180.0, None), ((75.0, -90.0), 0.0, None), ((300.0, 60.0), 179.0, 45.0)]
# in-place edits of an object's WCS between calls (spec: Edited)
EDITS = {"cdsign": "CD1_2, CD2_2 negated", "cdelt1": "CDELT1 negated", "rowswap": "the two matrix rows exchanged"}
# PIL-backed objects: how the bitmap got into the Image, and what the client called before the parity operation
BACKINGS = ["from_pil-RGB", "from_pil-RGBA", "loader-L", "loader-png"]
TOUCHES = ["nothing", "asarray", "dtype", "aspil", "shape"]

CFG = """SPECIFICATION Spec
CONSTANTS
 Kinds <- MCKinds
 Widths <- MCWidths
 Heights <- MCHeights
 Headers <- MCHeaders
 RefX <- MCRefX
 RefY <- MCRefY
 RecY <- MCRecY
 Peers <- MCPeers
 Edits <- MCEdits
 MaxHist = %d
INVARIANT WellFormed
INVARIANT SkyUnchanged
INVARIANT SamePicture
INVARIANT SignTracksRows
INVARIANT ViewsAgree
INVARIANT EnsureAlwaysNegative
INVARIANT PeerSkyUnchanged
INVARIANT BufferUntouched
INVARIANT Emit
PROPERTY FlipOK
PROPERTY EnsureOK
PROPERTY TouchInvisible
PROPERTY NonInterference
PROPERTY PeerOK
PROPERTY EditOK
CHECK_DEADLOCK FALSE
"""


CFG_HOLDERS = """SPECIFICATION Spec
CONSTANTS
 Configs <- MCConfigs
 Widths <- MCWidths
 Heights <- MCHeights
 Headers <- MCHeaders
 RefX <- MCRefX
 RefY <- MCRefY
 Edits <- MCEdits
 EditVia <- MCEditVia
 MaxHist = %d
INVARIANT WellFormedH
INVARIANT HoldersSkyUnchanged
INVARIANT CallerUnmoved
INVARIANT HoldersViewsAgree
INVARIANT HoldersSignTracksRows
INVARIANT EnsureAlwaysNegativeH
INVARIANT Emit
PROPERTY Bystanders
PROPERTY NamedOK
PROPERTY Detached
PROPERTY EditScope
CHECK_DEADLOCK FALSE
"""


def det(cdelt, pc):
    return cdelt[0] * cdelt[1] * (pc[0] * pc[3] - pc[1] * pc[2])


def headers(rng, n_random, every_pc_form=1):
    """(cdelt, pc) pairs: all non-singular sign/permutation/shear matrices over {-1,0,1}, exact (Pythagorean) rotations in
    both parities with isotropic and anisotropic scales, skews, and seeded integer matrices."""
    out = []
    n = 0
    for pc in itertools.product((-1, 0, 1), repeat=4):
        if det((1, 1), pc) != 0:
            out.append(((1, 1), pc))                       # built as a CD matrix
            if n % every_pc_form == 0 or pc == (1, 0, 0, 1):
                out.append(((-1, 1), pc))                  # built as PC + CDELT (identity PC: the plain CDELT-only header)
            n += 1
    for a, b in ((3, 4), (4, 3), (5, 12), (15, 8), (7, 24), (20, 21)):
        for mirror in (1, -1):
            pc = (a, -b * mirror, b, a * mirror)          # rotation (times the hypotenuse), optionally mirrored
            out.append(((1, 1), pc))
            out.append(((-1, 1), pc))                      # RA decreasing with x: the usual sky orientation
            out.append(((2, -3), pc))                      # anisotropic pixels
    for pc in ((2, 1, 0, 1), (1, 3, 0, -1), (3, 1, 1, 2), (-2, 5, 1, -3), (1, 0, 7, 1), (0, 2, -5, 9)):
        out.append(((1, 1), pc))
        out.append(((-1, 2), pc))
    seen = set(out)
    cds = [(1, 1), (-1, 1), (-3, 2), (1, -1), (2, 5)]
    while n_random > 0:
        pc = tuple(rng.randint(-50, 50) for _ in range(4))
        cdelt = rng.choice(cds)
        if det(cdelt, pc) == 0 or (cdelt, pc) in seen:
            continue
        seen.add((cdelt, pc))
        out.append((cdelt, pc))
        n_random -= 1
    return out


def history_headers(hdrs):
    """a thin header set for the call-history runs: both parities, unrotated / rotated / skewed, CD and PC+CDELT forms
    (identity PC = the plain CDELT-only header), plus the last two seeded matrices"""
    pick = [((1, 1), (1, 0, 0, 1)), ((1, 1), (1, 0, 0, -1)), ((-1, 1), (1, 0, 0, 1)), ((-1, 1), (0, 1, 1, 0)),
            ((1, 1), (0, -1, 1, 0)), ((1, 1), (3, -4, 4, 3)), ((-1, 1), (3, 4, 4, -3)), ((2, -3), (5, -12, 12, 5)),
            ((-1, 2), (2, 1, 0, 1)), ((1, 1), (3, 1, 1, 2))]
    missing = [x for x in pick if x not in hdrs]
    assert not missing, missing
    return pick + [x for x in hdrs[-2:] if x not in pick]


def mc_module(kinds, widths, heights, hdrs, refx, refy, maxhist=0, recy=((0, 0),), peers=("none",), edits=()):
    defs = [("MCKinds", tla.lit(set(kinds))), ("MCWidths", tla.lit(set(widths))), ("MCHeights", tla.lit(set(heights))),
            ("MCHeaders", tla.lit(set(hdrs))), ("MCRefX", tla.lit(set(refx))), ("MCRefY", tla.lit(set(refy))),
            ("MCRecY", tla.lit(set(recy))), ("MCPeers", tla.lit(set(peers))), ("MCEdits", tla.lit(set(edits)))]
    if maxhist == 0:
        defs.append('Emit == (cur = Start(orig)) => PrintT(<<"R", ToJson(Report)>>)')
    else:       # one record per complete call history
        defs.append('Emit == (Len(hist) = MaxHist) => PrintT(<<"H", ToJson(HistoryReport)>>)')
    return tla.module("MCParity", ["Parity", "Json"], defs)


def mc_holders(configs, widths, heights, hdrs, refx, refy, maxhist, edits=(), editvia=()):
    """one WCS object held by several owners (spec/ParityHolders.tla): configs = [(kinds, share)]"""
    defs = [("MCConfigs", tla.lit(set((tuple(k), tuple(sh)) for k, sh in configs))), ("MCWidths", tla.lit(set(widths))),
            ("MCHeights", tla.lit(set(heights))), ("MCHeaders", tla.lit(set(hdrs))), ("MCRefX", tla.lit(set(refx))),
            ("MCRefY", tla.lit(set(refy))), ("MCEdits", tla.lit(set(edits))), ("MCEditVia", tla.lit(set(editvia))),
            'Emit == (Len(hist) = MaxHist) => PrintT(<<"S", ToJson(HoldersReport)>>)']
    return tla.module("MCParityHolders", ["ParityHolders", "Json"], defs)


def count_holder_histories(configs, widths, heights, hdrs, refx, refy, maxhist, edits=(), editvia=()):
    per_size = len(widths) * len(hdrs) * len(refx) * sum(len({a + b * h for a, b in refy}) for h in heights)
    return per_size * sum((2 * len(k) + len([v for v in editvia if v <= len(k)]) * len(edits)) ** maxhist for k, sh in set((tuple(k), tuple(sh)) for k, sh in configs))


# ------------------------------------------------------------------------------------------------
# replay of one TLC case into the real code (pool worker)
# ------------------------------------------------------------------------------------------------

def _unit(radec):
    import numpy as np
    ra = np.radians(radec[:, 0])
    de = np.radians(radec[:, 1])
    return np.stack([np.cos(de) * np.cos(ra), np.cos(de) * np.sin(ra), np.sin(de)], axis=1)


def _sep_deg(a, b):
    import numpy as np
    return np.degrees(np.linalg.norm(_unit(a) - _unit(b), axis=1))


def _header_cd(wcs):
    h = wcs.to_header()
    c1, c2 = h.get("CDELT1", 1.0), h.get("CDELT2", 1.0)
    cd = (c1 * h.get("PC1_1", 1.0), c1 * h.get("PC1_2", 0.0), c2 * h.get("PC2_1", 0.0), c2 * h.get("PC2_2", 1.0))
    return cd, (h["CRPIX1"], h["CRPIX2"])


def replay_case(args):
    """Returns (results, n_calls); results = list of (severity, key, message, case)."""
    idx, rec, scratch = args
    repo.setup()
    import contextlib
    import io
    import os
    import numpy as np
    from astropy.wcs import WCS
    from PIL import Image as PilImage
    from toasty.image import Image, ImageDescription, ImageLoader, ImageMode
    o = rec["orig"]
    kind, w, h = o.get("kind", "holders"), o["w"], o["h"]           # "holders": several objects around one WCS object
    cdelt, pc, p = o["cdelt"], o["pc"], o["p"]
    crval, lonpole, latpole = FRAMES[idx % len(FRAMES)]
    SCALE = SCALES[(idx // len(FRAMES)) % len(SCALES)]
    # sky positions are compared to 1e-4 pixel, at most 1e-9 deg, at least the float noise of a coordinate near 360 deg
    TOL_DEG = max(2e-12, min(1e-9, 1e-4 * SCALE))
    has_data = kind != "desc"
    # what backs the pixel data, and what the client did with the object before the parity call
    if kind == "image":
        backing = "array-RGB" if idx % 4 == 1 else "array-F32"
        touch = "nothing"
    elif kind == "pil":
        backing = BACKINGS[idx % len(BACKINGS)]
        touch = TOUCHES[(idx // len(BACKINGS)) % len(TOUCHES)]
    else:
        backing, touch = "none", "nothing"
    cls = "ImageDescription" if kind == "desc" else "Image"
    case = {"kind": cls, "width": w, "height": h, "CDELT": [c * SCALE for c in cdelt] if tuple(cdelt) != (1, 1) else [1, 1],
            "PC": pc if tuple(cdelt) != (1, 1) else None, "CD": [v * SCALE for v in (rec["start"][0] if kind == "holders" else rec["start"])["cd"]],
            "CRPIX": [p[0] / 2.0, p[1] / 2.0], "CRVAL": list(crval), "LONPOLE": lonpole, "LATPOLE": latpole,
            "deg_per_unit": SCALE, "data": backing, "before_the_call": touch,
            "wcs_records_grid": None if not o.get("nax") else [w + o["nax"] - h, o["nax"]],
            "second_image_on_the_buffer": o.get("peer", "none")}
    res = []
    ncalls = 0
    both_views = backing != "array-F32" and has_data          # aspil() exists for bitmaps only

    def bad(sev, op, what, msg):
        res.append((sev, "%s.%s:%s" % (cls, op, what), msg, case))

    base = np.arange(h * w).reshape(h, w)                       # pixel number = y*w + x (< 251 for every size used)

    def bitmap(planes):
        chans = [base % 251, base // 251, np.full_like(base, 7), np.full_like(base, 255)][:planes]
        return np.stack(chans, axis=2).astype(np.uint8)

    def record_grid(wcs):
        """the WCS object may remember the pixel grid it was made for (NAXISn of the header it came from) - which need not be
        this image's size (a cut-out reusing the parent frame's WCS, a bitmap tagged with another file's header)"""
        nax = o.get("nax", 0)
        if not nax:
            return wcs
        if idx % 2:
            wcs.pixel_shape = (w + nax - h, nax)
            return wcs
        from astropy.io import fits
        hdr = fits.Header()
        hdr["SIMPLE"], hdr["BITPIX"], hdr["NAXIS"], hdr["NAXIS1"], hdr["NAXIS2"] = True, -32, 2, w + nax - h, nax
        hdr.extend(wcs.to_header(), update=True)
        return WCS(hdr)

    def make_wcs():
        wcs = WCS(naxis=2)
        wcs.wcs.ctype = ["RA---TAN", "DEC--TAN"]
        wcs.wcs.crval = list(crval)
        if lonpole is not None:
            wcs.wcs.lonpole = lonpole
        if latpole is not None:
            wcs.wcs.latpole = latpole
        wcs.wcs.crpix = [p[0] / 2.0, p[1] / 2.0]
        if tuple(cdelt) == (1, 1):
            wcs.wcs.cd = np.array(pc, dtype=float).reshape(2, 2) * SCALE
        else:
            wcs.wcs.pc = np.array(pc, dtype=float).reshape(2, 2)
            wcs.wcs.cdelt = [cdelt[0] * SCALE, cdelt[1] * SCALE]
        wcs.wcs.set()
        return record_grid(wcs)

    def make_object(backing, wcs):
        if backing == "array-F32":
            obj = Image.from_array(base.astype(np.float32), wcs=wcs)
        elif backing == "array-RGB":
            obj = Image.from_array(bitmap(3), wcs=wcs)
        elif backing == "from_pil-RGB":
            obj = Image.from_pil(PilImage.fromarray(bitmap(3)), wcs=wcs)
        elif backing == "from_pil-RGBA":
            obj = Image.from_pil(PilImage.fromarray(bitmap(4)), wcs=wcs)
        elif backing == "loader-L":
            # an 8-bit greyscale bitmap goes through the loader (which standardises it to RGB); WCS attached as cli.py does
            with contextlib.redirect_stdout(io.StringIO()):
                obj = ImageLoader().load_pil(PilImage.fromarray(base.astype(np.uint8), mode="L"))
            obj._wcs = wcs
        elif backing == "loader-png":
            obj = ImageLoader().load_path(os.path.join(scratch, "bitmap_%dx%d.png" % (w, h)))
            obj._wcs = wcs
        else:
            obj = ImageDescription(mode=ImageMode.F32, shape=(h, w), wcs=wcs)
        return obj

    def build():
        obj = make_object(backing, make_wcs())
        if backing == "none":
            return obj, None
        if touch == "asarray":
            obj.asarray()
        elif touch == "dtype":
            obj.dtype
        elif touch == "aspil":
            obj.aspil()
        elif touch == "shape":
            obj.shape, obj.height, obj.width
        return obj, base

    def ident_of(a, bk=None):
        a = np.asarray(a)
        if a.ndim == 2:
            return a.astype(int)
        if (bk or backing) == "loader-L":
            return a[..., 0].astype(int)
        return a[..., 0].astype(int) + 251 * a[..., 1].astype(int)

    xs, ys = np.meshgrid(np.arange(w), np.arange(h))
    pix = np.stack([xs.ravel(), ys.ravel()], axis=1).astype(float)          # 0-based, row-major: index = y*w + x

    def observe(obj):
        wcs = obj.wcs
        sky = wcs.wcs_pix2world(pix, 0)
        img = wcs.wcs.p2s(pix + 1.0, 1)["imgcrd"]          # (origin=0 would shift imgcrd too)
        ident = ident_pil = None
        if has_data:
            ident = ident_of(obj.asarray())                                # original pixel number stored at [y][x]
            if both_views:
                ident_pil = ident_of(obj.aspil())                          # ... as seen through the PIL view (what save() writes)
        return {"sign": obj.get_parity_sign(), "sky": sky, "img": img, "ident": ident, "ident_pil": ident_pil,
                "hdr": _header_cd(wcs), "shape": tuple(obj.shape)}

    def stored_rows(ident):
        return [int(r[0]) // w for r in ident]

    def world_ok(ob, table):
        exp = np.array(table, dtype=float).reshape(h * w, 2) * (SCALE / 2.0)
        return np.allclose(ob["img"], exp, rtol=1e-9, atol=1e-10 * SCALE)

    def rows_ok(ob, rows, view="ident"):
        if ob[view] is None:
            return True
        exp = np.array([[r * w + x for x in range(w)] for r in rows])
        return ob[view].shape == exp.shape and bool((ob[view] == exp).all())

    def pil_view_check(op, n, ob, snap):
        """ViewsAgree on the real object: the PIL view (aspil(), what Image.save writes for png/jpg) shows the same rows
        as the array view (whether those are the right rows is judged separately, against the spec's row order)."""
        if ob["ident_pil"] is None:
            return
        if snap["pil"] != snap["rows"]:
            res.append(("M", "spec", "the spec predicts disagreeing views for %r" % (case,), case))
        if ob["ident_pil"].shape != ob["ident"].shape or not bool((ob["ident_pil"] == ob["ident"]).all()):
            bad("V", "flip_parity", "rows-aspil",
                "after %s (call %d) of a %s image (before the call: %s) aspil() shows rows %s (original row numbers) but asarray() shows %s; specified for both: %s"
                % (op, n, backing, touch, stored_rows(ob["ident_pil"]) if ob["ident_pil"].shape[:2] == (h, w) else ob["ident_pil"].shape,
                   stored_rows(ob["ident"]), snap["rows"]))

    def sky_follows_rows(ob, ob0, rows):
        """pixel stored in array row y is original row rows[y]: its sky position must be the original one."""
        src = np.array([rows[y] * w + x for y in range(h) for x in range(w)])
        return float(_sep_deg(ob["sky"], ob0["sky"][src]).max())

    def header_drift(op, ob, snap):
        cd, crpix = ob["hdr"]
        exp_cd = [v * SCALE for v in snap["cd"]]
        exp_p = [snap["p"][0] / 2.0, snap["p"][1] / 2.0]
        if not (np.allclose(cd, exp_cd, rtol=1e-9, atol=1e-12 * SCALE) and np.allclose(crpix, exp_p, rtol=1e-12, atol=1e-12)):
            bad("D", op, "header", "header after %s has CD=%s CRPIX=%s, the specified reflection gives CD=%s CRPIX=%s"
                % (op, cd, crpix, exp_cd, exp_p))

    def replay_history():
        """one real object, the calls of rec["hist"] in order, compared with the spec's state after every call"""
        nonlocal ncalls
        try:
            obj, _ = build()
        except Exception as e:  # noqa - the harness could not even construct the object
            return [("M", "build", "could not build the object under test: %r (%r)" % (e, case), case)], 0
        ob0 = observe(obj)
        if not world_ok(ob0, rec["world"]):
            return [("M", "build", "the WCS built by the harness does not have the spec's linear stage: %r" % (case,), case)], 1
        if ob0["sign"] != rec["start"]["sign"]:
            res.append(("V", "%s.get_parity_sign:convention" % cls,
                        "%s.get_parity_sign() = %r for a CD determinant of %g (documented: negative determinant -> +1, positive -> -1)"
                        % (cls, ob0["sign"], rec["start"]["det"] * SCALE * SCALE), case))
        mirror_src = np.array([(h - 1 - y) * w + x for y in range(h) for x in range(w)])
        done = []
        prev_sign = ob0["sign"]
        prev_ob = ob0
        base_rows, base_cd = list(rec["start"]["rows"]), rec["start"]["cd"]      # the reference picture: the start, or the last WCS edit
        for i, (act, step) in enumerate(zip(rec["hist"], rec["trace"])):
            snap = step["snap"]
            if act in EDITS:
                # the client edits the WCS object of the Image / ImageDescription IN PLACE (as toasty's own --fits-wcs code does):
                # from here on the object is a different picture of the sky, and its parity is that of its current matrix
                wobj = obj.wcs
                if wobj.wcs.has_cd():
                    wobj.wcs.cd = np.array(snap["cd"], dtype=float).reshape(2, 2) * SCALE
                else:
                    wobj.wcs.cdelt = [SCALE, SCALE]
                    wobj.wcs.pc = np.array(snap["cd"], dtype=float).reshape(2, 2)
                wobj.wcs.set()
                done.append("wcs edited in place (%s)" % EDITS[act])
                hist_txt = " [calls so far: %s]" % " -> ".join(done)
                ob = observe(obj)
                if not world_ok(ob, step["world"]):
                    res.append(("M", "edit", "the in-place WCS edit made by the harness does not give the spec's linear stage: %r" % (case,), case))
                    break
                if ob["sign"] != snap["sign"]:
                    bad("V", "get_parity_sign", "convention",
                        "%s.get_parity_sign() = %+d for a CD determinant of %g after the object's WCS was edited in place (it was %+d before the edit)%s"
                        % (cls, ob["sign"], snap["det"] * SCALE * SCALE, prev_sign, hist_txt))
                    break
                ob0, prev_ob, prev_sign = ob, ob, ob["sign"]
                base_rows, base_cd = list(snap["rows"]), snap["cd"]
                continue
            if act == "flip":
                op = "flip_parity"
                obj.flip_parity()
            elif act == "ensure":
                op = "ensure_negative_parity"
                obj.ensure_negative_parity()
            else:
                op = "asarray"
                if i % 2:
                    obj.dtype
                else:
                    obj.asarray()
            ncalls += 1
            done.append(op)
            hist_txt = " [calls so far: %s]" % " -> ".join(done)
            ob = observe(obj)
            n_before = len([x for x in res if x[0] == "V"])
            if act == "touch":
                # reading the data must change nothing (whether the state is right was judged at the call that produced it)
                same = (ob["sign"] == prev_ob["sign"] and bool((ob["ident"] == prev_ob["ident"]).all())
                        and float(_sep_deg(ob["sky"], prev_ob["sky"]).max()) <= TOL_DEG)
                if not same:
                    bad("V", op, "changed", "reading the pixel data changed the object (sign %+d -> %+d, rows %s -> %s)%s"
                        % (prev_ob["sign"], ob["sign"], stored_rows(prev_ob["ident"]), stored_rows(ob["ident"]), hist_txt))
                    break
                pil_view_check(op + hist_txt, i + 1, ob, snap)
                prev_ob = ob
                continue
            prev_ob = ob
            if ob["sign"] != snap["sign"]:
                if act == "ensure":
                    bad("V", op, "sign", "parity sign %+d after ensure_negative_parity%s" % (ob["sign"], hist_txt))
                elif act == "flip":
                    bad("V", op, "sign", "parity sign %+d before flip_parity, %+d after%s" % (prev_sign, ob["sign"], hist_txt))
                else:
                    bad("V", op, "sign", "parity sign changed from %+d to %+d by reading the data%s" % (prev_sign, ob["sign"], hist_txt))
            prev_sign = ob["sign"]
            if has_data:
                if ob["ident"].shape != (h, w) or not rows_ok(ob, snap["rows"]):
                    bad("V", op, "rows" if act != "ensure" else "sky",
                        "the stored rows are %s (original row numbers), specified %s%s"
                        % (stored_rows(ob["ident"]) if ob["ident"].shape == (h, w) else ob["ident"].shape, snap["rows"], hist_txt))
                else:
                    pos0 = {r: k for k, r in enumerate(base_rows)}
                    src = np.array([pos0[r] * w + x for r in snap["rows"] for x in range(w)])
                    sep = float(_sep_deg(ob["sky"], ob0["sky"][src]).max())
                    if not sep <= TOL_DEG:
                        bad("V", op, "sky", "a pixel moved on the sky by %.3g deg (stored rows %s, sign %+d)%s" % (sep, snap["rows"], ob["sign"], hist_txt))
                pil_view_check(op + hist_txt, i + 1, ob, snap)
            else:
                flipped = snap["cd"] != base_cd
                sep = float(_sep_deg(ob["sky"], ob0["sky"][mirror_src] if flipped else ob0["sky"]).max())
                if not sep <= TOL_DEG:
                    bad("V", op, "sky", "pixels moved on the sky by %.3g deg relative to the %s original%s" % (sep, "mirrored" if flipped else "unchanged", hist_txt))
            if not world_ok(ob, step["world"]):
                bad("V" if act != "touch" else "D", op, "sky", "the linear WCS stage differs from the specified world table%s" % hist_txt)
            header_drift(op, ob, snap)
            if len([x for x in res if x[0] == "V"]) > n_before:
                break                 # the object has left the specified path: later calls would be judged against the wrong state
        return res, ncalls

    def replay_shared():
        """two Images over one pixel buffer (the second an alias or an overlapping row slice, with its own WCS object); the calls
        of rec["hist"] go to either; after EVERY call BOTH objects are compared with the spec: the one that was called, and the
        bystander, whose pixels must not have moved on the sky"""
        nonlocal ncalls
        first, ph = rec["pfirst"], rec["ph"]
        frame = bitmap(3) if idx % 2 else base.astype(np.float32)           # one writeable, C-contiguous buffer
        objs = {"A": (Image.from_array(frame, wcs=make_wcs()), h, 0, "start", "world"),
                "B": (Image.from_array(frame if o["peer"] == "alias" else frame[first:first + ph], wcs=make_wcs()), ph, first, "pstart", "pworld")}
        what_b = {"alias": "the same array", "tail": "rows 1..h-1 of the same array", "head": "rows 0..h-2 of the same array"}[o["peer"]]

        def look(name):
            obj, hh, off, _, _ = objs[name]
            xs2, ys2 = np.meshgrid(np.arange(w), np.arange(hh))
            px = np.stack([xs2.ravel(), ys2.ravel()], axis=1).astype(float)
            return {"sign": obj.get_parity_sign(), "sky": obj.wcs.wcs_pix2world(px, 0), "img": obj.wcs.wcs.p2s(px + 1.0, 1)["imgcrd"],
                    "ident": ident_of(obj.asarray()), "shape": tuple(obj.shape)}

        def deviates(name, ob, ob_start, snap, table):
            """None, or (what, text): how the real object differs from the specified one"""
            _, hh, off, _, _ = objs[name]
            if ob["sign"] != snap["sign"]:
                return "sign", "parity sign %+d, specified %+d" % (ob["sign"], snap["sign"])
            exp = np.array([[r * w + x for x in range(w)] for r in snap["rows"]])
            if ob["ident"].shape != exp.shape or not bool((ob["ident"] == exp).all()):
                got = [int(r[0]) // w for r in ob["ident"]] if ob["ident"].ndim == 2 and ob["ident"].shape[1] == w else ob["ident"].shape
                return "rows", "it shows the frame rows %s, specified %s" % (got, snap["rows"])
            src = np.array([(r - off) * w + x for r in snap["rows"] for x in range(w)])
            sep = float(_sep_deg(ob["sky"], ob_start["sky"][src]).max())
            if not sep <= TOL_DEG:
                return "sky", "its pixels moved on the sky by up to %.3g deg" % sep
            expw = np.array(table, dtype=float).reshape(hh * w, 2) * (SCALE / 2.0)
            if not np.allclose(ob["img"], expw, rtol=1e-9, atol=1e-10 * SCALE):
                return "sky", "its linear WCS stage differs from the specified world table"
            return None

        start = {n: look(n) for n in objs}
        for n in objs:
            if deviates(n, start[n], start[n], rec[objs[n][3]], rec[objs[n][4]]) is not None:
                return [("M", "build", "shared-buffer object %s is not in the specified start state: %r" % (n, case), case)], 0
        done = []
        for act, step in zip(rec["hist"], rec["trace"]):
            tgt = "B" if act.endswith("B") else "A"
            op = "flip_parity" if act.startswith("flip") else "ensure_negative_parity"
            getattr(objs[tgt][0], op)()
            ncalls += 1
            done.append("%s.%s()" % (tgt, op))
            hist_txt = " [two Images, B wraps %s; calls so far: %s]" % (what_b, ", ".join(done))
            stop = False
            for n in ("A", "B"):
                snap, table = (step["snap"], step["world"]) if n == "A" else (step["psnap"], step["pworld"])
                dev = deviates(n, look(n), start[n], snap, table)
                if dev is None:
                    continue
                stop = True
                if n == tgt:
                    what = dev[0] if not (op == "ensure_negative_parity" and dev[0] == "rows") else "sky"
                    bad("V", op, what, "after %s: %s%s" % (done[-1], dev[1], hist_txt))
                else:
                    bad("V", op, "bystander", "%s changed Image %s, which was not called: %s%s" % (done[-1], n, dev[1], hist_txt))
            frame_ids = ident_of(frame)
            if not bool((frame_ids == base).all()):
                bad("D", op, "buffer", "the caller's pixel buffer was written by %s%s" % (done[-1], hist_txt))
            if stop:
                break
        return res, ncalls

    def replay_holders():
        """ONE astropy WCS object held by several owners (spec/ParityHolders.tla): N Images / ImageDescriptions built with the
        caller's WCS object w itself, a w.copy() (a shallow copy: same Wcsprm), or - where the spec gives a holder a cell of its
        own - w.deepcopy() / w.sub() / w.celestial / a WCS built afresh; the caller keeps w.  The calls of rec["hist"] go to one
        holder at a time (or edit, in place, the WCS object reached through a slot); after EVERY call EVERY holder is compared
        with its specified state: the one that was called, and all the others, whose pixels must not have moved on the sky."""
        nonlocal ncalls
        kinds, share = o["kinds"], o["share"]
        n = len(kinds)
        slots = range(n + 1)
        w0 = make_wcs()                                   # the caller's object
        masters, names = {share[0]: w0}, {share[0]: "w"}
        derive = ["deepcopy", "sub", "celestial", "fresh"]
        for g in sorted(set(share)):
            if g in masters:
                continue
            d = derive[(idx + g) % len(derive)]
            masters[g] = w0.deepcopy() if d == "deepcopy" else w0.sub([1, 2]) if d == "sub" else w0.celestial if d == "celestial" else make_wcs()
            names[g] = {"deepcopy": "w.deepcopy()", "sub": "w.sub([1, 2])", "celestial": "w.celestial", "fresh": "a WCS built afresh"}[d]
        wobjs, backs, objs, texts, clss = [w0], ["none"], [None], ["the caller keeps w"], [None]
        members = {share[0]: 1}
        for j in range(1, n + 1):
            g = share[j]
            k = members.get(g, 0)
            members[g] = k + 1
            if k == 0 or (idx + j + k) % 2:
                wj, txt = masters[g], names[g] if k == 0 or g == share[0] else "the same object as the first holder of %s" % names[g]
            else:
                wj, txt = masters[g].copy(), ("w.copy()" if g == share[0] else "a .copy() of the object of the first holder of %s" % names[g])
            bk = ("array-RGB" if (idx + j) % 2 else "array-F32") if kinds[j - 1] == "image" else \
                BACKINGS[(idx + j) % len(BACKINGS)] if kinds[j - 1] == "pil" else "none"
            wobjs.append(wj)
            backs.append(bk)
            objs.append(make_object(bk, wj))
            clss.append("ImageDescription" if bk == "none" else "Image")
            texts.append("%d: %s(%s, wcs=%s)" % (j, clss[j], bk if bk != "none" else "no data", txt))
        case["kind"] = "%d holders {%s; %s}" % (n, "; ".join(texts[1:]), texts[0])
        case["holders"], case["data"] = texts, backs[1:]
        for a in slots:
            for b in slots:
                if (wobjs[a].wcs is wobjs[b].wcs) != (share[a] == share[b]):
                    return [("M", "build", "astropy shares the WCS parameters of slots %d and %d otherwise than the spec says: %r" % (a, b, case), case)], 0

        def look(s):
            wcs = w0 if s == 0 else objs[s].wcs
            ob = {"sign": None, "sky": wcs.wcs_pix2world(pix, 0), "img": wcs.wcs.p2s(pix + 1.0, 1)["imgcrd"], "ident": None, "ident_pil": None}
            if s:
                ob["sign"] = objs[s].get_parity_sign()
                if backs[s] != "none":
                    ob["ident"] = ident_of(objs[s].asarray(), backs[s])
                    if backs[s] != "array-F32":
                        ob["ident_pil"] = ident_of(objs[s].aspil(), backs[s])
            return ob

        def table_ok(ob, table):
            return np.allclose(ob["img"], np.array(table, dtype=float).reshape(h * w, 2) * (SCALE / 2.0), rtol=1e-9, atol=1e-10 * SCALE)

        def deviates(s, ob, snap, table):
            """None, or (what, text): how the real object in slot s differs from the specified one"""
            if s and ob["sign"] != snap["sign"]:
                return "sign", "parity sign %+d, specified %+d" % (ob["sign"], snap["sign"])
            if ob["ident"] is not None:
                exp = np.array([[r * w + x for x in range(w)] for r in snap["rows"]])
                if ob["ident"].shape != exp.shape or not bool((ob["ident"] == exp).all()):
                    return "rows", "its stored rows are %s (original row numbers), specified %s" % (
                        stored_rows(ob["ident"]) if ob["ident"].shape == (h, w) else ob["ident"].shape, snap["rows"])
                if ob["ident_pil"] is not None and (ob["ident_pil"].shape != exp.shape or not bool((ob["ident_pil"] == exp).all())):
                    return "rows-aspil", "aspil() shows rows %s, specified %s" % (
                        stored_rows(ob["ident_pil"]) if ob["ident_pil"].shape[:2] == (h, w) else ob["ident_pil"].shape, snap["rows"])
                pos0 = {r: k for k, r in enumerate(ref_rows[s])}
                src = np.array([pos0[r] * w + x for r in snap["rows"] for x in range(w)])
            else:
                src = mirror_src if snap["cd"] != ref_cd[s] else np.arange(h * w)
            sep = float(_sep_deg(ob["sky"], ref_ob[s]["sky"][src]).max())
            if not sep <= TOL_DEG:
                return "sky", "its pixels moved on the sky by up to %.3g deg" % sep
            if not table_ok(ob, table):
                return "sky", "its linear WCS stage differs from the specified world table"
            return None

        mirror_src = np.array([(h - 1 - y) * w + x for y in range(h) for x in range(w)])
        ref_ob = [look(s) for s in slots]                  # the reference picture of every slot: the start, or the last edit it saw
        ref_rows = [list(rec["start"][s]["rows"]) for s in slots]
        ref_cd = [rec["start"][s]["cd"] for s in slots]
        for s in slots:
            if not table_ok(ref_ob[s], rec["world"]) or float(_sep_deg(ref_ob[s]["sky"], ref_ob[0]["sky"]).max()) > TOL_DEG:
                return [("M", "build", "slot %d does not start with the spec's linear stage / the caller's sky: %r" % (s, case), case)], 0
            if s and ref_ob[s]["sign"] != rec["start"][s]["sign"]:
                res.append(("V", "%s.get_parity_sign:convention" % clss[s],
                            "%s.get_parity_sign() = %r for a CD determinant of %g (documented: negative determinant -> +1, positive -> -1)"
                            % (clss[s], ref_ob[s]["sign"], rec["start"][s]["det"] * SCALE * SCALE), case))
                return res, ncalls
        done = []
        for ent, step in zip(rec["hist"], rec["trace"]):
            act, on = ent["op"], ent["on"]
            if act in EDITS:
                # the client edits, IN PLACE, the WCS object it reaches through slot `on` (its own w, or holder.wcs)
                wobj = w0 if on == 0 else objs[on].wcs
                snap = step["snaps"][on]
                if wobj.wcs.has_cd():
                    wobj.wcs.cd = np.array(snap["cd"], dtype=float).reshape(2, 2) * SCALE
                else:
                    wobj.wcs.cdelt = [SCALE, SCALE]
                    wobj.wcs.pc = np.array(snap["cd"], dtype=float).reshape(2, 2)
                wobj.wcs.set()
                done.append("%s edited in place (%s)" % ("the caller's w" if on == 0 else "holder %d's .wcs" % on, EDITS[act]))
                hist_txt = " [%s; calls so far: %s]" % (case["kind"], ", ".join(done))
                stop = False
                for s in slots:
                    ob = look(s)
                    if not table_ok(ob, step["worlds"][s]):
                        res.append(("D", "edit", "after an in-place edit slot %d does not have the linear stage the spec gives it (which objects share "
                                    "WCS parameters differs from the spec)%s" % (s, hist_txt), case))
                        stop = True
                    elif s and ob["sign"] != step["snaps"][s]["sign"]:
                        res.append(("V", "%s.get_parity_sign:convention" % clss[s],
                                    "%s.get_parity_sign() = %+d for a CD determinant of %g after the WCS object was edited in place%s"
                                    % (clss[s], ob["sign"], step["snaps"][s]["det"] * SCALE * SCALE, hist_txt), case))
                        stop = True
                    if s in step["reset"]:
                        ref_ob[s], ref_rows[s], ref_cd[s] = ob, list(step["snaps"][s]["rows"]), step["snaps"][s]["cd"]
                if stop:
                    break
                continue
            op = "flip_parity" if act == "flip" else "ensure_negative_parity"
            getattr(objs[on], op)()
            ncalls += 1
            done.append("holder %d.%s()" % (on, op))
            hist_txt = " [%s; calls so far: %s]" % (case["kind"], ", ".join(done))
            stop = False
            for s in slots:
                dev = deviates(s, look(s), step["snaps"][s], step["worlds"][s])
                if dev is None:
                    continue
                stop = True
                if s == on:
                    what = dev[0] if not (op == "ensure_negative_parity" and dev[0] == "rows") else "sky"
                    res.append(("V", "%s.%s:%s" % (clss[on], op, what), "after %s: %s%s" % (done[-1], dev[1], hist_txt), case))
                elif s == 0:
                    # nobody's pixels are described by the caller's own object alone: a sentence fails only through a holder
                    res.append(("D", "%s.%s:caller-wcs" % (clss[on], op), "%s wrote the WCS object the caller passed in: %s%s" % (done[-1], dev[1], hist_txt), case))
                else:
                    res.append(("V", "%s.%s:bystander" % (clss[on], op), "%s changed holder %d (%s), which was not called: %s%s"
                                % (done[-1], s, clss[s], dev[1], hist_txt), case))
            if stop:
                break                 # the objects have left the specified path
        return res, ncalls

    if "kinds" in o:
        try:
            return replay_holders()
        except Exception as e:  # noqa
            import traceback
            bad("V", "flip_parity", "raises", "parity operations raised %r in shared-WCS history %s (%s)" % (e, rec["hist"], traceback.format_exc().splitlines()[-3].strip()))
            return res, ncalls
    if "hist" in rec and o.get("peer", "none") != "none":
        try:
            return replay_shared()
        except Exception as e:  # noqa
            import traceback
            bad("V", "flip_parity", "raises", "parity operations raised %r in shared-buffer history %s (%s)" % (e, rec["hist"], traceback.format_exc().splitlines()[-3].strip()))
            return res, ncalls
    if "hist" in rec:
        try:
            return replay_history()
        except Exception as e:  # noqa
            import traceback
            bad("V", "flip_parity", "raises", "parity operations raised %r in history %s (%s)" % (e, rec["hist"], traceback.format_exc().splitlines()[-3].strip()))
            return res, ncalls

    try:
        # ---------------- start
        obj, _ = build()
        ob0 = observe(obj)
        if not world_ok(ob0, rec["world"]):
            return [("M", "build", "the WCS built by the harness does not have the spec's linear stage: %r" % (case,), case)], 1
        if ob0["sign"] != rec["start"]["sign"]:
            res.append(("V", "%s.get_parity_sign:convention" % cls,
                        "%s.get_parity_sign() = %r for a CD determinant of %s%g (documented: negative determinant -> +1, positive -> -1)"
                        % (cls, ob0["sign"], "", rec["start"]["det"] * SCALE * SCALE), case))
        mirror = list(range(h - 1, -1, -1))
        ident = list(range(h))
        # ---------------- flip_parity, twice
        prev, prev_rows = ob0, ident
        for n, snap, wt in ((1, rec["flip"], rec["wflip"]), (2, rec["flip2"], rec["world"])):
            ret = obj.flip_parity()
            ncalls += 1
            if ret is not obj:
                bad("D", "flip_parity", "return", "flip_parity() did not return self")
            ob = observe(obj)
            if ob["sign"] != -prev["sign"]:
                bad("V", "flip_parity", "sign", "parity sign %+d before flip_parity (call %d), %+d after" % (prev["sign"], n, ob["sign"]))
            if ob["shape"][:2] != (h, w):
                bad("V", "flip_parity", "rows", "shape %s after flip_parity of a %dx%d image" % (ob["shape"], h, w))
            elif not rows_ok(ob, snap["rows"]):
                bad("V", "flip_parity", "rows", "after flip_parity call %d the stored rows are %s (original row numbers), expected %s"
                    % (n, stored_rows(ob["ident"]), snap["rows"]))
            pil_view_check("flip_parity", n, ob, snap)
            # world(x, y) before == world(x, h-1-y) after, every pixel, through the full projection
            src = np.array([(h - 1 - y) * w + x for y in range(h) for x in range(w)])
            sep = float(_sep_deg(ob["sky"], prev["sky"][src]).max())
            if not sep <= TOL_DEG:
                k = int(np.argmax(_sep_deg(ob["sky"], prev["sky"][src])))
                bad("V", "flip_parity", "sky", "flip_parity call %d moved pixel (x=%d, y=%d): world before %s, world of (x, h-1-y) after %s (%.3g deg apart)"
                    % (n, k % w, h - 1 - k // w, prev["sky"][src][k].tolist(), ob["sky"][k].tolist(), sep))
            elif not world_ok(ob, wt):
                bad("V", "flip_parity", "sky", "after flip_parity call %d the linear WCS stage differs from the specified world table" % n)
            header_drift("flip_parity", ob, snap)
            prev = ob
        # ---------------- ensure_negative_parity, twice, on a fresh object
        obj, _ = build()
        ret = obj.ensure_negative_parity()
        ncalls += 1
        if ret is not obj:
            bad("D", "ensure_negative_parity", "return", "ensure_negative_parity() did not return self")
        ob1 = observe(obj)
        snap = rec["ensure"]
        if ob1["sign"] != -1:
            bad("V", "ensure_negative_parity", "sign", "parity sign %+d after ensure_negative_parity (was %+d)" % (ob1["sign"], ob0["sign"]))
        if has_data:
            stored = stored_rows(ob1["ident"]) if ob1["ident"].shape == (h, w) else None
            if stored is None or not (rows_ok(ob1, mirror) or rows_ok(ob1, ident)):
                bad("V", "ensure_negative_parity", "sky", "ensure_negative_parity scrambled the data: stored rows %s" % (stored,))
            else:
                sep = sky_follows_rows(ob1, ob0, stored)
                if not sep <= TOL_DEG:
                    bad("V", "ensure_negative_parity", "sky", "ensure_negative_parity moved a pixel on the sky by %.3g deg (stored rows %s, sign %+d -> %+d)"
                        % (sep, stored, ob0["sign"], ob1["sign"]))
                elif stored != snap["rows"]:
                    bad("V", "ensure_negative_parity", "sign", "ensure_negative_parity left rows %s for starting sign %+d, specified %s" % (stored, ob0["sign"], snap["rows"]))
        else:
            direct = float(_sep_deg(ob1["sky"], ob0["sky"]).max())
            src = np.array([(h - 1 - y) * w + x for y in range(h) for x in range(w)])
            mirrored = float(_sep_deg(ob1["sky"], ob0["sky"][src]).max())
            want_flip = snap["sign"] != rec["start"]["sign"]
            if not ((mirrored if want_flip else direct) <= TOL_DEG):
                bad("V", "ensure_negative_parity", "sky", "ensure_negative_parity (start sign %+d): pixels moved on the sky (%.3g deg unflipped / %.3g deg mirrored)"
                    % (ob0["sign"], direct, mirrored))
        if has_data:
            pil_view_check("ensure_negative_parity", 1, ob1, snap)
        if not world_ok(ob1, rec["wensure"]):
            bad("D", "ensure_negative_parity", "world", "linear stage after ensure_negative_parity differs from the specified table")
        header_drift("ensure_negative_parity", ob1, snap)
        obj.ensure_negative_parity()
        ncalls += 1
        ob2 = observe(obj)
        same = (ob2["sign"] == ob1["sign"] and np.allclose(ob2["hdr"][0], ob1["hdr"][0], rtol=1e-12, atol=0)
                and np.allclose(ob2["hdr"][1], ob1["hdr"][1], rtol=1e-12, atol=1e-12)
                and float(_sep_deg(ob2["sky"], ob1["sky"]).max()) <= TOL_DEG
                and (not has_data or bool((ob2["ident"] == ob1["ident"]).all())))
        if not same:
            bad("V", "ensure_negative_parity", "idempotent", "a second ensure_negative_parity changed the object again (sign %+d -> %+d, rows %s -> %s)"
                % (ob1["sign"], ob2["sign"], None if not has_data else stored_rows(ob1["ident"]),
                   None if not has_data else stored_rows(ob2["ident"])))
        if rec["ensure2"] != rec["ensure"]:
            return [("M", "spec", "spec's Ensure is not idempotent on %r" % (case,), case)], ncalls
    except Exception as e:  # noqa
        import traceback
        bad("V", "flip_parity", "raises", "parity operations raised %r (%s)" % (e, traceback.format_exc().splitlines()[-3].strip()))
    return res, ncalls


def run(ctx):
    repo.setup(ctx)
    import multiprocessing as mp
    ctx.rule = ("cases = kind x width x height x header(CDELT, PC) x CRPIX1 x CRPIX2 enumerated by TLC from constant sets handed over by "
                "the harness (headers: all 48 non-singular matrices over {-1,0,1} in CD and in PC+CDELT form, exact rotations in both parities with isotropic / "
                "anisotropic / RA-reversed scales, skews, seeded integer matrices; kinds: array-backed Image, ImageDescription, and - on every 4th "
                "header - PIL-backed Image in 4 backings x 5 pre-call histories); every case is replayed: flip, flip, and on a fresh "
                "object ensure, ensure; data read back through asarray() and aspil(). In addition TLC generates every call history of "
                "length 4 (thorough 5) over {flip, ensure} (x touch for PIL-backed) for a thin header set; each is replayed on one real "
                "object and compared after every call; further histories of length 3 with WCS objects that record a grid size (equal / larger / "
                "smaller than the image) and with two Images sharing one buffer (alias, overlapping slices; both judged after every call); "
                "and histories of length 3 / 2 over 2 / 3 holders + the caller around ONE WCS object (which slots share WCS parameters enumerated by "
                "TLC; w, w.copy(), w.deepcopy(), w.sub(), w.celestial in the replay; flip / ensure of one holder, in-place edits; every holder judged "
                "after every call). "
                "distinct = distinct (case, history); every case is non-trivial "
                "(non-singular WCS, >= 1 pixel)")
    if ctx.quick:
        hdrs = headers(ctx.rng, 8, every_pc_form=2)
        widths, heights = [1, 3], [1, 2, 5]
        refx = [3]
        refy = [(2, 0), (-3, 0), (5, 2)]
    else:
        hdrs = headers(ctx.rng, 200)
        widths, heights = [1, 4], [1, 2, 3, 6]
        refx = [3, -5]
        refy = [(2, 0), (1, 1), (-3, 0), (5, 2), (3, 0), (0, 2), (2, 1)]
    # refy (a, b): doubled CRPIX2 = a + b*h : first row; image centre; below the image; above it; row 1.5; the last row; row h/2+1
    # PIL-backed objects (with the Touch action) on every 4th header: the backing does not interact with the matrix entries
    # All TLC runs are independent of each other: they are started together (three at a time) and collected in a fixed order.
    jobs_tlc = []          # (tag, module text, MaxHist, expected number of records, what)

    def count_cases(kinds, ws, hs, hd, rx, ry, recy=1, peers=1):
        return len(kinds) * len(ws) * len(hd) * len(rx) * sum(len({a + b * h for a, b in ry}) for h in hs) * recy * peers

    for kinds, hd in ((["image", "desc"], hdrs), (["pil"], hdrs[::4])):
        jobs_tlc.append(("R", mc_module(kinds, widths, heights, hd, refx, refy), 0, count_cases(kinds, widths, heights, hd, refx, refy), "cases"))
    # ---- call histories: TLC generates every sequence of MAXHIST calls over {flip, ensure} (x touch for PIL-backed objects);
    # each is replayed on ONE real object and compared with the spec's state after every call
    hh = history_headers(hdrs)
    MAXHIST = 4 if ctx.quick else 5
    for kinds, hd, ws, hs in ((["image", "desc"], hh, widths[-1:], heights[-2:]), (["pil"], hh[::3], widths[-1:], heights[-1:])):
        per_case = (3 if kinds == ["pil"] else 2) ** MAXHIST
        jobs_tlc.append(("H", mc_module(kinds, ws, hs, hd, refx[:1], refy[:2], MAXHIST), MAXHIST,
                         count_cases(kinds, ws, hs, hd, refx[:1], refy[:2]) * per_case, "call histories"))
    # ---- WCS objects that record a pixel-grid size (equal to / larger / smaller than the image), and two Images over one buffer
    H2 = 3
    rec3 = [(0, 1), (3, 1), (-1, 1)]                    # recorded NAXIS2 = h, h + 3, h - 1
    ry1 = refy[:1] if ctx.quick else refy[:2]
    hshare = hh[::3] if ctx.quick else hh[::2]
    extra_runs = [(["image", "desc"], hh[::2], widths[-1:], heights[-2:], ry1, rec3, ["none"], 2),
                  (["pil"], hh[::6], widths[-1:], heights[-1:], ry1, rec3, ["none"], 3),
                  (["image"], hshare, widths[-1:], heights[-1:], refy[:1], [(0, 0)], ["alias", "tail", "head"], 4),
                  # the WCS object edited in place between calls (2 calls + 3 edits = 5 actions)
                  (["image", "desc"], hshare[::2] if ctx.quick else hshare, widths[-1:], heights[-1:], refy[:1], [(0, 0)], ["none"], 5),
                  (["pil"], hh[5:6] if ctx.quick else hh[::6], widths[-1:], heights[-1:], refy[:1], [(0, 0)], ["none"], 6)]
    for kinds, hd, ws, hs, ry, recy, peers, nact in extra_runs:
        edits = sorted(EDITS) if nact >= 5 else []
        jobs_tlc.append(("H", mc_module(kinds, ws, hs, hd, refx[:1], ry, H2, recy, peers, edits), H2,
                         count_cases(kinds, ws, hs, hd, refx[:1], ry, len(recy), len(peers)) * nact ** H2, "call histories"))
    # ---- ONE WCS object held by several owners (spec/ParityHolders.tla): holders x which of them (and the caller) share WCS
    # parameters x every call history over {flip(i), ensure(i)} (x in-place edits through a slot's WCS object)
    share2 = [(1, 1, 1), (1, 1, 2), (1, 2, 2)]                                 # (caller, holder 1, holder 2) -> WCS cell
    share3 = [(1, 1, 1, 1), (1, 1, 1, 2), (1, 2, 2, 2)]
    three = [("image", "image", "image"), ("image", "desc", "pil")]           # three colour planes; an image, its description, a bitmap
    hd_hold = [hh[2], hh[5]]                                                   # PC+CDELT positive parity; rotated CD negative parity
    if ctx.quick:
        # (configs, headers, history length, edits, slots through whose WCS object the client edits)
        holder_runs = [([(k, sh) for k in [("image", "desc"), ("pil", "image")] for sh in share2], hd_hold, 3, ["cdsign"], [0]),
                       ([(k, sh) for k in three for sh in share3], hd_hold, 2, [], [])]
    else:
        share2 += [(1, 2, 1), (1, 2, 3)]
        share3 += [(1, 1, 2, 2), (1, 2, 3, 3)]
        holder_runs = [([(k, sh) for k in [("image", "desc"), ("pil", "image")] for sh in share2], hd_hold, 4, ["cdsign"], [0]),
                       ([(k, sh) for k in [("desc", "desc"), ("image", "image")] for sh in share2[:3]], hd_hold, 3, sorted(EDITS), [1]),
                       ([(k, sh) for k in three for sh in share3], hd_hold, 3, ["rowswap"], [2])]
    for configs, hd, mh, edits, via in holder_runs:
        a = (configs, widths[-1:], heights[-1:], hd, refx[:1], refy[:1], mh, edits, via)
        jobs_tlc.append(("S", mc_holders(*a), mh, count_holder_histories(*a), "shared-WCS call histories"))
    from concurrent.futures import ThreadPoolExecutor

    def run_tlc(job):
        tag, text, mh, n_expected, what = job
        if tag == "S":
            r = ctx.tlc("MCParityHolders", extra={"MCParityHolders.tla": text}, cfg_text=CFG_HOLDERS % mh, workers=3, timeout=3000)
        else:
            r = ctx.tlc("MCParity", extra={"MCParity.tla": text}, cfg_text=CFG % mh, workers=3, timeout=3000)
        got = r.json_lines(tag)
        if len(got) != n_expected:
            ctx.machinery("TLC emitted %d %s, expected %d" % (len(got), what, n_expected))
        return tag, got
    with ThreadPoolExecutor(max_workers=3) as tp:
        outs = list(tp.map(run_tlc, jobs_tlc))
    recs = [x for tag, got in outs if tag == "R" for x in got]
    hist_recs = [x for tag, got in outs if tag == "H" for x in got]
    hist_recs.sort(key=lambda q: (q["orig"]["kind"], q["orig"]["w"], q["orig"]["h"], q["orig"]["cdelt"], q["orig"]["pc"], q["orig"]["p"], q["orig"]["nax"], q["orig"]["peer"], q["hist"]))
    ctx.note("call_histories", len(hist_recs))
    hold_recs = [x for tag, got in outs if tag == "S" for x in got]
    hold_recs.sort(key=lambda q: (q["orig"]["kinds"], q["orig"]["share"], q["orig"]["w"], q["orig"]["h"], q["orig"]["cdelt"], q["orig"]["pc"], q["orig"]["p"],
                                  [(e["op"], e["on"]) for e in q["hist"]]))
    ctx.note("shared_wcs_call_histories", len(hold_recs))
    recs.sort(key=lambda q: (q["orig"]["kind"], q["orig"]["w"], q["orig"]["h"], q["orig"]["cdelt"], q["orig"]["pc"], q["orig"]["p"]))
    # png files for the ImageLoader-backed objects (one per size; written before the pool starts)
    import numpy as np
    from PIL import Image as PilImage
    bdir = ctx.mkdtemp("bitmaps")
    for w in widths:
        for h in heights:
            b = np.arange(h * w).reshape(h, w)
            arr = np.stack([b % 251, b // 251, np.full_like(b, 7)], axis=2).astype(np.uint8)
            PilImage.fromarray(arr).save(os.path.join(bdir, "bitmap_%dx%d.png" % (w, h)))
    jobs = [(i, rec, bdir) for i, rec in enumerate(recs)] + [(i, rec, bdir) for i, rec in enumerate(hist_recs)] + [(i, rec, bdir) for i, rec in enumerate(hold_recs)]
    with mp.Pool(8) as pool:
        results = pool.map(replay_case, jobs, chunksize=32)
    combos = set()
    for i, rec in enumerate(recs):
        if rec["orig"]["kind"] == "pil" and rec["orig"]["h"] > 1:
            combos.add((BACKINGS[i % len(BACKINGS)], TOUCHES[(i // len(BACKINGS)) % len(TOUCHES)], rec["start"]["sign"]))
    ctx.note("pil_backing_x_pretouch_x_startsign_combinations_with_h_gt_1", len(combos))
    if len(combos) != len(BACKINGS) * len(TOUCHES) * 2:
        ctx.machinery("only %d of %d (backing, pre-touch, starting sign) combinations were exercised" % (len(combos), len(BACKINGS) * len(TOUCHES) * 2))
    for (res, ncalls), rec in zip(results, recs + hist_recs + hold_recs):
        ctx.count(ncalls)
        ctx.trace_ok()
        o = rec["orig"]
        if "kinds" in o:
            ctx.distinct((tuple(o["kinds"]), tuple(o["share"]), o["w"], o["h"], tuple(o["cdelt"]), tuple(o["pc"]), tuple(o["p"]), tuple((e["op"], e["on"]) for e in rec["hist"])))
        else:
            ctx.distinct((o["kind"], o["w"], o["h"], tuple(o["cdelt"]), tuple(o["pc"]), tuple(o["p"]), o.get("nax", 0), o.get("peer", "none"), tuple(rec.get("hist", ()))))
        for sev, key, msg, case in res:
            if sev == "V":
                ctx.violation("C16:" + key, "%s [%s %dx%d, CD=%s, CRPIX=%s, CRVAL=%s, LONPOLE=%s, LATPOLE=%s]" % (msg, case["kind"], case["height"], case["width"], case["CD"], case["CRPIX"], case["CRVAL"], case["LONPOLE"], case["LATPOLE"]),
                              {"case": case})
            elif sev == "D":
                ctx.drift("%s %s (case %s)" % (key, msg, case))
            else:
                ctx.machinery("%s: %s" % (key, msg))
    for rec in recs[:: max(1, len(recs) // 4)][:4]:
        ctx.sample({"case": rec["orig"], "start": rec["start"], "predicted_after_flip": rec["flip"], "predicted_after_ensure": rec["ensure"],
                    "world_first_row_before": rec["world"][0], "world_last_row_after_flip": rec["wflip"][-1]})
    for rec in hist_recs[:: max(1, len(hist_recs) // 2)][:2]:
        ctx.sample({"case": rec["orig"], "calls": rec["hist"], "specified_sign_after_each_call": [t["snap"]["sign"] for t in rec["trace"]],
                    "specified_rows_after_each_call": [t["snap"]["rows"] for t in rec["trace"]]}, force=True)
    for rec in hold_recs[len(hold_recs) // 3:: max(1, len(hold_recs))][:1]:
        ctx.sample({"case": rec["orig"], "calls": rec["hist"], "specified_sign_of_every_slot_after_each_call": [[q["sign"] for q in t["snaps"]] for t in rec["trace"]],
                    "specified_rows_of_every_slot_after_each_call": [[q["rows"] for q in t["snaps"]] for t in rec["trace"]]}, force=True)
    ctx.exhaustive = False
    ctx.note("cases", len(recs))
    ctx.note("headers", len(hdrs))
    ctx.assume("linear celestial WCS: RA---TAN / DEC--TAN with a non-singular CD (or PC+CDELT) matrix, no distortion terms; a singular matrix "
               "has no parity and is outside the property's quantifier")
    ctx.assume("the WCS object carries the primary coordinate description: with a FITS alternate-axis key (WCS(header, key='A')) get_parity_sign / "
               "flip_parity / ensure_negative_parity raise KeyError (to_header() emits suffixed keywords) before anything is written - a loud refusal, "
               "no sentence of the property is observable on it")
    ctx.assume("WCS.copy() shares the Wcsprm of the original, deepcopy() / sub() / .celestial do not (astropy; checked on every replayed history)")
    ctx.assume("astropy's projection (wcs_pix2world, p2s) is trusted; equal intermediate world coordinates imply equal sky positions")
    ctx.assume("matrix entries are integers times a pixel scale of 1e-2, 1e-3, 1e-5, 1e-7 or 1e-9 deg (rotations are the exact Pythagorean ones); "
               "sky positions compared to 1e-4 pixel (at most 1e-9 deg, at least 2e-12 deg = float noise of a coordinate near 360 deg)")
