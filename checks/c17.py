"""C17 - the WTML and the returned data-set description match the files on disk.

Spec: spec/Wtml.tla (names as character sequences: Path, Template, Expand, FileType, Deepest; theorems ExpandIsPath,
PathInjective, RoundTrip, FileTypeIsExtension; Judge = the property's sentences over an observed output directory),
spec/WtmlWalk.tla (the theorems as invariants of a walk over every position to a depth bound, every scheme and format)
and spec/WtmlHistory.tla (the tile_fits history machine: fresh / reuse / override on ONE output directory, invariants
ReturnedAgrees, CompletedIsIndexed, TemplateAddressesFiles, LevelsIsDeepest, FileTypeIsExt, JudgeAgrees), spec/WtmlFormats.tla
(the library-route machine: a Builder over a PyramidIO whose tile format is chosen independently of the format the input
carries itself - base layer, cascade level by level, index - with the same sentences as invariants of the indexed state).

Binding
 (a) spec -> code: TLC checks the naming theorems for every position to a depth bound plus seeded deep positions and
     expands the Url the real Builder records (both schemes, all formats) over those positions; the real
     PyramidIO.tile_path must give exactly those names, all distinct.
 (b) code -> spec: the real workflows (tile-study, tile-allsky, cascade, tile-multi-tan, tile_fits TAN/TOAST with one
     and with several inputs - multi-TAN on one grid, multi-WCS, and TOAST collections of images of different pixel
     scales in every input order -, `toasty view --tile-only --tiling-method toast`, pipeline process_todos, and the
     library route Builder(PyramidIO(scheme)) under BOTH naming schemes; image sizes go down to a single tile and a single
     pixel (1x1, 200x150, 256x256, 257x100) in every one of the study routes)
     are run on small synthetic inputs with PyramidIO.write_image / Image.save observed (which position was saved
     under which name); the observation (Url, FileType, TileLevels of index_rel.wtml, the tile files found, the
     saves) is handed to TLC, which evaluates the property's sentences (Judge).
 (b') spec -> code: the format machine enumerates every (naming scheme, pyramid format in png/jpg/npy/fits, input kind - Pillow
     bitmap, float array carrying npy, FITS file; RGB / float sampler -, entry point Builder.tile_base_as_study /
     prepare_+execute_study_tiling / study.tile_study_image / Builder.toast_base, study size or TOAST depth, and for the all-sky
     route an explicit format= request); TLC emits for each the files, Url, FileType and TileLevels it leaves; the cases
     (thorough: all; quick: every kind x format x scheme once, entry points and sizes in rotation) are replayed through the
     real API, the observed directory goes through the judge of (b) and is compared with the machine's directory.
 (c) spec -> code: the history machine is explored to 4 calls; its histories (thorough: every 4-call history; quick: every
     3-call history, the 4-call family fresh(X), reuse, override(Y # X), reuse, and a seeded sample of the other 4-call
     ones) are replayed with real tile_fits calls on one real directory, all calls of a history in one process, the
     directory named in turn by its absolute path, a relative path and a differently spelled relative path (and, for the
     fresh ; override(other) ; reuse histories, also through a symbolic link - an override refused loudly ends the history -
     and by a name containing $VAR, ${VAR}, %s as plain characters with the variable pointing elsewhere).  A second
     exploration (3 calls) lets one call of a history be INTERRUPTED after its tiles and before its index (Ctrl-C raised by
     the hook between the last tile and the index, or when the cascade starts; for a single TAN image also the natural
     route, a keyword the cascade rejects), leaving the PARTIAL directory, and lets calls come through `toasty view`;
     where no index exists nothing is claimed, whatever index exists after any call is judged.  A third exploration starts
     with the directory EXISTING AND EMPTY (the caller made it): the first call is then the fresh call of the history and has to
     leave the pyramid and its index.  After every call the returned Builder's imgset/place must equal the parsed index_rel.wtml
     (sentence 2) and the directory must be the one the machine predicts; every directory state also goes through (b).
"""
import enum
import itertools
import json
import numbers
import os
import re
import shutil
import traceback

from lib import repo, tla

META_FILES = ("index_rel.wtml", "index.wtml", "thumb.jpg")
FITS_EXT = "fits"

# imgset / place fields whose disagreement between the returned description and the WTML is a property violation;
# any other trait that differs is reported as drift
CORE_IMGSET = ("tile_levels", "center_x", "center_y", "projection", "base_degrees_per_tile", "offset_x", "offset_y",
               "rotation_deg", "width_factor", "file_type", "url", "data_min", "data_max", "pixel_cut_low",
               "pixel_cut_high", "bottoms_up", "data_set_type", "base_tile_level", "name")
CORE_PLACE = ("ra_hr", "dec_deg", "zoom_level", "rotation_deg", "data_set_type", "name")


# ------------------------------------------------------------------------------------------------
# names <-> TLA+ character sequences
# ------------------------------------------------------------------------------------------------

def lex(url):
    """Template string -> tokens: the placeholders {1} {2} {3} are single tokens, everything else single characters."""
    out, i = [], 0
    while i < len(url):
        if url[i] == "{" and url[i + 1:i + 3] in ("1}", "2}", "3}"):
            out.append(url[i:i + 3])
            i += 3
        else:
            out.append(url[i])
            i += 1
    return out


def chars(s):
    if '"' in s or "\\" in s:
        raise ValueError("name %r cannot be written as a TLA+ literal" % (s,))
    return list(s)


def join(cs):
    return "".join(cs)


# ------------------------------------------------------------------------------------------------
# synthetic inputs (main process; no toasty involved)
# ------------------------------------------------------------------------------------------------

def _rgb(w, h):
    import numpy as np
    yy, xx = np.mgrid[0:h, 0:w]
    return np.stack([xx * 255 // max(w - 1, 1), yy * 255 // max(h - 1, 1), ((xx // 16 + yy // 16) % 2) * 200 + 30],
                    axis=-1).astype(np.uint8)


def _mkimg(path, w, h):
    from PIL import Image as PI
    PI.fromarray(_rgb(w, h)).save(path)


def _mkfits(path, w, h, scale, ra=10.0, dec=20.0, crpix=None):
    import numpy as np
    from astropy.io import fits
    from astropy.wcs import WCS
    wcs = WCS(naxis=2)
    wcs.wcs.ctype = ["RA---TAN", "DEC--TAN"]
    wcs.wcs.crval = [ra, dec]
    wcs.wcs.crpix = list(crpix) if crpix else [w / 2 + 0.5, h / 2 + 0.5]
    wcs.wcs.cdelt = [-scale, scale]
    data = (np.arange(w * h, dtype=np.float32).reshape(h, w) % 977) + 1.0
    fits.PrimaryHDU(data, header=wcs.to_header()).writeto(path, overwrite=True)


PIPELINE_CONFIG = """source_type: _c17_local_astropix
publish_url_prefix: //localhost/
folder_name: C17Local
folder_thumbnail_url: //localhost/thumb.jpg

astropix:
  json_query_url: https://unused.example.com/
"""

PIPELINE_ITEM = {
    "creator": "Fake Observatory", "title": "Test", "description": "A synthetic image.", "object_name": ["NGC 253"],
    "resource_url": "http://example.com/image.jpg", "reference_url": "https://example.com/ref",
    "image_id": "test1", "image_credit": "none", "wcs_coordinate_frame": "ICRS", "wcs_equinox": "J2000",
    "wcs_reference_value": ["187.70593075", "12.39112325"], "wcs_reference_dimension": ["600.0", "400.0"],
    "wcs_reference_pixel": ["300.0", "200.0"], "wcs_scale": ["-5.9e-5", "5.9e-5"], "wcs_rotation": "0",
    "wcs_projection": "TAN", "wcs_quality": "Full", "wcs_notes": "FAKE", "publisher": "FAKE", "publisher_id": "fake",
    "resource_id": "test1", "last_updated": "2019-04-08T14:00:38.128143", "metadata_version": "1.1",
    "image_width": "600", "image_height": "400", "image_max_boundry": "600", "astropix_id": 1,
}


# (b') study sizes of the format workflows: one tile; 2x2 and 4x4 tile grids partly populated; thorough adds the largest
# one-tile image, a sparse 2x2 and a sparse 8x8 grid.  Input kinds: what the input carries itself is MEASURED on the real
# object (Own), which formats can hold its pixels is a fact about the pixels (a float image is not a PNG / JPEG).
FORMAT_SIZES = {True: [(200, 150), (300, 200), (520, 300)],
                False: [(200, 150), (256, 256), (257, 100), (300, 200), (520, 300), (1030, 200)]}
STUDY_KINDS = {"bitmap": "all", "float-npy": ("npy", "fits"), "fits-file": ("npy", "fits")}
TOAST_KINDS = {"rgb-sampler": "all", "float-sampler": ("npy", "fits")}


def make_inputs(d, quick):
    inp = {}
    for name, (w, h, ext) in {"study_png": (700, 500, "png"), "study_jpg": (520, 300, "jpg"), "sky": (64, 32, "png"),
                              "pipe": (600, 400, "jpg"), "study_wide": (1030, 200, "png"),
                              # images that fit in ONE tile (a pyramid of level 0 only), down to a single pixel, the largest
                              # such image, and the smallest one that does not fit
                              "px1": (1, 1, "png"), "small": (200, 150, "jpg"), "one_tile": (256, 256, "png"),
                              "two_tiles": (257, 100, "png"), "pipe_small": (200, 150, "jpg"), "pipe_one_tile": (256, 256, "jpg"),
                              }.items():
        inp[name] = os.path.join(d, "%s.%s" % (name, ext))
        _mkimg(inp[name], w, h)
    # name: (width, height, degrees per pixel, ra, dec)
    for name, (w, h, sc, ra, dec) in {"A": (600, 600, 0.001, 10.0, 20.0),        # TAN, 3 layers (0..2), all tiles
                                      "B": (300, 280, 0.001, 10.0, 20.0),        # TAN, 2 layers
                                      "C": (240, 200, 0.125, 100.0, -35.0),      # > 20 degrees: auto-detected TOAST
                                      "D": (280, 1100, 0.001, 200.0, 60.0),      # TAN, tall: sparse columns, 4 layers
                                      "E1": (300, 260, 0.001, 10.0, 20.0), "E2": (300, 260, 0.001, 10.25, 20.05),
                                      # three tiny images whose pixel scales map to the natural TOAST levels 3, 2 and 1
                                      # (guess_base_layer_level: 21.095'/2^(n-1) per pixel); collections of them must be
                                      # sampled at the common (finest) level whatever the input order
                                      # a tiny image of 3"/pixel: forced TOAST gives a sparse pyramid 10 levels deep (level
                                      # names of two digits); S: a FITS image that fits in one TAN tile
                                      "P": (8, 8, 3.0 / 3600, 80.0, -20.0), "S": (8, 8, 0.001, 10.0, 20.0),
                                      "F": (40, 32, 0.1, 50.0, 10.0), "G": (36, 30, 0.25, 53.0, 12.0), "H": (30, 24, 0.5, 56.0, 8.0),
                                      }.items():
        inp[name] = os.path.join(d, "%s.fits" % name)
        _mkfits(inp[name], w, h, sc, ra, dec)
    # the library route with the pyramid's format chosen independently of the input's own: one bitmap and one FITS file per
    # study size (the float arrays are made where they are used)
    for w, h in FORMAT_SIZES[quick]:
        inp["fm_bitmap_%dx%d" % (w, h)] = os.path.join(d, "fm_%dx%d.png" % (w, h))
        _mkimg(inp["fm_bitmap_%dx%d" % (w, h)], w, h)
        inp["fm_fits-file_%dx%d" % (w, h)] = os.path.join(d, "fm_%dx%d.fits" % (w, h))
        _mkfits(inp["fm_fits-file_%dx%d" % (w, h)], w, h, 0.001)
    # two images of different sizes on ONE pixel grid (same CRVAL/CDELT, different CRPIX): the multi-TAN path
    for name, (w, h, crpix) in {"N1": (300, 260, (150.5, 130.5)), "N2": (520, 300, (-129.5, 170.5))}.items():
        inp[name] = os.path.join(d, "%s.fits" % name)
        _mkfits(inp[name], w, h, 0.001, 10.0, 20.0, crpix=crpix)
    return inp


# ------------------------------------------------------------------------------------------------
# observation of the real code (pool workers)
# ------------------------------------------------------------------------------------------------

_HOOK = {"log": None, "arm": None, "maxn": -1}


class _Interrupted(KeyboardInterrupt):
    """The user's Ctrl-C (a KeyboardInterrupt, so that no `except Exception` in the code under test swallows it)."""


def _install_hooks():
    """Record, for every PyramidIO.write_image(pos, ...), the name the image was actually saved under (Image.save)."""
    if _HOOK["log"] is not None:
        return _HOOK["log"]
    from toasty import pyramid, image
    log, cur = [], {"on": False, "path": None}
    orig_save = image.Image.save
    orig_write = pyramid.PyramidIO.write_image

    def save(self, path_or_stream, *a, **k):
        if cur["on"] and isinstance(path_or_stream, (str, os.PathLike)):
            cur["path"] = os.fspath(path_or_stream)
        return orig_save(self, path_or_stream, *a, **k)

    def write_image(self, pos, img, *a, **k):
        if _HOOK["arm"] == "base":              # interrupt when the cascade starts: the first tile above the base layer
            if pos[0] < _HOOK["maxn"]:
                _HOOK["arm"] = None
                raise _Interrupted("interrupted at the start of the cascade")
            _HOOK["maxn"] = max(_HOOK["maxn"], pos[0])
        cur["on"], cur["path"] = True, None
        try:
            return orig_write(self, pos, img, *a, **k)
        finally:
            log.append((tuple(int(v) for v in pos), cur["path"]))
            cur["on"] = False

    from toasty import builder
    orig_index = builder.Builder.write_index_rel_wtml

    def write_index_rel_wtml(self, *a, **k):
        if _HOOK["arm"] is not None:            # interrupt between the last tile and the index
            _HOOK["arm"] = None
            raise _Interrupted("interrupted before the index was written")
        return orig_index(self, *a, **k)

    image.Image.save = save
    pyramid.PyramidIO.write_image = write_image
    builder.Builder.write_index_rel_wtml = write_index_rel_wtml
    _HOOK["log"] = log
    return log


def _scalar(v):
    import numpy as np
    if isinstance(v, enum.Enum):
        return v.value
    if isinstance(v, (bool, np.bool_)):
        return bool(v)
    if isinstance(v, numbers.Integral):
        return int(v)
    if isinstance(v, numbers.Real):
        return float(v)
    if isinstance(v, str):
        return v
    return None


def _traits(obj):
    out = {}
    for k in sorted(obj.trait_names()):
        v = _scalar(getattr(obj, k))
        if v is not None:
            out[k] = v
    return out


def _describe_builder(bld):
    d = {"imgset": _traits(bld.imgset), "place": _traits(bld.place),
         "linked": bld.place.foreground_image_set is bld.imgset}
    return d


def _describe_wtml(path):
    """index_rel.wtml through wwt_data_formats (the same reader a downstream tool uses)."""
    from wwt_data_formats.folder import Folder
    from wwt_data_formats.place import Place
    from wwt_data_formats.imageset import ImageSet
    fld = Folder.from_file(path)
    for child in fld.children:
        if isinstance(child, Place):
            iset = child.foreground_image_set or child.image_set or child.background_image_set
            return {"imgset": _traits(iset) if iset is not None else None, "place": _traits(child)}
        if isinstance(child, ImageSet):
            return {"imgset": _traits(child), "place": None}
    return {"imgset": None, "place": None}


def _wtml_attrs(path):
    """Url / FileType / TileLevels of every ImageSet element, as plain XML."""
    import xml.etree.ElementTree as ET
    out = []
    for el in ET.parse(path).getroot().iter("ImageSet"):
        out.append({"url": el.get("Url"), "file_type": el.get("FileType"), "tile_levels": el.get("TileLevels"),
                    "projection": el.get("Projection")})
    return out


def _observe(outdir, log):
    files = sorted(os.path.relpath(os.path.join(r, f), outdir) for r, _d, fs in os.walk(outdir) for f in fs)
    tiles = [f for f in files if f not in META_FILES]
    last = {}
    for pos, path in log:
        last[pos] = path
    ab = os.path.abspath(outdir)
    writes = []
    for pos, path in sorted(last.items()):
        if path is None:
            continue
        pa = os.path.abspath(path)
        if pa.startswith(ab + os.sep) and os.path.exists(pa):
            writes.append((pos, os.path.relpath(pa, ab)))
    wpath = os.path.join(outdir, "index_rel.wtml")
    obs = {"files": tiles, "writes": writes, "nsaves": sum(1 for _p, pa in log if pa is not None), "nwrite_calls": len(log),
           "wtml": _wtml_attrs(wpath) if os.path.exists(wpath) else None}
    return obs


def _pipeline_step(workdir, image_path):
    from toasty import cli, pipeline
    from toasty.pipeline import astropix

    from PIL import Image as PI
    with PI.open(image_path) as im:
        iw, ih = im.size
    item = dict(PIPELINE_ITEM)      # the astrometry is declared for the image's own dimensions (square pixels)
    item.update({"wcs_reference_dimension": ["%d.0" % iw, "%d.0" % ih], "wcs_reference_pixel": ["%.1f" % (iw / 2), "%.1f" % (ih / 2)],
                 "image_width": str(iw), "image_height": str(ih), "image_max_boundry": str(max(iw, ih))})

    class Source(astropix.AstroPixImageSource):
        def query_candidates(self):
            yield astropix.AstroPixCandidateInput(dict(item))

        def fetch_candidate(self, unique_id, cand_data_stream, cachedir):
            shutil.copy(image_path, os.path.join(cachedir, "image.jpg"))

    pipeline.IMAGE_SOURCE_CLASS_LOADERS["_c17_local_astropix"] = lambda: Source
    rp = os.path.join(workdir, "repo")
    wk = os.path.join(workdir, "work")
    os.makedirs(rp)
    with open(os.path.join(rp, "toasty-pipeline-config.yaml"), "w") as f:
        f.write(PIPELINE_CONFIG)
    cli.entrypoint(["pipeline", "init", "--local", rp, wk])
    cli.entrypoint(["pipeline", "refresh", "--workdir", wk])
    cli.entrypoint(["pipeline", "fetch", "--workdir", wk, "fake_test1"])
    cli.entrypoint(["pipeline", "process-todos", "--workdir", wk])
    return os.path.join(wk, "processed", "fake_test1")


def _builder_study(outdir, arg):
    """The library route of the study workflows: a Builder over a PyramidIO of the given naming scheme."""
    from toasty.builder import Builder
    from toasty.image import ImageLoader
    from toasty.pyramid import PyramidIO
    img = ImageLoader().load_path(arg["image"])
    bld = Builder(PyramidIO(outdir, scheme=arg["scheme"], default_format=img.default_format))
    if arg["mode"] == "base":                    # what the pipeline's image sources do
        bld.tile_base_as_study(img)
        bld.default_tiled_study_astrometry()
    else:                                        # what tile-study does
        tiling = bld.prepare_study_tiling(img)
        bld.default_tiled_study_astrometry()
        bld.execute_study_tiling(img, tiling)
    bld.cascade(parallel=1)
    bld.set_name("study")
    bld.write_index_rel_wtml()


def _format_sampler(kind):
    import numpy as np
    if kind == "rgb-sampler":
        def sampler(lon, lat):
            v = ((lon + lat) * 40).astype(np.int64) % 256
            return np.stack([v, 255 - v, (v * 3) % 256], axis=-1).astype(np.uint8)
    else:
        def sampler(lon, lat):
            return (lon + 2 * lat).astype(np.float32)
    return sampler


def _format_image(kind, path, w, h):
    import numpy as np
    from toasty.image import Image, ImageLoader
    if kind == "float-npy":
        return Image.from_array(((np.arange(w * h) % 977) + 1.0).reshape(h, w).astype(np.float32), default_format="npy")
    return ImageLoader().load_path(path)


def _own_formats():
    """What each input kind carries itself (Image.default_format), measured on the real objects."""
    import numpy as np
    import tempfile
    from toasty.image import Image
    own = {}
    with tempfile.TemporaryDirectory() as d:
        _mkimg(os.path.join(d, "a.png"), 8, 8)
        _mkfits(os.path.join(d, "a.fits"), 8, 8, 0.001)
        own["bitmap"] = _format_image("bitmap", os.path.join(d, "a.png"), 8, 8).default_format
        own["fits-file"] = _format_image("fits-file", os.path.join(d, "a.fits"), 8, 8).default_format
        own["float-npy"] = _format_image("float-npy", None, 8, 8).default_format
    lon = np.zeros((4, 4))
    for k in TOAST_KINDS:
        own[k] = Image.from_array(_format_sampler(k)(lon, lon)).default_format
    return own


def _builder_formats(outdir, arg):
    """The library route with the tile format of the PyramidIO chosen by the caller, whatever the input carries itself:
    Builder.tile_base_as_study | prepare_ + execute_study_tiling | study.tile_study_image | Builder.toast_base, then
    Builder.cascade and write_index_rel_wtml."""
    from toasty.builder import Builder
    from toasty.pyramid import PyramidIO
    pio = PyramidIO(outdir, scheme=arg["scheme"], default_format=arg["fmt"])
    if arg["route"] == "toast":
        bld = Builder(pio)
        kw = {"format": arg["req"]} if arg["req"] else {}
        bld.toast_base(_format_sampler(arg["kind"]), arg["depth"], parallel=1, **kw)
    else:
        img = _format_image(arg["kind"], arg.get("image"), arg["w"], arg["h"])
        if arg["route"] == "base":
            bld = Builder(pio)
            bld.tile_base_as_study(img)
            bld.default_tiled_study_astrometry()
        elif arg["route"] == "prepare":
            bld = Builder(pio)
            tiling = bld.prepare_study_tiling(img)
            bld.default_tiled_study_astrometry()
            bld.execute_study_tiling(img, tiling)
        else:
            from toasty.study import tile_study_image
            tiling = tile_study_image(img, pio)
            bld = Builder(pio)
            tiling.apply_to_imageset(bld.imgset)
            bld.default_tiled_study_astrometry()
    bld.cascade(parallel=1)
    bld.set_name("formats")
    bld.write_index_rel_wtml()


def _spell(outdir, style):
    """The output directory as the caller names it (the working directory is its parent for the relative styles)."""
    if style == "abs":
        return outdir
    name = os.path.basename(outdir)
    if style == "rel":
        return name
    if style == "symlink":          # a symbolic link to the directory, once the directory exists (a dangling link cannot be
        #                             tiled into); before that, the directory's own name
        if not os.path.isdir(outdir):
            return name
        if not os.path.lexists(os.path.join(os.path.dirname(outdir), "lnk")):
            os.symlink(name, os.path.join(os.path.dirname(outdir), "lnk"))
        return "lnk"
    if style == "literal":          # the name contains $VAR, ${VAR} and %s, which are just characters of a directory name;
        #                             the working directory is two levels up and the variable points somewhere else
        return os.path.join(os.path.basename(os.path.dirname(outdir)), name)
    os.makedirs(os.path.join(os.path.dirname(outdir), "x"), exist_ok=True)
    return os.path.join("x", os.pardir, name)          # x/../out


def run_workflow(wf):
    """wf = {name, outdir, steps}; a step is ("cli", argv) | ("tile_fits", {fits, method, override}) |
    ("pipeline", {image}).  Returns wf plus 'obs': one observation per step (or 'error')."""
    import contextlib
    import io
    repo.setup()
    os.environ["SLURM_NPROCS"] = "1"      # toasty.par_util honours it: steps that do not take a parallelism argument
    #                                       (Builder.cascade in the TAN auto-tiler, the pipeline) run serially, in
    #                                       this process, where the hook can see them
    log = _install_hooks()
    del log[:]
    out = dict(wf)
    out["obs"] = []
    sink = io.StringIO()
    outdir = wf["outdir"]
    cwd = os.getcwd()
    try:
        with contextlib.redirect_stdout(sink), contextlib.redirect_stderr(sink):
            if wf.get("path_style", "abs") == "literal":
                top = os.path.dirname(os.path.dirname(outdir))
                os.makedirs(os.path.join(top, "elsewhere"), exist_ok=True)
                os.environ["C17VAR"] = os.path.join(top, "elsewhere")
                os.chdir(top)
            elif wf.get("path_style", "abs") != "abs":
                os.chdir(os.path.dirname(outdir))       # the directory is named relative to the working directory
            import warnings
            from toasty import cli, tile_fits, TilingMethod
            if wf.get("start_empty"):       # the caller made the output directory beforehand (tempfile.mkdtemp())
                os.makedirs(outdir)
            for kind, arg in wf["steps"]:
                extra = {}
                with warnings.catch_warnings():
                    warnings.simplefilter("ignore")
                    if kind == "cli":
                        cli.entrypoint(list(arg))
                    elif kind == "cascade-recorded":     # what the CLI tells the user to run next
                        lv = _wtml_attrs(os.path.join(outdir, "index_rel.wtml"))[0]["tile_levels"]
                        cli.entrypoint(["cascade", "--start", str(int(lv)), "-j", "1", outdir])
                    elif kind == "pipeline":
                        outdir = _pipeline_step(wf["outdir"], arg["image"])
                    elif kind == "builder-study":
                        _builder_study(outdir, arg)
                    elif kind == "builder-formats":
                        try:
                            _builder_formats(outdir, arg)
                        except Exception as e:      # a loud failure: whether an index exists all the same is observed below
                            extra["raised"] = repr(e)[:300]
                    elif kind == "tile_fits":
                        extra["existed"] = os.path.isdir(outdir)
                        extra["was_empty"] = extra["existed"] and not os.listdir(outdir)
                        given = _spell(outdir, wf.get("path_style", "abs"))
                        how = arg.get("interrupt")
                        kw = {}
                        if how == "kw":         # a keyword the cascade rejects after the base layer was written
                            kw["order"] = "bilinear"
                        elif how:
                            _HOOK["arm"], _HOOK["maxn"] = how, -1
                        try:
                            odir, bld = tile_fits(arg["fits"], out_dir=given, parallel=1, override=arg["override"],
                                                  tiling_method=getattr(TilingMethod, arg["method"]), **kw)
                        except OSError as e:
                            # shutil.rmtree refuses a symbolic link: the override is refused loudly and the directory stays
                            # as it was, which is consistent; the history ends here (the machine does not model a refusal)
                            if not (wf.get("path_style") == "symlink" and arg["override"] and os.path.islink(given)):
                                raise
                            extra["refused"] = repr(e)
                        except (_Interrupted, TypeError) as e:
                            if not how or (isinstance(e, TypeError) and how != "kw"):
                                raise
                            extra["raised"] = repr(e)
                        else:
                            extra["out_dir_ok"] = os.path.abspath(odir) == os.path.abspath(outdir)
                            extra["ret"] = _describe_builder(bld)
                            wp = os.path.join(outdir, "index_rel.wtml")
                            extra["disk"] = _describe_wtml(wp) if os.path.exists(wp) else None
                        finally:
                            _HOOK["arm"] = None
                    elif kind == "view":        # `toasty view --tile-only`: the output directory is derived from the first
                        #                         input's name; the names it can derive are links to this history's directory
                        extra["existed"] = os.path.isdir(outdir)
                        extra["was_empty"] = extra["existed"] and not os.listdir(outdir)
                        d = os.path.dirname(outdir)
                        fits = arg["fits"] if isinstance(arg["fits"], list) else [arg["fits"]]
                        paths = []
                        for n, src in enumerate(fits):
                            paths.append(os.path.join(d, "img%d.fits" % n))
                            shutil.copy(src, paths[-1])
                        for suffix in ("_tiled", "_tiled_TOAST"):
                            if not os.path.lexists(os.path.join(d, "img0" + suffix)):
                                os.symlink(os.path.basename(outdir), os.path.join(d, "img0" + suffix))
                        method = {"AUTO_DETECT": "auto", "TAN": "tan", "TOAST": "toast"}[arg["method"]]
                        cli.entrypoint(["view", "--tile-only", "--tiling-method", method, "-j", "1"] + paths)
                    else:
                        raise ValueError(kind)
                o = _observe(outdir, log)
                o.update(extra)
                out["obs"].append(o)
                if "refused" in extra:
                    break
    except BaseException as e:  # noqa  (SystemExit from cli.die included)
        out["error"] = "%r\n%s" % (e, traceback.format_exc()[-1500:])
    finally:
        os.chdir(cwd)
    return out


# ------------------------------------------------------------------------------------------------
# TLC modules
# ------------------------------------------------------------------------------------------------

def naming_module(combos, depth, deep, exts):
    """combos: list of (scheme, ext, real url tokens, real file_type)."""
    defs = [
        ("Exts", tla.lit(set(tuple(chars(e)) for e in exts))),
        ("Deep", tla.lit(set(deep))),
        "PS == Positions(%d) \\cup Deep" % depth,
        ("Combos", tla.lit([[s, chars(e), toks, chars(ft)] for s, e, toks, ft in combos])),
        "ASSUME NamingTheorems(PS, Exts)",
        "ASSUME \\A e \\in Exts : ~Injective(NoSeparator(e), Positions(4))       \\* the injectivity theorem can fail",
        "PSeq == SetToSeq(PS)",
        "Row(c) == [scheme |-> c[1], ext |-> c[2], ftype |-> FileType(c[2]), url_ftype |-> DotExt(c[3]),",
        "           url_is_template |-> c[3] = Template(c[1], c[2]), inj |-> Injective(c[3], PS),",
        "           rows |-> [k \\in DOMAIN PSeq |-> [p |-> PSeq[k], path |-> Path(c[1], PSeq[k], c[2]), exp |-> Expand(c[3], PSeq[k])]]]",
        "ASSUME JsonSerialize(IOEnv.OUT, [k \\in DOMAIN Combos |-> Row(Combos[k])])",
    ]
    return tla.module("MCWtmlNaming", ["Wtml", "Json", "IOUtils", "SequencesExt"], defs)


def judge_module(cases):
    rows = []
    for c in cases:
        rows.append("[url |-> %s, ftype |-> %s, levels |-> %d, files |-> %s, writes |-> %s]" % (
            tla.lit(lex(c["url"])), tla.lit(chars(c["ftype"])), c["levels"],
            tla.lit(set(tuple(chars(f)) for f in c["files"])),
            tla.lit(set((tuple(p), tuple(chars(f))) for p, f in c["writes"]))))
    defs = ["Obs == <<" + ",\n  ".join(rows) + ">>",
            "ASSUME JsonSerialize(IOEnv.OUT, [k \\in DOMAIN Obs |-> Judge(Obs[k])])"]
    return tla.module("MCWtmlJudge", ["Wtml", "Json", "IOUtils"], defs)


def history_module(pops, ext, emit_from, only_interrupted=False):
    fn = " @@ ".join("(%s :> %s)" % (tla.lit(i), tla.lit(set(tuple(p) for p in ps))) for i, ps in sorted(pops.items()))
    defs = [("MCInputs", tla.lit(set(pops))), ("MCPop", fn), ("MCExt", tla.lit(chars(ext))),
            'Emit == (Len(hist) >= %d%s) => PrintT(<<"H", ToJson(hist)>>)' % (emit_from, " /\\ NFails > 0" if only_interrupted else "")]
    return tla.module("MCWtmlHistory", ["WtmlHistory", "Json"], defs)


def _fn(d):
    return " @@ ".join("(%s :> %s)" % (tla.lit(k), v) for k, v in sorted(d.items()))


def formats_module(formats, own, sizes, depths):
    allf = set(tuple(chars(f)) for f in formats)
    stor = dict(STUDY_KINDS, **TOAST_KINDS)
    defs = [("MCFormats", tla.lit(allf)), ("MCStudyKinds", tla.lit(set(STUDY_KINDS))), ("MCToastKinds", tla.lit(set(TOAST_KINDS))),
            ("MCOwn", _fn({k: tla.lit(chars(own[k])) for k in stor})),
            ("MCStorable", _fn({k: tla.lit(allf if v == "all" else set(tuple(chars(f)) for f in v)) for k, v in stor.items()})),
            ("MCStudySizes", tla.lit(set(sizes))), ("MCToastDepths", tla.lit(set(depths))),
            'Emit == (stage \\in {"indexed", "refused", "raised"}) => PrintT(<<"F", ToJson([cfg |-> cfg, stage |-> stage, '
            'files |-> Names, url |-> wtml.url, ftype |-> wtml.ftype, levels |-> wtml.levels])>>)']
    return tla.module("MCWtmlFormats", ["WtmlFormats", "Json"], defs)


FORMATS_CFG = """SPECIFICATION Spec
CONSTANTS
 Formats <- MCFormats
 StudyKinds <- MCStudyKinds
 ToastKinds <- MCToastKinds
 Own <- MCOwn
 Storable <- MCStorable
 StudySizes <- MCStudySizes
 ToastDepths <- MCToastDepths
 BaseWrites = "%(base)s"
 Recorded = "%(recorded)s"
 Request = "%(request)s"
INVARIANT TemplateAddressesFiles
INVARIANT LevelsIsDeepest
INVARIANT FileTypeIsExt
INVARIANT JudgeAgrees
INVARIANT RefusedOnlyMismatched
INVARIANT TilesValid
INVARIANT Emit
CHECK_DEADLOCK FALSE
"""

WALK_CFG = """SPECIFICATION WSpec
CONSTANTS
 Exts <- MCExts
 MaxDepth = %d
INVARIANT ValidAt
INVARIANT ExpandIsPathAt
INVARIANT RoundTripAt
INVARIANT FileTypeAt
INVARIANT AddressableAt
PROPERTY ChildDiffers
CHECK_DEADLOCK FALSE
"""

HISTORY_CFG = """SPECIFICATION Spec
CONSTANTS
 Inputs <- MCInputs
 Pop <- MCPop
 Scheme = "%(scheme)s"
 Ext <- MCExt
 MaxLen = %(maxlen)d
 FailBudget = %(fails)d
 Views = %(views)s
 ReuseRestores = %(restores)s
 OverrideClears = %(clears)s
 Cache = "%(cache)s"
 Partial = "%(partial)s"
 StartEmpty = %(startempty)s
 EmptyDir = "%(emptydir)s"
INVARIANT ReturnedAgrees
INVARIANT CompletedIsIndexed
INVARIANT TemplateAddressesFiles
INVARIANT LevelsIsDeepest
INVARIANT FileTypeIsExt
INVARIANT JudgeAgrees
INVARIANT Emit
CHECK_DEADLOCK FALSE
"""


# ------------------------------------------------------------------------------------------------
# comparison helpers
# ------------------------------------------------------------------------------------------------

def _same(a, b):
    if isinstance(a, float) or isinstance(b, float):
        try:
            a, b = float(a), float(b)
        except (TypeError, ValueError):
            return False
        if a != a and b != b:
            return True
        return abs(a - b) <= 1e-9 * max(1.0, abs(a), abs(b))
    return a == b


def diff_description(ret, disk):
    """-> (core differences, other differences), each a list of 'what.field: returned x, WTML y'."""
    core, other = [], []
    for part, corekeys in (("imgset", CORE_IMGSET), ("place", CORE_PLACE)):
        d = disk.get(part)
        r = ret.get(part)
        if d is None:
            if part == "imgset":
                core.append("no imageset in the WTML")
            continue
        for k in sorted(set(d) | set(r)):
            if k in d and k in r and _same(r[k], d[k]):
                continue
            msg = "%s.%s: returned %r, WTML %r" % (part, k, r.get(k), d.get(k))
            (core if k in corekeys else other).append(msg)
    if not ret.get("linked", True):
        other.append("returned place.foreground_image_set is not the returned imgset")
    return core, other


def sample_deep(rng, n, lo, hi):
    out = set()
    for lvl in range(lo, hi + 1):
        m = 2 ** lvl - 1
        out.update({(lvl, 0, m), (lvl, m, 0), (lvl, m, m)})
    while len(out) < n:
        lvl = rng.randint(lo, hi)
        out.add((lvl, rng.randrange(2 ** lvl), rng.randrange(2 ** lvl)))
    return sorted(out)


def parse_positions_fallback(files):
    """Populated positions read off L/Y/YX names (used only as an INPUT of the history machine when the save hook
    saw nothing)."""
    out = []
    for f in files:
        m = re.match(r"^(\d+)/(\d+)/(\d+)_(\d+)\.[a-z]+$", f)
        if m:
            out.append((int(m.group(1)), int(m.group(4)), int(m.group(2))))
    return out


# ------------------------------------------------------------------------------------------------

def run(ctx):
    repo.setup(ctx)
    import multiprocessing as mp
    from toasty.pyramid import PyramidIO, Pos
    from toasty.builder import Builder
    from toasty.image import SUPPORTED_FORMATS

    quick = ctx.quick
    rng = ctx.rng
    import time
    t0 = time.time()

    def lap(what):
        ctx.note("t_" + what, round(time.time() - t0, 1))
    ctx.rule = ("(a) positions = every (level, x, y) to depth 4 (thorough 5) plus seeded positions on levels 5..12 incl. the "
                "corners, for both schemes and every supported format; (b) workflows on synthetic inputs (single images, multi-input TAN, "
                "multi-input TOAST collections of different pixel scales in every input order, single-tile and single-pixel images under both "
                "naming schemes), one observation per step; (c) histories of the tile_fits machine explored to 4 calls: thorough replays every 4-call history, quick every 3-call history "
                "plus the family fresh(X), reuse, override(Y#X), reuse and a seeded sample of other 4-call histories (prefixes are "
                "checked after each call); the inputs include a 10-level pyramid so that directory states with two-digit level names are "
                "overridden and reused; out_dir spelled absolute / relative / x/../out in turn; plus histories (3 calls) with one call interrupted "
                "after its tiles and before its index and with calls through `toasty view` (thorough: all; quick: one continuation of every "
                "2-call beginning `interrupted ; any call` + a seeded sample); plus every history (2 calls, thorough 3) on a directory that exists, "
                "empty, before the first call; (b') the cases of the format machine (pyramid format independent of the input's own format; both "
                "schemes; study entry points tile_base_as_study / prepare+execute / tile_study_image and toast_base, with and without an explicit "
                "format=): thorough all, quick every (kind, format, scheme) once with entry points and sizes in rotation. "
                "distinct = distinct (scheme, format, position) / observation / history / format case")
    indir = ctx.mkdtemp("inputs")
    inp = make_inputs(indir, quick)

    # ---------------------------------------------------------------- workflows (b) and reference runs, in the background
    def wf(name, steps, group):
        return {"name": name, "group": group, "outdir": os.path.join(ctx.mkdtemp(name), "out"), "steps": steps}

    def cli_study(name, image, levels, extra=()):
        w = wf(name, None, "tile-study")
        w["steps"] = [("cli", ["tile-study", "--outdir", w["outdir"]] + list(extra) + [image]),
                      ("cli", ["cascade", "--start", str(levels), "-j", "1", w["outdir"]])]
        return w

    def cli_allsky(name, depth, proj):
        w = wf(name, None, "tile-allsky")
        w["steps"] = [("cli", ["tile-allsky", "--outdir", w["outdir"], "-j", "1", "--projection", proj, inp["sky"], str(depth)]),
                      ("cli", ["cascade", "--start", str(depth), "-j", "1", w["outdir"]])]
        return w

    def fits_call(i, override=False):
        fits, method = FITS_INPUTS[i]
        return ("tile_fits", {"fits": fits, "method": method, "override": override, "input": i})

    FITS_INPUTS = {"A": (inp["A"], "AUTO_DETECT"), "B": (inp["B"], "AUTO_DETECT"), "C": (inp["C"], "AUTO_DETECT"),
                   "D": (inp["D"], "TAN"), "T": (inp["B"], "TOAST"), "E": ([inp["E1"], inp["E2"]], "AUTO_DETECT"),
                   "N": ([inp["N1"], inp["N2"]], "AUTO_DETECT"), "NR": ([inp["N2"], inp["N1"]], "TAN")}
    # multi-input TOAST collections of different pixel scales, in every input order: "M" + the order, e.g. MFG = [F, G]
    toast_orders = [o for n in (2, 3) for o in itertools.permutations("FGH", n)]
    for o in toast_orders:
        FITS_INPUTS["M" + "".join(o)] = ([inp[x] for x in o], "TOAST")
    multi_toast = ["MFG", "MGF", "MFHG", "MHGF", "MGFH"] if quick else ["M" + "".join(o) for o in toast_orders]
    FITS_INPUTS["P"] = (inp["P"], "TOAST")          # 10 levels deep
    FITS_INPUTS["PA"] = (inp["P"], "AUTO_DETECT")    # the same image fits in one TAN tile
    FITS_INPUTS["S"] = (inp["S"], "AUTO_DETECT")     # single TAN tile
    # the history inputs include a pyramid deeper than 9 levels, so that histories pass through directory states whose
    # level names have more than one digit before an override / a reuse
    # ... and a single-tile data set (TileLevels 0, SkyImage), whose recorded values coincide with a Builder's defaults
    # in the tiling-related fields: only the astrometric and Place fields tell a restored description from a default one
    hist_inputs = ["A", "MFG", "P", "S"] if quick else ["A", "S", "MFHG", "P"]

    def builder_study(scheme, image, mode):
        return wf("builder-%s-%s-%s" % (scheme.replace("/", ""), image, mode),
                  [("builder-study", {"scheme": scheme, "image": inp[image], "mode": mode})], "builder-study-" + scheme)

    def cli_study_small(name, image, extra=()):
        w = wf(name, None, "tile-study")
        w["steps"] = [("cli", ["tile-study", "--outdir", w["outdir"]] + list(extra) + [inp[image]]), ("cascade-recorded", None)]
        return w
    maxlen = 4

    def cli_view_toast(name, order):
        """`toasty view --tile-only --tiling-method toast`: the CLI path into FitsTiler; the output directory is
        derived from the first input, so the inputs are copied next to it."""
        w = wf(name, None, "view-toast")
        d = os.path.dirname(w["outdir"])
        paths = []
        for x in order:
            paths.append(os.path.join(d, x + ".fits"))
            shutil.copy(inp[x], paths[-1])
        w["outdir"] = os.path.join(d, order[0] + "_tiled_TOAST")
        w["steps"] = [("cli", ["view", "--tile-only", "--tiling-method", "toast", "-j", "1"] + paths)]
        return w

    def cli_multi_tan(name, order):
        w = wf(name, None, "tile-multi-tan")
        w["steps"] = [("cli", ["tile-multi-tan", "--outdir", w["outdir"], "-j", "1"] + [inp[x] for x in order]),
                      ("cascade-recorded", None)]
        return w

    flows = [cli_study("study-png", inp["study_png"], 2),
             cli_study("study-jpg", inp["study_jpg"], 2),
             cli_study("study-fits", inp["B"], 1, ["--placeholder-thumbnail"]),
             cli_allsky("allsky-d2", 2, "plate-carree"),
             wf("pipeline", [("pipeline", {"image": inp["pipe"]})], "pipeline"),
             cli_view_toast("view-toast-FG", "FG"), cli_view_toast("view-toast-GHF", "GHF"),
             cli_multi_tan("multi-tan-N1N2", ["N1", "N2"]),
             # single-tile (and just-larger) images under every naming scheme and entry point
             cli_study_small("study-small", "small"), cli_study_small("study-px1", "px1", ["--placeholder-thumbnail"]),
             wf("pipeline-small", [("pipeline", {"image": inp["pipe_small"]})], "pipeline")]
    small_combos = [(sch, im, mode) for sch in ("L/Y/YX", "LXY") for im in ("px1", "small", "one_tile", "two_tiles")
                    for mode in ("base", "prepare")]
    if quick:        # every scheme x image, the two entry points alternating
        small_combos = [c for n, c in enumerate(c for c in small_combos if c[2] == "base") if n % 2 == 0] + \
                       [c for n, c in enumerate(c for c in small_combos if c[2] == "prepare") if n % 2 == 1]
    flows += [builder_study(*c) for c in small_combos]
    if not quick:
        flows += [cli_study_small("study-one-tile", "one_tile"), cli_study_small("study-two-tiles", "two_tiles"),
                  wf("pipeline-one-tile", [("pipeline", {"image": inp["pipe_one_tile"]})], "pipeline")]
    if not quick:
        flows += [cli_view_toast("view-toast-" + "".join(o), o) for o in toast_orders if "".join(o) not in ("FG", "GHF")]
        flows += [cli_multi_tan("multi-tan-N2N1", ["N2", "N1"])]
    if not quick:
        flows += [cli_study("study-wide", inp["study_wide"], 3),
                  cli_allsky("allsky-d3-planet", 3, "plate-carree-planet"),
                  cli_allsky("allsky-d1-galactic", 1, "plate-carree-galactic")]
    fits_single = ["A", "B", "C", "T", "N", "S", "PA", "P"] + multi_toast + ([] if quick else ["D", "E", "NR"])
    for i in sorted(set(fits_single) | set(hist_inputs)):
        toast = i in ("C", "T", "P") or i.startswith("M")
        # (fresh ; identical repeat: the shortest history with a reuse, for EVERY input class, with the full comparison of the
        # returned description against the index after both calls)
        flows.append(wf("fits-" + i, [fits_call(i), fits_call(i)], "tile_fits-toast" if toast else "tile_fits-tan"))

    def _checks(pool, pending):
        # ---------------------------------------------------------------- (a) naming: theorems + table from TLC
        formats = sorted(SUPPORTED_FORMATS)
        base = os.path.join(ctx.mkdtemp("pio"), "base")
        combos, pios = [], {}
        for s in ("L/Y/YX", "LXY"):
            for f in formats:
                pio = PyramidIO(base, scheme=s, default_format=f)
                b = Builder(pio)
                combos.append((s, f, lex(b.imgset.url), b.imgset.file_type))
                pios[(s, f)] = (pio, b)
        depth = 4 if quick else 5
        deep = sample_deep(rng, 160 if quick else 1200, depth + 1, 12)
        outp = os.path.join(ctx.scratch, "naming.json")
        # (the walk of WtmlWalk.tla, reported further down, runs in a second JVM at the same time)
        from concurrent.futures import ThreadPoolExecutor
        wdepth = 5 if quick else 8
        wmod = tla.module("MCWtmlWalk", ["WtmlWalk"], [("MCExts", tla.lit(set(tuple(chars(e)) for e in formats)))])
        walker = ThreadPoolExecutor(2)
        walk_run = walker.submit(ctx.tlc, "MCWtmlWalk", extra={"MCWtmlWalk.tla": wmod}, cfg_text=WALK_CFG % wdepth,
                                 workers=4 if quick else 8, timeout=3000)
        # (b') the format machine (WtmlFormats.tla): every (scheme, pyramid format, input kind, entry point, size / depth, and
        # for the all-sky route an explicit format= request) with the pyramid's format chosen independently of the input's own
        own = _own_formats()
        fmod = {"MCWtmlFormats.tla": formats_module(formats, own, FORMAT_SIZES[quick], [1] if quick else [1, 2])}
        fcfg = {"base": "pyramid", "recorded": "pyramid", "request": "refused"}
        formats_run = walker.submit(ctx.tlc, "MCWtmlFormats", extra=fmod, cfg_text=FORMATS_CFG % fcfg, workers=2, timeout=1800)
        ctx.tlc("MCWtmlNaming", extra={"MCWtmlNaming.tla": naming_module(combos, depth, deep, formats)}, cfg_text="",
                env={"OUT": outp}, workers=1, timeout=900, count=False)
        table = json.load(open(outp))
        npos = 0
        for row in table:
            s, f = row["scheme"], join(row["ext"])
            pio, b = pios[(s, f)]
            key = "C17:tile_path:%s" % s
            real = {}
            nbad = nbad_ft = 0
            for r in row["rows"]:
                p = tuple(r["p"])
                rel = os.path.relpath(pio.tile_path(Pos(*p), makedirs=False), base)
                real[p] = rel
                ctx.count()
                ctx.distinct((s, f, p))
                exp, path = join(r["exp"]), join(r["path"])
                if rel != exp:
                    nbad += 1
                    if nbad <= 3:
                        ctx.violation(key + ":template-mismatch",
                                      "scheme %s format %s: the tile of position %s is written at %r, but the recorded Url %r expands to %r"
                                      % (s, f, p, rel, b.imgset.url, exp), {"scheme": s, "format": f, "pos": p})
                elif rel != path:
                    ctx.drift("scheme %s: tile_path(%s) = %r agrees with the recorded Url but not with the spec's Path %r" % (s, p, rel, path))
                if os.path.splitext(rel)[1] != b.imgset.file_type and nbad_ft < 2:
                    nbad_ft += 1
                    ctx.violation(key + ":file-type", "scheme %s format %s: tile %r does not have the recorded FileType %r"
                                  % (s, f, rel, b.imgset.file_type), {"scheme": s, "format": f, "pos": p})
            npos += len(real)
            if len(set(real.values())) != len(real) or not row["inj"]:
                seen, dup = {}, None
                for p, rel in sorted(real.items()):
                    if rel in seen:
                        dup = (seen[rel], p, rel)
                        break
                    seen[rel] = p
                ctx.violation(key + ":paths-collide", "scheme %s format %s: distinct positions share one path: %s (template injective per TLC: %s)"
                              % (s, f, dup, row["inj"]), {"scheme": s, "format": f, "dup": dup})
            if join(row["url_ftype"]) != b.imgset.file_type or join(row["ftype"]) != b.imgset.file_type:
                ctx.violation(key + ":file-type", "scheme %s format %s: recorded FileType %r, Url %r ends in %r, tiles are written as %r"
                              % (s, f, b.imgset.file_type, b.imgset.url, join(row["url_ftype"]), join(row["ftype"])), {"scheme": s, "format": f})
            if not row["url_is_template"]:
                ctx.drift("scheme %s format %s: the recorded Url %r is not the spec's template" % (s, f, b.imgset.url))
            ctx.trace_ok(len(row["rows"]))
        ctx.note("naming_positions_per_combo", npos // max(1, len(table)))
        ctx.note("naming_combos", len(table))
        ctx.sample({"naming": {"scheme": table[0]["scheme"], "ext": join(table[0]["ext"]),
                               "rows": [[r["p"], join(r["exp"])] for r in table[0]["rows"][:5]]}})

        # the same theorems as invariants of a walk over every position to depth 5 (thorough 8), every scheme and format
        rw = walk_run.result()
        ctx.note("walk", {"depth": wdepth, "states": rw.distinct})
        lap("naming")
        # ---------------------------------------------------------------- (b') the format cases TLC emitted -> replays
        rf = formats_run.result()
        walker.shutdown()
        frows = rf.json_lines("F")
        for r in frows:
            g = r["cfg"]
            g["fmt"], g["req"] = join(g["fmt"]), join(g["req"])
        fkey = lambda r: [r["cfg"][k] for k in ("route", "kind", "fmt", "scheme", "w", "h", "depth", "req")]      # noqa: E731
        frows.sort(key=fkey)
        if not frows or not all(r["stage"] in ("indexed", "refused") for r in frows):
            ctx.machinery("the format machine emitted %d cases, stages %s" % (len(frows), sorted(set(r["stage"] for r in frows))))
        if quick:
            # every (input kind, pyramid format, scheme) with the entry points and the multi-level sizes in rotation (offset by
            # the seed); one single-tile study per (kind, scheme); the all-sky route: every (kind, format) without a request,
            # one request for the pyramid's own format, and one mismatched request per pyramid format
            off = ctx.seed % 6
            multi = [z for z in FORMAT_SIZES[True] if max(z) > 256]
            single = [z for z in FORMAT_SIZES[True] if max(z) <= 256][0]
            routes = ["base", "prepare", "direct"]
            want, n = [], off
            for kind in sorted(STUDY_KINDS):
                for sch in ("L/Y/YX", "LXY"):
                    fs = sorted(set(r["cfg"]["fmt"] for r in frows if r["cfg"]["kind"] == kind))
                    for f in fs:
                        want.append((routes[n % 3], kind, f, sch) + multi[(n // 3) % len(multi)] + (0, ""))
                        n += 1
                    want.append((routes[n % 3], kind, fs[n % len(fs)], sch) + single + (0, ""))
            for kind in sorted(TOAST_KINDS):
                fs = sorted(set(r["cfg"]["fmt"] for r in frows if r["cfg"]["kind"] == kind))
                for f in fs:
                    want.append(("toast", kind, f, ("L/Y/YX", "LXY")[n % 2], 0, 0, 1, ""))
                    n += 1
            storable = lambda k: [x for x in formats if TOAST_KINDS[k] == "all" or x in TOAST_KINDS[k]]      # noqa: E731
            for j, f in enumerate(formats):
                ks = [k for k in sorted(TOAST_KINDS) if f in storable(k)]
                k = ks[(j + off) % len(ks)]
                oq = [q for q in storable(k) if q != f]
                want.append(("toast", k, f, ("L/Y/YX", "LXY")[(j + off) % 2], 0, 0, 1, oq[(j + off) % len(oq)]))
            want.append(("toast", sorted(TOAST_KINDS)[off % 2], "fits" if "fits" in formats else "npy", "L/Y/YX", 0, 0, 1,
                         "fits" if "fits" in formats else "npy"))
            by = {tuple(fkey(r)): r for r in frows}
            missing = [t for t in want if tuple(t) not in by]
            if missing:
                ctx.machinery("the format machine did not emit the cases %s" % missing[:3])
            fsel = [by[tuple(t)] for t in sorted(set(want))]
        else:
            fsel = frows
        fflows = []
        for n, r in enumerate(fsel):
            g = r["cfg"]
            mism = bool(g["req"]) and g["req"] != g["fmt"]
            grp = "builder-toast-format-kwarg" if mism else ("builder-toast-formats" if g["route"] == "toast" else "builder-study-formats")
            arg = dict(g)
            if g["route"] != "toast" and g["kind"] != "float-npy":
                arg["image"] = inp["fm_%s_%dx%d" % (g["kind"], g["w"], g["h"])]
            w = wf("fmt-%d" % n, [("builder-formats", arg)], grp)
            w["fspec"] = r
            fflows.append(w)
        ctx.note("format_cases", {"machine_states": rf.distinct, "emitted": len(frows), "replayed": len(fflows), "own_formats": own,
                                  "pyramid_format_differs_from_own": sum(1 for r in fsel if r["cfg"]["fmt"] != own[r["cfg"]["kind"]]),
                                  "explicit_format_requests": sum(1 for r in fsel if r["cfg"]["req"])})
        pending_f = pool.map_async(run_workflow, fflows, chunksize=2)
        lap("formats_tlc")
        # ---------------------------------------------------------------- collect the workflows
        done = pending.get(3000)
        lap("workflows")
        by_name = {w["name"]: w for w in done}
        # A workflow that raises is not a sentence of the property failing: it is reported as drift, the observations of
        # the steps it completed are still judged, and the other workflows go on.  (Nothing observed at all = our problem.)
        if all("error" in w for w in done):
            ctx.machinery("every workflow failed, e.g. %s: %s" % (done[0]["name"], done[0]["error"]))
        usable = [i for i in hist_inputs if "error" not in by_name["fits-" + i]]
        for i in hist_inputs:
            if i not in usable:       # (reported as drift below, with the other raising workflows)
                ctx.note("history_input_dropped_" + i, "its reference run raised; the histories are generated without it")
        if not usable:
            ctx.machinery("no history input could be tiled: %s" % by_name["fits-" + hist_inputs[0]]["error"])
        hist_inputs[:] = usable

        # ---------------------------------------------------------------- (c) history machine
        pops = {}
        for i in hist_inputs:
            o = by_name["fits-" + i]["obs"][-1]
            ps = [tuple(p) for p, _f in o["writes"]] or parse_positions_fallback(o["files"])
            if not ps:
                ctx.machinery("reference run of input %s populated nothing" % i)
            pops[i] = ps
        ctx.note("history_inputs", {i: {"positions": len(pops[i]), "deepest": max(p[0] for p in pops[i])} for i in pops})
        # The machine is explored to 4 calls in both tiers.  Thorough replays every 4-call history; quick replays every
        # 3-call history and, of the 4-call ones, the family fresh(X), reuse, override(Y # X), reuse (the shortest shape on
        # which state kept by the calling process across an override can show) plus a seeded sample of the others.
        hmod = {"MCWtmlHistory.tla": history_module(pops, FITS_EXT, 3 if quick else 4)}
        cfg = {"scheme": "L/Y/YX", "maxlen": 4, "restores": "TRUE", "clears": "TRUE", "cache": "none", "fails": 0, "views": "FALSE",
               "partial": "asfound", "startempty": "FALSE", "emptydir": "tiled"}
        rh = ctx.tlc("MCWtmlHistory", extra=hmod, cfg_text=HISTORY_CFG % cfg, workers=4, timeout=1800)
        hkey = lambda h: [(st["input"], st["override"], st["via"], st["kind"] if st["via"] == "interrupted" else "") for st in h]      # noqa: E731
        allh = sorted(rh.json_lines("H"), key=hkey)
        lap("history_tlc")
        if not allh:
            ctx.machinery("TLC emitted no histories")

        def stale_shape(h):
            return (len(h) == 4 and [st["kind"] for st in h] == ["fresh", "reuse", "override", "reuse"]
                    and h[2]["input"] != h[0]["input"])
        if quick:
            # (the 10-level input costs ~1 s per tiling: its 3-call histories are sampled, the family below has it in
            # both roles - as the deep earlier state that is overridden, and as the new content)
            core = set(hist_inputs[:2])
            family = [h for h in allh if stale_shape(h) and not h[0]["override"]]     # (override is immaterial for the first call)
            base3 = [h for h in allh if len(h) == 3 and set(st["input"] for st in h) <= core]
            rest = [h for h in allh if not stale_shape(h) and h not in base3]
            picked = family + rng.sample(rest, min(8, len(rest)))
            covered = set(tuple(hkey(h)[:3]) for h in picked if len(h) == 4)
            hists = [h for h in base3 if tuple(hkey(h)) not in covered] + picked
            if not family:
                ctx.machinery("the machine generated no history of the shape fresh, reuse, override(other input), reuse")
        else:
            hists = [h for h in allh if len(h) == 4]
        hists.sort(key=hkey)
        # INTERRUPTED RUNS: the same machine with one call of a history interrupted after its tiles and before its index
        # (Fail: "late" = between the last tile and the index, "base" = when the cascade starts) and with calls that come
        # through `toasty view`; explored to 3 calls.  Thorough replays every such history; quick replays, for every
        # 2-call beginning (interrupted X ; any call), one seeded 3-call continuation, plus a seeded sample of the
        # histories whose interrupted call comes second or third.
        ipops = {i: pops[i] for i in (["A", "MFG", "S"] if quick else hist_inputs) if i in pops}
        if not ipops:
            ipops = dict(pops)
        imod = {"MCWtmlHistory.tla": history_module(ipops, FITS_EXT, 3, only_interrupted=True)}
        icfg = dict(cfg, maxlen=3, fails=1, views="TRUE")
        ri = ctx.tlc("MCWtmlHistory", extra=imod, cfg_text=HISTORY_CFG % icfg, workers=4, timeout=1800)
        ih = sorted(ri.json_lines("H"), key=hkey)
        lap("interrupted_tlc")
        if not ih:
            ctx.machinery("TLC emitted no history with an interrupted call")
        if quick:
            first = {}
            for h in ih:
                if h[0]["via"] == "interrupted":
                    first.setdefault(tuple(hkey(h)[:2]), []).append(h)
            later = [h for h in ih if h[0]["via"] != "interrupted"]
            ihists = [rng.choice(first[k]) for k in sorted(first)] + rng.sample(later, min(12, len(later)))
        else:
            ihists = ih
        ihists.sort(key=hkey)
        ctx.note("interrupted_histories", {"inputs": sorted(ipops), "explored_calls": 3, "states": ri.distinct, "generated": len(ih),
                                           "replayed": len(ihists)})
        # A DIRECTORY THAT EXISTS, EMPTY, BEFORE THE FIRST CALL (the caller made it: tempfile.mkdtemp()): the same machine started
        # with the directory present; nothing in it was left by an earlier call, so the first call is the fresh call of its
        # history.  Explored to 2 calls (thorough 3, with `toasty view`), every history replayed.
        epops = {i: pops[i] for i in (["A", "S"] if quick else hist_inputs) if i in pops} or dict(pops)
        emod = {"MCWtmlHistory.tla": history_module(epops, FITS_EXT, 2 if quick else 3)}
        ecfg = dict(cfg, maxlen=2 if quick else 3, startempty="TRUE", views="FALSE" if quick else "TRUE")
        re_ = ctx.tlc("MCWtmlHistory", extra=emod, cfg_text=HISTORY_CFG % ecfg, workers=2, timeout=1800)
        ehists = sorted(re_.json_lines("H"), key=hkey)
        if not ehists or not all(h[0]["kind"] == "fresh" and h[0]["indexed"] for h in ehists):
            ctx.machinery("the machine started on an existing empty directory emitted %d histories; the first call must be fresh and "
                          "leave an index" % len(ehists))
        ctx.note("empty_directory_histories", {"inputs": sorted(epops), "explored_calls": ecfg["maxlen"], "states": re_.distinct,
                                               "replayed": len(ehists)})
        lap("empty_tlc")
        # the output directory is named in turn by its absolute path, relative to the working directory, and by a
        # differently spelled relative path; the stale-cache family never uses the absolute spelling
        hflows = []
        nfam = nother = 0
        def step_of(st, natural):
            if st["via"] == "view":
                fits, method = FITS_INPUTS[st["input"]]
                return ("view", {"fits": fits, "method": method, "input": st["input"], "override": False})
            kind, arg = fits_call(st["input"], st["override"])
            if st["via"] == "interrupted":
                mode = st["kind"][len("fail-"):]
                fits, method = FITS_INPUTS[st["input"]]
                # a single TAN image also has a natural way into the "base" state: a keyword the cascade rejects
                arg["interrupt"] = "kw" if (natural and mode == "base" and st["input"] in ("A", "B", "D")) else mode
            return (kind, arg)

        for n, h in enumerate(hists + ihists):
            w = wf("hist-%d" % n, [step_of(st, n % 2 == 1) for st in h], "tile_fits-history")
            w["spec"] = h
            if stale_shape(h):
                w["path_style"] = ("rel", "respelled")[nfam % 2]
                nfam += 1
            else:
                w["path_style"] = ("abs", "rel", "respelled")[nother % 3]
                nother += 1
            hflows.append(w)
        # out_dir given as a symbolic link to the directory, and as a name whose characters include $VAR, ${VAR} and %s (with
        # the variable set and pointing elsewhere): every 3-call history fresh(X) ; override(Y # X) ; reuse over the first two
        # inputs is replayed once more in each of these spellings
        nbase = len(hflows)
        for h in [h for h in allh if len(h) == 3 and [st["kind"] for st in h] == ["fresh", "override", "reuse"]
                  and h[0]["input"] != h[1]["input"] and not h[0]["override"] and set(st["input"] for st in h) <= set(hist_inputs[:2])]:
            for style in ("symlink", "literal"):
                w = wf("hist-%d" % len(hflows), [step_of(st, False) for st in h], "tile_fits-history")
                w["spec"] = h
                w["path_style"] = style
                if style == "literal":
                    w["outdir"] = os.path.join(os.path.dirname(w["outdir"]), "$C17VAR", "out-${C17VAR}-%s")
                hflows.append(w)
        ctx.note("history_replays_symlink_or_literal_name", len(hflows) - nbase)
        for n, h in enumerate(ehists):
            w = wf("hist-%d" % len(hflows), [step_of(st, False) for st in h], "tile_fits-empty-dir")
            w["spec"] = h
            w["start_empty"] = True
            w["path_style"] = ("abs", "rel")[n % 2]
            hflows.append(w)
        ctx.note("history_replay_selection", {"explored_calls": 4, "replayed": len(hists), "of_4_calls": sum(1 for h in hists if len(h) == 4),
                                              "fresh_reuse_override_reuse": sum(1 for h in hists if stale_shape(h))})
        pending_h = pool.map_async(run_workflow, hflows, chunksize=2)
        # while the replays run: the machine must be able to tell the defects apart (both variants are refuted)
        H, F = ("MCWtmlHistory", HISTORY_CFG), ("MCWtmlFormats", FORMATS_CFG)
        variants = [(H, cfg, hmod, {"restores": "FALSE", "maxlen": 3}, "ReturnedAgrees"), (H, cfg, hmod, {"clears": "FALSE", "maxlen": 3}, "LevelsIsDeepest"),
                    (H, cfg, hmod, {"cache": "stale"}, "ReturnedAgrees"),
                    (H, icfg, imod, {"partial": "view-indexes"}, "LevelsIsDeepest"), (H, icfg, imod, {"partial": "index-guards"}, "LevelsIsDeepest"),
                    # an existing empty directory served as if an earlier call had left it: the fresh call leaves no index
                    (H, ecfg, emod, {"emptydir": "served", "maxlen": 2}, "CompletedIsIndexed"),
                    # the format machine: base layer saved in the input's own format / the index naming it / an explicit format=
                    # request honoured for the base layer only
                    (F, fcfg, fmod, {"base": "image"}, "TemplateAddressesFiles"), (F, fcfg, fmod, {"recorded": "image"}, "TemplateAddressesFiles"),
                    (F, fcfg, fmod, {"request": "honoured"}, "TemplateAddressesFiles")]

        def run_variant(v):
            (module, template), c0, mod, variant, inv = v
            c2 = dict(c0)
            c2.update(variant)
            rv = ctx.tlc(module, extra=mod, cfg_text=(template % c2).replace("INVARIANT Emit\n", ""), workers=1,
                         timeout=600, expect_violation=True, count=False)
            return variant, inv, rv.violated
        with ThreadPoolExecutor(4) as tp:
            for variant, inv, got in tp.map(run_variant, variants):
                if got != inv:
                    ctx.machinery("history machine variant %s: expected %s to be refuted, TLC says %r" % (variant, inv, got))
        lap("variants_tlc")
        hdone = pending_h.get(6000)
        fdone = pending_f.get(6000)
        lap("replays")

        # ---------------------------------------------------------------- judge every observation (b) + (c)
        cases, index = [], {}
        judged = []        # (workflow, step number, obs, case number)
        diverged = set()   # histories in which a call left no index where the machine has one (reported): their later calls are
        #                    judged and compared with the index on disk, but no longer matched against the machine's branches

        def case_of(o):
            wt = o["wtml"]
            if not wt or len(wt) != 1 or wt[0]["url"] is None:
                return None
            a = wt[0]
            try:
                lv = int(a["tile_levels"])
            except (TypeError, ValueError):
                lv = -1
            key = (a["url"], a["file_type"] or "", lv, tuple(o["files"]), tuple((tuple(p), f) for p, f in o["writes"]))
            if key not in index:
                index[key] = len(cases)
                cases.append({"url": a["url"], "ftype": a["file_type"] or "", "levels": lv, "files": o["files"],
                              "writes": [(tuple(p), f) for p, f in o["writes"]]})
            return index[key]

        for w in list(done) + list(hdone) + list(fdone):
            if "error" in w:
                ctx.drift("workflow %s raised after %d of %d steps (%s): %s" % (w["name"], len(w["obs"]), len(w["steps"]), " ; ".join(_steps(w)),
                                                                              w["error"].splitlines()[0][:200]))
            for k, o in enumerate(w["obs"]):
                ctx.count()
                c = case_of(o)
                if c is None and not o["wtml"] and "spec" in w and not w["spec"][k]["indexed"]:
                    continue        # an interrupted run / a reuse of what it left: no index, no claim to judge
                if c is None and not o["wtml"] and "fspec" in w and "raised" in o:
                    # the call failed loudly and left no index: no claim to judge (whatever index exists IS judged)
                    if w["fspec"]["stage"] == "indexed":
                        ctx.drift("%s (%s) raised where the machine writes an index: %s" % (w["name"], _step_text(w["steps"][k]), o["raised"]))
                    else:
                        ctx.trace_ok()
                        ctx.distinct(("fmt", tuple(sorted(w["fspec"]["cfg"].items()))))
                    continue
                if c is None:
                    what = ""
                    if "ret" in o:
                        what = "; the call returned normally and handed back Url %r, FileType %r, TileLevels %r" % (
                            o["ret"]["imgset"].get("url"), o["ret"]["imgset"].get("file_type"), o["ret"]["imgset"].get("tile_levels"))
                    diverged.add(w["name"])
                    if w.get("start_empty"):
                        what += " (the directory existed, EMPTY, before the first call of the history: nothing in it was left by an earlier call)"
                    ctx.violation("C17:%s:no-wtml" % w["group"], "%s step %d (%s; out_dir spelled %s): the directory the caller named holds %d tile files and "
                                  "index_rel.wtml is missing or does not hold exactly one ImageSet with a Url: %r%s"
                                  % (w["name"], k + 1, " ; ".join(_steps(w)[:k + 1]), w.get("path_style", "abs"), len(o["files"]), o["wtml"], what),
                                  {"workflow": w["name"], "steps": _steps(w), "out_dir_spelling": w.get("path_style", "abs"),
                                   "directory_existed_empty_before_first_call": bool(w.get("start_empty"))})
                    continue
                judged.append((w, k, o, c))
        outj = os.path.join(ctx.scratch, "judge.json")
        ctx.tlc("MCWtmlJudge", extra={"MCWtmlJudge.tla": judge_module(cases)}, cfg_text="", env={"OUT": outj}, workers=1,
                timeout=1800, count=False)
        verdicts = json.load(open(outj))
        lap("judge_tlc")
        if len(verdicts) != len(cases):
            ctx.machinery("judge returned %d verdicts for %d observations" % (len(verdicts), len(cases)))
        ctx.note("observations_judged", len(cases))
        reported = set()
        for w, k, o, c in judged:
            v, case = verdicts[c], cases[c]
            g = w["group"]
            where = "%s step %d (%s)" % (w["name"], k + 1, " ; ".join(_steps(w)[:k + 1]) if "spec" in w else _step_text(w["steps"][k]))
            rep = {"workflow": w["name"], "steps": _steps(w)[:k + 1]}
            if (c, g) not in reported:
                reported.add((c, g))
                ctx.distinct(("obs", g, c))
                ctx.trace_ok()
                if o["files"] and not o["writes"]:
                    ctx.drift("%s: the save hook saw no tile being written (%d write_image calls); only the directory listing was judged"
                              % (where, o["nwrite_calls"]))
                if g == "builder-toast-format-kwarg":
                    # one finding, one key: what the index says against what the explicit format= left on disk
                    bad = [t for t, on in (("tiles not at the Url's paths", v["wrong"]), ("files no position of the Url reaches", v["stray"]),
                                           ("FileType is not the tiles' extension", v["badext"] or not v["ftype_t"]),
                                           ("TileLevels is not the deepest layer the Url reaches", not v["levels_ok"]),
                                           ("positions share a name", v["clash"])) if on]
                    if bad:
                        gq = w["fspec"]["cfg"]
                        ctx.violation("C17:builder-toast:format-kwarg", "%s: Builder(PyramidIO(default_format=%r)).toast_base(sampler, %d, format=%r), cascade(), "
                                      "write_index_rel_wtml(): the index records Url %r, FileType %r, TileLevels %d; the directory holds %s: %s"
                                      % (where, gq["fmt"], gq["depth"], gq["req"], case["url"], case["ftype"], case["levels"],
                                         sorted(case["files"])[:5], "; ".join(bad)), rep)
                    continue
                if v["wrong"]:
                    p, f = v["wrong"][0]
                    ctx.violation("C17:%s:tile-not-at-template-path" % g, "%s: the tile of position %s was written at %r; Url %r points elsewhere (%d such tiles)"
                                  % (where, tuple(p), join(f), case["url"], len(v["wrong"])), rep)
                if v["clash"]:
                    p, f = v["clash"][0]
                    ctx.violation("C17:%s:paths-collide" % g, "%s: distinct positions were written under one name %r" % (where, join(f)), rep)
                if v["stray"]:
                    ctx.violation("C17:%s:file-not-addressable" % g, "%s: %d tile file(s) on disk are reached by no position of Url %r, e.g. %r"
                                  % (where, len(v["stray"]), case["url"], join(v["stray"][0])), rep)
                if v["badext"] or not v["ftype_t"]:
                    ex = join(v["badext"][0]) if v["badext"] else case["url"]
                    ctx.violation("C17:%s:file-type" % g, "%s: recorded FileType %r is not the extension of %r" % (where, case["ftype"], ex), rep)
                if not v["levels_ok"]:
                    ctx.violation("C17:%s:tile-levels" % g, "%s: recorded TileLevels %d, deepest populated layer %d"
                                  % (where, case["levels"], v["deepest"]), rep)
            if len(ctx.samples) < 6 and k == len(w["obs"]) - 1 and not w["name"].startswith("hist-"):
                ctx.sample({"workflow": w["name"], "url": case["url"], "file_type": case["ftype"], "tile_levels": case["levels"],
                            "tile_files": len(case["files"]), "saves_observed": len(case["writes"]), "deepest_populated": v["deepest"]})

        # ---------------------------------------------------------------- (b') the directory the format machine predicts
        clean = lambda v: not (v["wrong"] or v["clash"] or v["stray"] or v["badext"]) and v["ftype_t"] and v["levels_ok"]      # noqa: E731
        for w, k, o, c in judged:
            if "fspec" not in w:
                continue
            row, a = w["fspec"], o["wtml"][0]
            ctx.trace_ok()
            ctx.distinct(("fmt", tuple(sorted(row["cfg"].items()))))
            pred = (sorted(join(f) for f in row["files"]), join(row["url"]), join(row["ftype"]), str(row["levels"]))
            real = (sorted(o["files"]), a["url"], a["file_type"], str(a["tile_levels"]))
            if clean(verdicts[c]) and (row["stage"] != "indexed" or pred != real or "raised" in o):
                # (a violation, if any, has been reported from the judge's verdict: this is only the implementation-shaped part)
                ctx.drift("%s (%s): the index and the directory satisfy the property's sentences but are not what the format machine predicts "
                          "(stage %s, %d files, Url %s, TileLevels %s; real: %d files, Url %s, TileLevels %s%s)"
                          % (w["name"], _step_text(w["steps"][k]), row["stage"], len(pred[0]), pred[1], pred[3], len(real[0]), real[1], real[3],
                             "; raised " + o["raised"] if "raised" in o else ""))
            if len([x for x in ctx.samples if "format_case" in x]) < 2 and row["cfg"]["fmt"] != own[row["cfg"]["kind"]] and row["cfg"]["w"] > 256:
                ctx.sample({"format_case": row["cfg"], "input_own_format": own[row["cfg"]["kind"]], "url": a["url"], "file_type": a["file_type"],
                            "tile_levels": a["tile_levels"], "tile_files": len(o["files"])})

        # ---------------------------------------------------------------- (c) returned description and predicted directory
        nh = nint = 0
        for w in list(done) + list(hdone):
            spec = w.get("spec")
            for k, o in enumerate(w["obs"]):
                if spec is not None and spec[k]["via"] == "interrupted" and "raised" not in o:
                    ctx.drift("%s call %d: the call was to be interrupted but ran to completion" % (w["name"], k + 1))
                if spec is not None and not spec[k]["indexed"] and o["wtml"]:
                    ctx.drift("%s call %d (%s): an index_rel.wtml exists where the machine expects none (judged separately)"
                              % (w["name"], k + 1, " ; ".join(_steps(w)[:k + 1])))
                if "ret" not in o or o.get("disk") is None:
                    continue        # nothing handed back (view, interrupted) or no index to agree with
                if spec is not None:
                    st = spec[k]
                    kind = st["kind"]
                else:
                    st, kind = None, ("fresh" if (not o["existed"] or o.get("was_empty")) else ("override" if w["steps"][k][1]["override"] else "reuse"))
                rep = {"workflow": w["name"], "steps": _steps(w)[:k + 1], "out_dir_spelling": w.get("path_style", "abs"),
                       "note": "all calls of a history are made by one process"}
                where = "%s call %d (%s; out_dir spelled %s)" % (w["name"], k + 1, " ; ".join(_steps(w)[:k + 1]), w.get("path_style", "abs"))
                # (a directory that exists and holds nothing was left by no earlier call: the call that finds it is the fresh one)
                real_kind = ("fresh" if (not o["existed"] or o.get("was_empty")) else ("override" if w["steps"][k][1]["override"] else "reuse"))
                if real_kind != kind and w["name"] in diverged:
                    kind, st = real_kind, None
                elif real_kind != kind:
                    ctx.machinery("%s: the replay is in branch %s, the machine in %s" % (where, real_kind, kind))
                core, other = diff_description(o["ret"], o["disk"])
                if core:
                    ctx.violation("C17:tile_fits:%s:returned-description" % kind,
                                  "%s: the Builder returned by tile_fits disagrees with index_rel.wtml on disk: %s" % (where, "; ".join(core[:8])), rep)
                if not core:
                    for m in other[:3]:
                        ctx.drift("%s: %s" % (where, m))
                if not o.get("out_dir_ok", True):
                    ctx.drift("%s: returned out_dir is not the requested directory" % where)
                if st is not None:
                    pred_files = sorted(join(f) for f in st["files"])
                    a = o["wtml"][0] if o["wtml"] else {}
                    if pred_files != sorted(o["files"]) or str(st["levels"]) != str(a.get("tile_levels")):
                        ctx.drift("%s: directory holds %d tile files / TileLevels %s; the machine predicts %d / %d (judged separately)"
                                  % (where, len(o["files"]), a.get("tile_levels"), len(pred_files), st["levels"]))
            if spec is not None:
                nh += 1
                ctx.trace_ok()
                ctx.distinct(("hist", tuple((s["input"], s["override"], s["via"], s["kind"]) for s in spec)))
                if nh <= 2 or (any(s["via"] == "interrupted" for s in spec) and nint < 2):
                    nint += any(s["via"] == "interrupted" for s in spec)
                    ctx.sample({"history": [[s["input"], "override" if s["override"] else "", s["kind"], "disk=" + s["disk"],
                                             "ret=" + s["ret"], "levels=%d" % s["levels"], "%d files" % len(s["files"])] for s in spec]})
        ctx.note("histories_replayed", nh)
        ctx.note("history_bound", {"inputs": hist_inputs, "max_calls": maxlen})
        ctx.exhaustive = False
        ctx.assume("the WWT client substitutes {1} = level, {2} = x, {3} = y and nothing else in the Url (fixed meaning of the placeholders)")
        ctx.assume("workflows are run serially (parallelism 1 / SLURM_NPROCS=1) so that every save happens where the hook can see it; "
                   "the parallel stages write through the same PyramidIO.write_image")
        ctx.assume("metadata files (index_rel.wtml, index.wtml, thumb.jpg) are not tiles")

    pool = mp.Pool(6)
    try:
        _checks(pool, pool.map_async(run_workflow, flows, chunksize=1))
    finally:
        pool.terminate()
        pool.join()


def _step_text(step):
    kind, arg = step
    if kind == "cli":
        return "toasty " + " ".join(a if os.sep not in a else os.path.basename(a) for a in arg)
    if kind == "tile_fits":
        how = {None: "", "late": " INTERRUPTED before the index", "base": " INTERRUPTED when the cascade starts",
               "kw": ", order='bilinear') raising in the cascade"}[arg.get("interrupt")]
        return "tile_fits(%s%s)%s" % (arg["input"], ", override=True" if arg["override"] else "", how)
    if kind == "view":
        return "toasty view --tile-only (%s)" % arg["input"]
    if kind == "cascade-recorded":
        return "toasty cascade --start <recorded TileLevels>"
    if kind == "builder-study":
        return "Builder(PyramidIO(scheme=%s)) %s study of %s" % (arg["scheme"], arg["mode"], os.path.basename(arg["image"]))
    if kind == "builder-formats":
        if arg["route"] == "toast":
            return "Builder(PyramidIO(scheme=%s, default_format=%s)).toast_base(%s, %d%s), cascade, index" % (
                arg["scheme"], arg["fmt"], arg["kind"], arg["depth"], ", format=%r" % arg["req"] if arg["req"] else "")
        how = {"base": "Builder.tile_base_as_study", "prepare": "Builder.prepare_/execute_study_tiling", "direct": "study.tile_study_image"}[arg["route"]]
        return "PyramidIO(scheme=%s, default_format=%s), %s of a %dx%d %s, cascade, index" % (
            arg["scheme"], arg["fmt"], how, arg["w"], arg["h"], arg["kind"])
    if kind == "pipeline":
        return "pipeline process-todos of %s" % os.path.basename(arg["image"])
    return kind


def _steps(w):
    return [_step_text(s) for s in w["steps"]]
