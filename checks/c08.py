"""C08 - study tiling is a lossless, centred partition of the image into 256-pixel tiles.

Spec: spec/StudyTiling.tla (integer spec parameterised by the tile size TS; DESIGN 4.7, 5/C08).

TLC (a) explores SpecImage for a small tile size (every image up to a bound, then every sub-image of it)
checking in every state the 2-D sentences of the property: minimal padded square, centring, rectangles
disjoint / inside their tiles / covering / as many as the count, sub-image shares the parent geometry, and the
pixel-level round trip (tile files written as tile_image writes them, read back in display orientation, for
top-down and bottom-up formats); (b) explores SpecAxis for TS = 256: every axis length to a bound under every
padded size, plus sub-axes, checking the per-axis sentences pixel by pixel, and emits the per-axis segment
tables from the states it visits; (c) evaluates, for the size pairs / sub-images the harness asks for, the
padded size, depth, offsets, count, complete rectangle lists and the file-row tables per parity.

Binding (spec -> code): the real StudyTiling (generate_populated_positions, count_populated_positions,
image_to_tile, n_deepest_layer_tiles, compute_for_subimage) is compared with TLC's tables for critical x all
size pairs and sub-images; real end-to-end tilings (StudyTiling.tile_image, Builder.tile_base_as_study + WTML
URL template, the `tile-study` CLI) are read back from disk with independent readers, reassembled in display
orientation with TLC's file-row table and compared with the image at TLC's offsets.

Image CONTENT (spec: ValueClasses / ValuesOK / TileOfClassStored): besides seeded ordinary values and undefined regions,
images hold the defined value classes TLC lists per kind of image - infinities, signed zeros, subnormals, smallest normal
and largest finite numbers; 1 and the largest integer; black / white, alpha 1 / 255 - as whole tiles of one class, rows
and columns crossing the tiles and single pixels, per mode x lossless format, through the library, Builder, sub-images,
mode histories and the CLI.  The caller's INTEGERS (spec: ReprSlotsOK / ReprSubOK): sub-image offsets / sizes and pixel
indexes are also handed over as NumPy integers of every fitting width (scalars, index arrays), including tilings wide
enough that offset sums leave the 8- and 16-bit ranges; the expectation is the same table, being a function of the values.
"""
import json
import os
from concurrent.futures import ThreadPoolExecutor

from lib import repo, tla

TS = 256
CRIT_QUICK = [1, 2, 255, 256, 257, 511, 512, 513, 514, 1023, 1024, 1025]
CRIT_MORE = [2047, 2048, 2049, 4095, 4096, 4097]
PARITY = {"png": "topdown", "npy": "topdown", "fits": "bottomup"}
# lossless format x mode combinations (what the format can hold)
MODE_FORMATS = [("RGB", "png"), ("RGBA", "png"), ("RGB", "npy"), ("RGBA", "npy"), ("F32", "npy"), ("F64", "npy"),
                ("U8", "npy"), ("I16", "npy"), ("F32", "fits"), ("F64", "fits"), ("U8", "fits"), ("I16", "fits"), ("F16x3", "npy")]
# modes that can carry undefined pixels inside the image
HOLE_MODE_FORMATS = [("F16x3", "npy"), ("F32", "npy"), ("F32", "fits"), ("F64", "npy"), ("F64", "fits"), ("RGBA", "png"), ("RGBA", "npy")]

IMG_CFG = """SPECIFICATION SpecImage
CONSTANTS
 TS = %d
 MaxW = %d
 MaxH = %d
 MaxLen = 1
 SubMode = "none"
 SubLens <- MCSubLens
INVARIANT ImgMinimal
INVARIANT ImgCentred
INVARIANT ImgAxes
INVARIANT ImgPartition
INVARIANT ImgRoundTrip
INVARIANT ImgSub
CHECK_DEADLOCK FALSE
"""

AX_CFG = """SPECIFICATION SpecAxis
CONSTANTS
 TS = 256
 MaxW = 1
 MaxH = 1
 MaxLen = %d
 SubMode = "edges"
 SubLens <- MCSubLens
INVARIANT AxMinimal
INVARIANT AxCentred
INVARIANT AxSegs
INVARIANT AxPixels
INVARIANT AxRows
INVARIANT AxSub
INVARIANT Emit
CHECK_DEADLOCK FALSE
"""

TAB_CFG = """INIT IdleInit
NEXT IdleNext
CONSTANTS
 TS = 256
 MaxW = 1
 MaxH = 1
 MaxLen = 1
 SubMode = "none"
 SubLens <- MCSubLens
CHECK_DEADLOCK FALSE
"""

NAIVE_CFG = """SPECIFICATION SpecAxis
CONSTANTS
 TS = 4
 MaxW = 1
 MaxH = 1
 MaxLen = 9
 SubMode = "none"
 SubLens <- MCSubLens
INVARIANT NaiveRows
CHECK_DEADLOCK FALSE
"""


def mc_img():
    return tla.module("MCImg", ["StudyTiling"], [("MCSubLens", "{}")])


def mc_axis(sublens_expr, emitlens):
    seg = "SegT(s) == [k \\in 1..Len(s) |-> <<s[k].tile, s[k].toff, s[k].ioff, s[k].len>>]"
    emit = ('Emit == /\\ (c.kind = "full" => PrintT(<<"A", ToJson([p2 |-> c.a.p2, len |-> c.a.len, g0 |-> c.a.g0, '
            'own |-> NextP2(c.a.len), n |-> AxisCount(c.a), segs |-> SegT(AxisSegs(c.a))])>>))\n'
            '        /\\ ((c.kind = "sub" /\\ c.parent.len \\in MCEmitLens) => PrintT(<<"S", ToJson([p2 |-> c.a.p2, '
            'plen |-> c.parent.len, off |-> c.off, len |-> c.a.len, g0 |-> c.a.g0, n |-> AxisCount(c.a), '
            'segs |-> SegT(AxisSegs(c.a))])>>))')
    return tla.module("MCAxis", ["StudyTiling", "Json", "TLC"],
                      [("MCSubLens", sublens_expr), ("MCEmitLens", tla.lit(set(emitlens))), seg, emit])


def mc_naive(n=5):
    # (1) the reversed slice *without* the `-1 -> None` case: TLC must find the counterexample (sanity of RowsOK)
    # (2) directory histories: RetileOK for every image of up to n x n pixels (TS = 4) and every sub-image at the corners,
    #     and the variant that keeps a stale file must FAIL it (sanity of DirShows)
    inv = ('NaiveRows == Built => \\A k \\in 1..AxisCount(c.a) : LET sg == AxisSegs(c.a)[k] r == [ty |-> sg.toff, h |-> sg.len] IN '
           'LET rows == RowIdxNaive("bottomup", r) IN Len(rows) = r.h /\\ \\A i \\in 1..r.h : rows[i] = FileRow("bottomup", r.ty + i - 1)')
    lay = ('Layouts == {Tiling(w, h) : w \\in 1..%d, h \\in 1..%d} \\cup' % (n, n) + '  {SubTiling(Tiling(w, h), ix, iy, 2, 3) : w \\in {5, 6}, h \\in {5, 6}, '
           'ix \\in {0, 3}, iy \\in {0, 2}}')
    return tla.module("MCNaive", ["StudyTiling"], [("MCSubLens", "{}"), inv, lay,
                                                   "ASSUME \\A t \\in Layouts : RetileOK(t)",
                                                   "ASSUME \\E t \\in Layouts : ~RetileKeepingStaleOK(t)",
                                                   # transports: rebuilding a tiling from its image size is right for top-level
                                                   # tilings and refuted for sub-image tilings
                                                   "ASSUME \\A w \\in 1..9, h \\in 1..9 : TransportByRebuildOK(Tiling(w, h))",
                                                   "ASSUME \\E t \\in Layouts : ~TransportByRebuildOK(t)"])


def mc_tables(crit, maxlen, extra, full2d, sub2d, big, huge, bigsub):
    defs = [
        ("Huge", tla.lit([list(p) for p in huge])),
        ("BigSub", tla.lit([list(p) for p in bigsub])),
        # pixel values at the edge of a type's meaning: a lossless format stores every class as itself; the writers that
        # blank non-finite values / flush subnormals are refuted
        "ASSUME ValuesOK(StoreAsIs) /\\ ~ValuesOK(StoreBlankingNonFinite) /\\ ~ValuesOK(StoreFlushingToZero)",
        "ASSUME \\A kind \\in ValueKinds : \\A cls \\in ValueClasses[kind] : TileOfClassStored(kind, cls) = (cls # UndefClass[kind])",
        # symbolic geometry for sizes 2^k + d: equal to the concrete operators for every pair that fits into 32 bits
        "Fam == {<<k, d>> \\in (0..29) \\X {-1, 0, 1} : 2^k + d >= 1}",
        "ASSUME \\A w \\in Fam, h \\in Fam : SymAgrees(w, h)",
        # object histories over image modes: the code's rule holds, the sticky-buffer variant is refuted
        "ASSUME ModeHistoriesOK(BufferModeOf) /\\ ~ModeHistoriesOK(StickyBufferModeOf)",
        # object histories over the image: tile_image only reads it; the flip-the-source-in-place variant is refuted
        "ASSUME ImageHistoriesOK(SourceAfter) /\\ ~ImageHistoriesOK(SourceAfterFlipVariant)",
        ("MCSubLens", "{}"),
        "IdleInit == c = 0",
        "IdleNext == UNCHANGED c",
        ("Crit", tla.lit(list(crit))),
        ("Extra", tla.lit([list(p) for p in extra])),
        ("Full2D", tla.lit([list(p) for p in full2d])),
        ("Sub2D", tla.lit([list(p) for p in sub2d])),
        ("Big", tla.lit([list(p) for p in big])),
        "Row(w, h) == LET t == Tiling(w, h) IN <<t.p2, t.lev, t.x.g0, t.y.g0, Count(t)>>",
        "RectT(r) == <<r.pos[1], r.pos[2], r.pos[3], r.w, r.h, r.ix, r.iy, r.tx, r.ty>>",
        "RectsT(t) == LET rs == Rects(t) IN [k \\in 1..Len(rs) |-> RectT(rs[k])]",
        "SegT(s) == [k \\in 1..Len(s) |-> <<s[k].tile, s[k].toff, s[k].ioff, s[k].len>>]",
        "SubOf(q) == SubTiling(Tiling(q[1], q[2]), q[3], q[4], q[5], q[6])",
        # the caller's integers in any representation that holds them: slots and sub-image geometry are functions of the
        # values; doing the addition in the caller's representation is refuted on these very cases
        "ReprProbe(a) == {x \\in {0, 1, 127, 128, 200, 255, 256, 32767, 32768, 40000, 65535} : x < a.len}",
        "ASSUME \\A i \\in DOMAIN Big : LET t == Tiling(Big[i][1], Big[i][2]) IN ReprSlotsOK(AxisSlotAnyRepr, t.x, ReprProbe(t.x)) "
        "/\\ ReprSlotsOK(AxisSlotAnyRepr, t.y, ReprProbe(t.y))",
        "ASSUME \\E i \\in DOMAIN Big : LET t == Tiling(Big[i][1], Big[i][2]) IN ~ReprSlotsOK(AxisSlotWrapping, t.x, ReprProbe(t.x))",
        "ASSUME \\A i \\in DOMAIN BigSub : LET q == BigSub[i] t == Tiling(q[1], q[2]) IN ReprSubOK(SubAxisAnyRepr, t.x, q[3], q[5]) "
        "/\\ ReprSubOK(SubAxisAnyRepr, t.y, q[4], q[6])",
        "ASSUME \\E i \\in DOMAIN BigSub : LET q == BigSub[i] t == Tiling(q[1], q[2]) IN ~ReprSubOK(SubAxisWrapping, t.x, q[3], q[5])",
        "ASSUME \\A i \\in DOMAIN BigSub : LET q == BigSub[i] t == SubOf(q) IN SegsOK(t.x) /\\ SegsOK(t.y) "
        "/\\ SubTilingOK(Tiling(q[1], q[2]), <<q[3], q[4]>>, t)",
        # theorems on exactly the 2-D cases handed to the harness (interval form: cheap at TS = 256)
        "ASSUME \\A i \\in DOMAIN Full2D : IntervalPartitionOK(Tiling(Full2D[i][1], Full2D[i][2])) /\\ P2Minimal(Full2D[i][1], Full2D[i][2])",
        "ASSUME \\A i \\in DOMAIN Sub2D : IntervalPartitionOK(SubOf(Sub2D[i])) /\\ SubTilingOK(Tiling(Sub2D[i][1], Sub2D[i][2]), <<Sub2D[i][3], Sub2D[i][4]>>, SubOf(Sub2D[i]))",
        "ASSUME \\A i \\in DOMAIN Extra : IntervalPartitionOK(Tiling(Extra[i][1], Extra[i][2])) /\\ P2Minimal(Extra[i][1], Extra[i][2])",
        "ASSUME \\A i \\in DOMAIN Big : LET t == Tiling(Big[i][1], Big[i][2]) IN SegsOK(t.x) /\\ SegsOK(t.y) /\\ P2Minimal(Big[i][1], Big[i][2]) "
        "/\\ Centred(t.p2, Big[i][1]) /\\ Centred(t.p2, Big[i][2])",
        "ASSUME \\A par \\in Parities : \\A ty \\in 0..(TS - 1) : \\A h \\in {1, 2, TS - ty} : h <= TS - ty => RowsOK(par, [ty |-> ty, h |-> h])",
        "ASSUME JsonSerialize(IOEnv.OUT, [\n"
        "   wh |-> [i \\in 1..Len(Crit) |-> [h \\in 1..%d |-> Row(Crit[i], h)]],\n"
        "   hw |-> [i \\in 1..Len(Crit) |-> [w \\in 1..%d |-> Row(w, Crit[i])]],\n"
        "   extra |-> [i \\in DOMAIN Extra |-> Row(Extra[i][1], Extra[i][2])],\n"
        "   full |-> [i \\in DOMAIN Full2D |-> [row |-> Row(Full2D[i][1], Full2D[i][2]), rects |-> RectsT(Tiling(Full2D[i][1], Full2D[i][2]))]],\n"
        "   sub |-> [i \\in DOMAIN Sub2D |-> LET t == SubOf(Sub2D[i]) IN [row |-> <<t.p2, t.lev, t.x.g0, t.y.g0, Count(t)>>, rects |-> RectsT(t)]],\n"
        "   big |-> [i \\in DOMAIN Big |-> LET t == Tiling(Big[i][1], Big[i][2]) IN [row |-> <<t.p2, t.lev, t.x.g0, t.y.g0, Count(t)>>, "
        "sx |-> SegT(AxisSegs(t.x)), sy |-> SegT(AxisSegs(t.y))]],\n"
        "   huge |-> [i \\in DOMAIN Huge |-> SymTiling(<<Huge[i][1], Huge[i][2]>>, <<Huge[i][3], Huge[i][4]>>)],\n"
        "   bigsub |-> [i \\in DOMAIN BigSub |-> LET t == SubOf(BigSub[i]) IN [row |-> <<t.p2, t.lev, t.x.g0, t.y.g0, Count(t)>>, "
        "sx |-> SegT(AxisSegs(t.x)), sy |-> SegT(AxisSegs(t.y))]],\n"
        "   values |-> EdgeValueTable,\n"
        "   filerow |-> [topdown |-> [r \\in 1..TS |-> FileRow(\"topdown\", r - 1)], bottomup |-> [r \\in 1..TS |-> FileRow(\"bottomup\", r - 1)]]\n"
        "   ])" % (maxlen, maxlen),
    ]
    return tla.module("MCTables", ["StudyTiling", "Json", "IOUtils", "TLC"], defs)


# ------------------------------------------------------------------------------------------------
# TLC tables on the Python side (shared with forked pool workers through this module global)
# ------------------------------------------------------------------------------------------------

class Tables(object):
    def __init__(self):
        self.axis = {}      # (p2, len) -> (g0, n, segs)        full axes, emitted from the SpecAxis states
        self.own = {}       # len -> NextP2(len)
        self.subaxis = {}   # (p2, plen, off, len) -> (g0, n, segs)
        self.pair = {}      # (w, h) -> (p2, lev, gx0, gy0, count)
        self.filerow = {}   # parity -> list: display row r -> file row
        self.nested = {}    # (W, H, ix, iy, sw, sh) -> (jx, jy, nw, nh): a sub-image of that sub-image
        self.values = {}    # kind (F | I | RGB | RGBA) -> {value class -> is a pixel of that class defined?}   (TLC: EdgeValueTable)


T = Tables()


def compose(lev, segsx, segsy):
    """Rects = AxisSegs x AxisSegs (spec operator Rects), as a list of 9-tuples, tile rows outer."""
    return [(lev, sx[0], sy[0], sx[3], sy[3], sx[2], sy[2], sx[1], sy[1]) for sy in segsy for sx in segsx]


def axis_slots(segs, n):
    """Per pixel (tile, in-tile pixel) along one axis, read off TLC's segments."""
    import numpy as np
    tile = np.full(n, -1, dtype=np.int64)
    sub = np.full(n, -1, dtype=np.int64)
    for t, toff, ioff, ln in segs:
        tile[ioff:ioff + ln] = t
        sub[ioff:ioff + ln] = np.arange(toff, toff + ln)
    return tile, sub


def sentence_monitors(rects, w, h, lev, gx0, gy0):
    """The property's sentences evaluated directly on a rectangle list produced by the real code.
    Returns a list of failed sentences (strings)."""
    bad = []
    side = 2 ** lev
    area = 0
    for r in rects:
        n, x, y, rw, rh, ix, iy, tx, ty = r
        if rw < 1 or rh < 1 or ix < 0 or iy < 0 or ix + rw > w or iy + rh > h:
            bad.append("rectangle %s not inside the image" % (r,))
        if tx < 0 or ty < 0 or tx + rw > TS or ty + rh > TS:
            bad.append("rectangle %s not inside its tile" % (r,))
        if n != lev or not (0 <= x < side and 0 <= y < side):
            bad.append("rectangle %s names a tile outside the %dx%d grid of level %d" % (r, side, side, lev))
        if x * TS + tx != gx0 + ix or y * TS + ty != gy0 + iy:
            bad.append("rectangle %s is not at the centred position (offsets %d, %d)" % (r, gx0, gy0))
        area += rw * rh
    for i in range(len(rects)):
        a = rects[i]
        for j in range(i + 1, len(rects)):
            b = rects[j]
            if a[:3] == b[:3]:
                bad.append("two rectangles for tile %s" % (a[:3],))
            if not (a[5] + a[3] <= b[5] or b[5] + b[3] <= a[5] or a[6] + a[4] <= b[6] or b[6] + b[4] <= a[6]):
                bad.append("rectangles %s and %s overlap" % (a, b))
    if area != w * h and not bad:
        bad.append("rectangles cover %d of %d image pixels" % (area, w * h))
    return bad[:4]


def observe(st, w, h):
    """Everything C08 observes on a real StudyTiling, through its public methods only."""
    import numpy as np
    rects = [(int(p.n), int(p.x), int(p.y), int(rw), int(rh), int(ix), int(iy), int(tx), int(ty))
             for (p, rw, rh, ix, iy, tx, ty) in st.generate_populated_positions()]
    cnt = int(st.count_populated_positions())
    tix, _a, six, _b = st.image_to_tile(np.arange(w), 0)
    _c, tiy, _d, siy = st.image_to_tile(0, np.arange(h))
    return rects, cnt, np.asarray(tix), np.asarray(six), np.asarray(tiy), np.asarray(siy), int(st.n_deepest_layer_tiles())


TRANSPORTS = ("pickle2", "pickle3", "pickle4", "pickle5", "copy", "deepcopy", "queue")


def transport(obj, how):
    """What can happen to a tiling object between its construction and its use (spec action Transport: same geometry)."""
    import copy
    import pickle
    if how.startswith("pickle"):
        return pickle.loads(pickle.dumps(obj, protocol=int(how[6:])))
    if how == "copy":
        return copy.copy(obj)
    if how == "deepcopy":
        return copy.deepcopy(obj)
    if how == "queue":                      # the pickling path of multiprocessing queues / pipes
        import multiprocessing as mp
        q = mp.SimpleQueue()
        q.put(obj)
        return q.get()
    if how == "none":
        return obj
    raise ValueError(how)


def compare_geometry(tag, case, st, w, h, row, segsx, segsy, exp_rects=None, obs=None):
    """Compare one real tiling (full or sub) with TLC's expectation. Returns [(sev, key, msg, case)].
    obs: an observation made elsewhere (in another process) instead of on `st`."""
    import numpy as np
    res = []
    p2, lev, gx0, gy0, count = row

    def bad(sev, key, msg):
        res.append((sev, "%s:%s" % (tag, key), msg, case))
    try:
        if isinstance(obs, Exception):
            raise obs
        rects, cnt, tix, six, tiy, siy, ndeep = obs if obs is not None else observe(st, w, h)
    except Exception as e:  # noqa
        bad("V", "raises", "tiling %s raised %r" % (case, e))
        return res
    levs = set(r[0] for r in rects)
    if ndeep != 4 ** lev or levs != {lev}:
        bad("V", "padded-size", "tiling of %s uses depth %s / %d deepest tiles; the smallest power-of-two square is %d px = depth %d"
            % (case, sorted(levs), ndeep, p2, lev))
    ogx0 = int(tix[0]) * TS + int(six[0])
    ogy0 = int(tiy[0]) * TS + int(siy[0])
    if (ogx0, ogy0) != (gx0, gy0):
        bad("V", "centring", "image pixel (0,0) of %s lands at global (%d,%d); centred (rounded down) is (%d,%d)" % (case, ogx0, ogy0, gx0, gy0))
    etx, esx = axis_slots(segsx, w)
    ety, esy = axis_slots(segsy, h)
    if not (np.array_equal(tix, etx) and np.array_equal(six, esx) and np.array_equal(tiy, ety) and np.array_equal(siy, esy)):
        bad("V", "image_to_tile", "image_to_tile of %s disagrees with the slot table (first x mismatch %s, first y mismatch %s)"
            % (case, _first_diff(tix, six, etx, esx), _first_diff(tiy, siy, ety, esy)))
    exp = exp_rects if exp_rects is not None else compose(lev, segsx, segsy)
    if sorted(rects) != sorted(exp):
        fails = sentence_monitors(rects, w, h, lev, gx0, gy0)
        if len(set(rects)) != len(rects):
            fails.append("a rectangle is generated twice")
        if fails:
            bad("V", "rects", "generate_populated_positions of %s: %s" % (case, "; ".join(fails)))
        else:
            bad("D", "rects", "rectangles of %s differ from the spec's per-tile overlaps but still satisfy every sentence: %s vs %s" % (case, rects[:4], exp[:4]))
    elif rects != exp:
        pass        # order is not part of the property
    if cnt != len(rects):
        bad("V", "count", "count_populated_positions of %s = %d but %d rectangles are generated" % (case, cnt, len(rects)))
    elif cnt != count:
        bad("V", "count", "count_populated_positions of %s = %d, closed form %d" % (case, cnt, count))
    return res


def sym(v):
    """TLC's symbolic number [t |-> <<sign, exponent>>..., b |-> int] as a Python integer."""
    return sum(int(sg) * (1 << int(x)) for sg, x in v["t"]) + int(v["b"])


def compare_huge(case, w, h, exp):
    """Sizes beyond TLC's integers (2^k + d): the real StudyTiling(w, h) against TLC's symbolic geometry, without
    instantiating an image and without enumerating the tiles: depth, offsets, slot of the first and the last pixel,
    the count (closed form) and the first rectangles the generator yields."""
    import itertools
    from toasty.study import StudyTiling
    res = []

    def bad(key, msg):
        res.append(("V", "study:%s" % key, msg, case))
    lev = exp["lev"]
    ax, ay = exp["x"], exp["y"]
    try:
        st = StudyTiling(w, h)
        ndeep = int(st.n_deepest_layer_tiles())
        cnt = int(st.count_populated_positions())
        first = [(int(p.n), int(p.x), int(p.y), int(rw), int(rh), int(ix), int(iy), int(tx), int(ty))
                 for (p, rw, rh, ix, iy, tx, ty) in itertools.islice(st.generate_populated_positions(), 4)]
        s0 = [int(v) for v in st.image_to_tile(0, 0)]
        s1 = [int(v) for v in st.image_to_tile(w - 1, h - 1)]
    except Exception as e:  # noqa
        bad("raises", "StudyTiling(%d, %d) raised %r" % (w, h, e))
        return res
    if ndeep != 4 ** lev or any(r[0] != lev for r in first):
        bad("padded-size", "tiling of %dx%d (%s) has %d deepest tiles / depth %s; the smallest power-of-two square 2^%d has depth %d"
            % (w, h, case, ndeep, sorted(set(r[0] for r in first)), exp["e"], lev))
    gx0, gy0 = sym(ax["g0"]), sym(ay["g0"])
    og = (s0[0] * TS + s0[2], s0[1] * TS + s0[3])
    if og != (gx0, gy0):
        bad("centring", "image pixel (0,0) of %dx%d lands at global %s; centred (rounded down) is (%d,%d)" % (w, h, og, gx0, gy0))
    e0 = [sym(ax["slot0"][0]), sym(ay["slot0"][0]), int(ax["slot0"][1]), int(ay["slot0"][1])]
    e1 = [sym(ax["slotN"][0]), sym(ay["slotN"][0]), int(ax["slotN"][1]), int(ay["slotN"][1])]
    if s0 != e0 or s1 != e1:
        bad("image_to_tile", "image_to_tile of the first / last pixel of %dx%d = %s / %s, slot table %s / %s" % (w, h, s0, s1, e0, e1))
    ecount = sym(ax["cnt"]) * sym(ay["cnt"])
    if cnt != ecount:
        bad("count", "count_populated_positions of %dx%d = %d, closed form %d" % (w, h, cnt, ecount))

    # the rectangles yielded first, looked up by tile among the segments TLC wrote out (first three and last per axis)
    def table(a):
        d = {}
        for sg in list(a["head"]) + [a["tail"]]:
            v = tuple(sym(q) for q in sg)
            d[v[0]] = v
        return d
    tx_, ty_ = table(ax), table(ay)
    for r in first:
        sx, sy = tx_.get(r[1]), ty_.get(r[2])
        if not (sym(ax["first"]) <= r[1] <= sym(ax["last"]) and sym(ay["first"]) <= r[2] <= sym(ay["last"])):
            bad("rects", "rectangle %s of %dx%d names a tile that holds no image data" % (r, w, h))
        elif sx is not None and sy is not None and r != (lev, sx[0], sy[0], sx[3], sy[3], sx[2], sy[2], sx[1], sy[1]):
            bad("rects", "rectangle %s of %dx%d; the tile's overlap with the image is %s"
                % (r, w, h, (lev, sx[0], sy[0], sx[3], sy[3], sx[2], sy[2], sx[1], sy[1])))
    if not first:
        bad("rects", "no rectangle generated for %dx%d" % (w, h))
    return res


def _first_diff(t, s, et, es):
    import numpy as np
    if len(t) != len(et):
        return "length %d vs %d" % (len(t), len(et))
    d = np.nonzero((np.asarray(t) != et) | (np.asarray(s) != es))[0]
    if len(d) == 0:
        return None
    i = int(d[0])
    return "pixel %d -> (%d,%d), table (%d,%d)" % (i, int(t[i]), int(s[i]), int(et[i]), int(es[i]))


# ------------------------------------------------------------------------------------------------
# the caller's integers in NumPy representations (spec: ReprSlotsOK / ReprSubOK - the geometry is a function of the VALUES)
# ------------------------------------------------------------------------------------------------

NP_INTS = ("uint8", "int8", "uint16", "int16", "uint32", "int32", "uint64", "int64")
REPR_FINDINGS_AS_VIOLATIONS = True      # see report() in run(): the unchanged code fails these two monitors (open finding)
KEY_NPARGS = "subimage:numpy-integer-arguments"
KEY_NPINDEX = "study:image_to_tile:numpy-integer-indexes"


def np_holders(v):
    """NumPy integer types that hold the value v, narrowest first (unsigned before signed of the same width)."""
    import numpy as np
    return [t for t in NP_INTS if np.iinfo(t).min <= v <= np.iinfo(t).max]


def as_np_int(v, variant):
    """v as a NumPy integer scalar: variant 0 narrowest type, 1 narrowest signed, 2 narrowest unsigned, 3 int64, 4 next wider than narrowest."""
    import numpy as np
    hs = np_holders(v)
    if variant % 5 == 1:
        hs = [t for t in hs if t.startswith("int")]
    elif variant % 5 == 2:
        hs = [t for t in hs if t.startswith("uint")]
    elif variant % 5 == 3:
        hs = ["int64"]
    elif variant % 5 == 4:
        hs = hs[2:] or hs
    return getattr(np, hs[0])(v)


def quiet(f, *a, **k):
    """f(*a, **k) without NumPy's overflow warnings on stderr (what went wrong is judged from the results)."""
    import warnings
    with warnings.catch_warnings():
        warnings.simplefilter("ignore")
        return f(*a, **k)


def coarse(items, key, how):
    """Fold the failures of a representation case into ONE monitor key (the sentence that failed goes into the text)."""
    return [(sev, key, "[%s, caller's integers as %s] %s" % (k, how, msg), case) if sev == "V" else (sev, k, msg, case)
            for sev, k, msg, case in items]


def repr_slots(st, w, h, segsx, segsy, case, variant):
    """image_to_tile asked with index ARRAYS (and scalars) of narrow NumPy integer types: the pixels 0..n-1 of each axis
    that the type can express, compared with TLC's slot table. Returns [(sev, key, msg, case)]."""
    import warnings
    import numpy as np
    res = []
    tables = {"x": axis_slots(segsx, w), "y": axis_slots(segsy, h)}
    for axis, n in (("x", w), ("y", h)):
        et, es = tables[axis]
        # every width of one signedness, each with as many of the axis' pixels as it can express
        names = [t for t in NP_INTS if not t.endswith("64")]
        names = names[variant % 2::2]                 # uint8, uint16, uint32  |  int8, int16, int32
        for tname in names:
            m = min(n, int(np.iinfo(tname).max) + 1)
            idx = np.arange(m).astype(tname)
            zero = getattr(np, tname)(0)
            c = dict(case, axis=axis, index_dtype=tname, pixels="0..%d" % (m - 1))
            try:
                with warnings.catch_warnings():
                    warnings.simplefilter("ignore")
                    out = st.image_to_tile(idx, zero) if axis == "x" else st.image_to_tile(zero, idx)
                    last = st.image_to_tile(idx[-1], zero) if axis == "x" else st.image_to_tile(zero, idx[-1])
                t, sl = (out[0], out[2]) if axis == "x" else (out[1], out[3])
                lt, ls = (last[0], last[2]) if axis == "x" else (last[1], last[3])
                t, sl = np.asarray(t).astype(np.int64), np.asarray(sl).astype(np.int64)
            except Exception as e:  # noqa
                res.append(("V", KEY_NPINDEX, "image_to_tile of %s with a %s index array (pixels 0..%d of the %s axis) raised %r"
                            % (case, tname, m - 1, axis, e), c))
                continue
            d = _first_diff(t, sl, et[:m], es[:m])
            if d is not None:
                res.append(("V", KEY_NPINDEX, "image_to_tile of %s with a %s index array over pixels 0..%d of the %s axis disagrees with the "
                            "slot table: %s" % (case, tname, m - 1, axis, d), c))
            elif (int(lt), int(ls)) != (int(et[m - 1]), int(es[m - 1])):
                res.append(("V", KEY_NPINDEX, "image_to_tile of %s with the %s scalar %d (%s axis) = (%d, %d), slot table (%d, %d)"
                            % (case, tname, m - 1, axis, int(lt), int(ls), int(et[m - 1]), int(es[m - 1])), c))
    return res


def subimage_with_np_args(parent, q, variant):
    """compute_for_subimage with its four arguments as NumPy integer scalars. Returns (tiling or exception, description)."""
    import warnings
    import numpy as np
    if variant % 3 == 0:        # the four arguments in ONE type: the narrowest signed / unsigned type that holds them all
        common = [t for t in NP_INTS if t.startswith("uint" if variant % 2 else "int") and all(t in np_holders(v) for v in q)][0]
        args = [getattr(np, common)(v) for v in q]
    else:                       # each argument in a type of its own (narrowest, narrowest signed / unsigned, int64, one wider)
        args = [as_np_int(v, variant + j) for j, v in enumerate(q)]
    how = ",".join(type(a).__name__ for a in args)
    try:
        with warnings.catch_warnings():
            warnings.simplefilter("ignore")
            return parent.compute_for_subimage(*args), how
    except Exception as e:  # noqa
        return e, how


def _safe_observe(obj, w, h):
    try:
        return observe(obj, w, h)
    except Exception as e:  # noqa
        return RuntimeError(repr(e))


def _child_observer(inq, outq, inherited):
    """Runs in a forked child: observes tilings it inherited across the fork and tilings sent to it through a queue."""
    for tag, (w, h), obj in inherited:
        outq.put((tag, _safe_observe(obj, w, h)))
    while True:
        item = inq.get()
        if item is None:
            break
        tag, (w, h), obj = item
        outq.put((tag, _safe_observe(obj, w, h)))


def geometry_chunk(pairs):
    """Pool worker: full-image tilings for a chunk of (w, h)."""
    repo.setup()
    from toasty.study import StudyTiling
    out = []
    for (w, h) in pairs:
        row = T.pair[(w, h)]
        p2 = row[0]
        ax, ay = T.axis.get((p2, w)), T.axis.get((p2, h))
        if ax is None or ay is None:
            out.append(("M", "table", "no axis table for %s under p2=%d" % ((w, h), p2), (w, h)))
            continue
        try:
            st = StudyTiling(w, h)
        except Exception as e:  # noqa
            out.append(("V", "study:raises", "StudyTiling(%d, %d) raised %r" % (w, h, e), {"w": w, "h": h}))
            continue
        out.extend(compare_geometry("study", {"w": w, "h": h}, st, w, h, row, ax[2], ay[2]))
        if (w + 2 * h) % 3 == 0:           # every third tiling is also asked with narrow NumPy index arrays / scalars
            out.extend(repr_slots(st, w, h, ax[2], ay[2], {"w": w, "h": h}, w + h))
        if (w + 3 * h) % 4 == 0:           # every fourth tiling is also looked at after a transport
            how = TRANSPORTS[(w + h) % len(TRANSPORTS)]
            tcase = {"w": w, "h": h, "transport": how}
            try:
                st2 = transport(st, how)
            except Exception as e:  # noqa
                out.append(("V", "study:raises", "%s of StudyTiling(%d, %d) raised %r" % (how, w, h, e), tcase))
                continue
            out.extend(compare_geometry("study", tcase, st2, w, h, row, ax[2], ay[2]))
    return out


def sub_chunk(groups):
    """Pool worker: histories on ONE StudyTiling object per parent size (behaviours full -> sub -> full -> sub ... of
    SpecImage): the first sub-image is derived from the untouched parent; then the parent itself is asked for its count,
    rectangles and slots, further sub-images are derived from the same (now used) object one after another, the parent
    is re-examined in between and at the end.  Every observation is compared with TLC's tables.
    groups: [((W, H), [(W, H, ix, iy, sw, sh), ...])]"""
    repo.setup()
    from toasty.study import StudyTiling
    out = []
    for (W, H), cases in groups:
        prow = T.pair[(W, H)]
        p2, lev = prow[0], prow[1]
        pax, pay = T.axis[(p2, W)], T.axis[(p2, H)]
        try:
            parent = StudyTiling(W, H)
        except Exception as e:  # noqa
            out.append(("V", "study:raises", "StudyTiling(%d, %d) raised %r" % (W, H, e), {"w": W, "h": H}))
            continue

        def look_at_parent(when):
            pc = {"W": W, "H": H, "history": when}
            out.extend(compare_geometry("study", pc, parent, W, H, prow, pax[2], pay[2]))
        prev = None
        for i, (_W, _H, ix, iy, sw, sh) in enumerate(cases):
            if i == 1:
                look_at_parent("after deriving sub-image %s" % (prev,))
            ax, ay = T.subaxis[(p2, W, ix, sw)], T.subaxis[(p2, H, iy, sh)]
            row = (p2, lev, ax[0], ay[0], ax[1] * ay[1])
            case = {"W": W, "H": H, "ix": ix, "iy": iy, "sw": sw, "sh": sh,
                    "history": "untouched parent" if i == 0 else "parent asked for count/rectangles, %d sub-images derived before" % i}
            try:
                st = parent.compute_for_subimage(ix, iy, sw, sh)
            except Exception as e:  # noqa
                out.append(("V", "subimage:raises", "compute_for_subimage%s on %dx%d raised %r" % ((ix, iy, sw, sh), W, H, e), case))
                continue
            out.extend(compare_geometry("subimage", case, st, sw, sh, row, ax[2], ay[2]))
            # the same sub-image asked for with NumPy integers (narrowest type holding each value, signed, unsigned, mixed):
            # the geometry is a function of the values
            if i % 3 == 0:
                stn, how = subimage_with_np_args(parent, (ix, iy, sw, sh), i // 3 + ix)
                ncase_ = dict(case, args_as=how)
                if isinstance(stn, Exception):
                    out.append(("V", KEY_NPARGS, "compute_for_subimage%s on %dx%d with the arguments as NumPy integers (%s) raised %r"
                                % ((ix, iy, sw, sh), W, H, how, stn), ncase_))
                else:
                    out.extend(coarse(quiet(compare_geometry, "subimage", ncase_, stn, sw, sh, row, ax[2], ay[2]), KEY_NPARGS, how))
                out.extend(repr_slots(st, sw, sh, ax[2], ay[2], case, i // 3))
            # the same sub-image tiling after a transport (pickle protocols, copy, deepcopy, queue)
            how = TRANSPORTS[(i + ix + iy + sw) % len(TRANSPORTS)]
            tcase = dict(case, transport=how)
            try:
                st2 = transport(st, how)
                out.extend(compare_geometry("subimage", tcase, st2, sw, sh, row, ax[2], ay[2]))
                if i % 5 == 0:             # ... and after two transports in a row
                    how2 = TRANSPORTS[(i + sh) % len(TRANSPORTS)]
                    out.extend(compare_geometry("subimage", dict(case, transport=how + "," + how2), transport(st2, how2), sw, sh, row, ax[2], ay[2]))
            except Exception as e:  # noqa
                out.append(("V", "subimage:raises", "%s of the sub-image tiling %s raised %r" % (how, case, e), tcase))
            # a sub-image of the sub-image: compute_for_subimage on a sub-tiling places it in the stand-alone tiling of the
            # sub-image's size (which grid a nested sub-image belongs to is not fixed by the property: a difference there
            # is drift); a transport must not change it
            nested = T.nested.get((W, H, ix, iy, sw, sh))
            if nested is not None:
                jx, jy, nw, nh = nested
                nrow0 = T.pair[(sw, sh)]
                nax, nay = T.subaxis[(nrow0[0], sw, jx, nw)], T.subaxis[(nrow0[0], sh, jy, nh)]
                nrow = (nrow0[0], nrow0[1], nax[0], nay[0], nax[1] * nay[1])
                ncase = dict(case, nested=[jx, jy, nw, nh])
                try:
                    nst = st.compute_for_subimage(jx, jy, nw, nh)
                    plain = compare_geometry("subimage", ncase, nst, nw, nh, nrow, nax[2], nay[2])
                    if plain:
                        out.append(("D", "subimage:nested", "a sub-image of a sub-image is not placed in the stand-alone tiling of the "
                                    "sub-image's size: %s" % (plain[0][2],), ncase))
                    else:
                        for hw in (how, TRANSPORTS[(i + 3) % len(TRANSPORTS)]):
                            out.extend(compare_geometry("subimage", dict(ncase, transport=hw), transport(nst, hw), nw, nh, nrow, nax[2], nay[2]))
                except Exception as e:  # noqa
                    out.append(("V", "subimage:raises", "nested sub-image %s raised %r" % (ncase, e), ncase))
            if i % 7 == 6:
                out.extend(compare_geometry("subimage", dict(case, history=case["history"] + "; looked at twice"), st, sw, sh, row, ax[2], ay[2]))
                look_at_parent("between sub-images")
            prev = (ix, iy, sw, sh)
        look_at_parent("after %d sub-images" % len(cases))
    return out


# ------------------------------------------------------------------------------------------------
# end-to-end reassembly (pool workers)
# ------------------------------------------------------------------------------------------------

def punch_holes(a, mode, gx0, gy0, seed):
    """Undefined regions laid out on the global tile grid (the image's pixel (0,0) is global (gx0, gy0)):
    1 a whole tile plus a 7-pixel rim in ONE plane (F16x3: one colour plane; other modes have one plane)
    2 another whole tile in ALL planes (such a tile is not stored - C15's rule - and must read back undefined)
    3 F16x3: a whole tile in which every pixel has exactly one NaN channel, the channel varying per pixel
    4 the sliver of the image inside its first (partial) tile column, one plane
    5 a small rectangle, all planes."""
    import numpy as np
    g = np.random.default_rng(seed + 977)
    h, w = a.shape[:2]

    def undef(ys, xs, plane):
        if ys.stop <= ys.start or xs.stop <= xs.start:
            return
        if mode == "F16x3" and plane is not None:
            a[ys, xs, plane] = np.nan
        elif mode == "RGBA":
            a[ys, xs] = 0
        else:
            a[ys, xs] = np.nan

    def span(t, g0, n, rim=0):
        return slice(max(0, t * TS - g0 - rim), min(n, (t + 1) * TS - g0 + rim))
    txs = list(range((gx0 + TS - 1) // TS, (gx0 + w) // TS))       # tiles lying completely inside the image
    tys = list(range((gy0 + TS - 1) // TS, (gy0 + h) // TS))
    k = seed % 3
    if txs and tys:
        undef(span(tys[0], gy0, h, 7), span(txs[0], gx0, w, 7), k)
        if len(txs) > 1 or len(tys) > 1:
            undef(span(tys[-1], gy0, h), span(txs[-1], gx0, w), None)
        if mode == "F16x3" and len(txs) > 1 and len(tys) > 1:
            ys, xs = span(tys[0], gy0, h), span(txs[-1], gx0, w)
            ch = g.integers(0, 3, (ys.stop - ys.start, xs.stop - xs.start))
            blk = a[ys, xs]
            for c in range(3):
                blk[..., c][ch == c] = np.nan
    first_cols = slice(0, min(w, TS - gx0 % TS))
    rows = span(tys[0], gy0, h) if tys else slice(0, min(h, TS - gy0 % TS))
    undef(rows, first_cols, (k + 1) % 3)
    y0, x0 = int(g.integers(0, h)), int(g.integers(0, w))
    undef(slice(y0, min(h, y0 + 9)), slice(x0, min(w, x0 + 13)), None)
    return a


MODE_KIND = {"F32": "F", "F64": "F", "F16x3": "F", "U8": "I", "I16": "I", "I32": "I", "RGB": "RGB", "RGBA": "RGBA"}


def edge_value(mode, cls, dtype):
    """The concrete pixel value of a value class of the spec (ValueClasses) in an image of this mode."""
    import numpy as np
    kind = MODE_KIND[mode]
    if kind == "F":
        fi = np.finfo(dtype)
        return {"neginf": -np.inf, "negmax": fi.min, "negsub": -fi.smallest_subnormal, "negzero": -0.0, "zero": 0.0,
                "possub": fi.smallest_subnormal, "posmin": fi.smallest_normal, "posmax": fi.max, "posinf": np.inf}[cls]
    if kind == "I":
        return {"one": 1, "max": np.iinfo(dtype).max}[cls]
    if kind == "RGB":
        return {"black": (0, 0, 0), "white": (255, 255, 255)}[cls]
    return {"blackfaint": (0, 0, 0, 1), "whitefaint": (255, 255, 255, 1), "blackopaque": (0, 0, 0, 255), "whiteopaque": (255, 255, 255, 255)}[cls]


def lay_edges(a, mode, gx0, gy0, seed):
    """Pixels whose values sit at the edge of what the type can mean, laid out on the global tile grid (image pixel (0,0)
    is global (gx0, gy0)).  The classes are the DEFINED classes of TLC's EdgeValueTable for the image's kind (floats: the
    infinities, signed zeros, subnormals, smallest normal, largest finite; integers: 1 and the largest; colour: black and
    white, alpha 1 and 255); every one of them is a defined pixel, so the expectation does not change.
    1 tiles whose image part holds ONE class and nothing else (spec: TileOfClassStored - such a tile has data): the image
      part of the first and of the last populated tile, and the first and last tile lying wholly inside the image; the
      first of these always holds an infinity in float images
    2 one image row and one image column (crossing the other tiles) hold one class each
    3 every class at a handful of single pixels (F16x3: also in single channels), and at the image's corners."""
    import numpy as np
    g = np.random.default_rng(seed + 4241)
    kind = MODE_KIND[mode]
    classes = sorted((c for c, defined in T.values[kind].items() if defined and c != "ordinary"), key=lambda c: (not c.endswith("inf"), c))
    if not classes:
        raise RuntimeError("no value classes for kind %s" % kind)
    n = len(classes)
    h, w = a.shape[:2]

    def val(j):
        return edge_value(mode, classes[j % n], a.dtype)

    def span(t, g0, m):
        return slice(max(0, t * TS - g0), min(m, (t + 1) * TS - g0))
    tx0, tx1, ty0, ty1 = gx0 // TS, (gx0 + w - 1) // TS, gy0 // TS, (gy0 + h - 1) // TS
    txs = list(range((gx0 + TS - 1) // TS, (gx0 + w) // TS))       # tiles lying completely inside the image
    tys = list(range((gy0 + TS - 1) // TS, (gy0 + h) // TS))
    blocks = [(ty0, tx0)]
    if (ty1, tx1) != (ty0, tx0):
        blocks.append((ty1, tx1))
    if txs and tys:
        blocks += [b for b in ((tys[0], txs[0]), (tys[-1], txs[-1])) if b not in blocks]
    keep = np.zeros((h, w), dtype=bool)                              # pixels of the single-class tiles
    if len(blocks) > 1 or w * h == 1:
        for j, (ty, tx) in enumerate(blocks):
            ys, xs = span(ty, gy0, h), span(tx, gx0, w)
            a[ys, xs] = val(seed % 2 if j == 0 else seed + j)
            keep[ys, xs] = True
    free = ~keep
    if free.any():
        y, x = int(g.integers(0, h)), int(g.integers(0, w))
        a[y, free[y]] = val(seed + 5)
        a[free[:, x], x] = val(seed + 6)
        for j in range(n):
            for _ in range(5):
                y, x = int(g.integers(0, h)), int(g.integers(0, w))
                if not free[y, x]:
                    continue
                if mode == "F16x3" and _ % 2:
                    a[y, x, int(g.integers(0, 3))] = val(j)
                else:
                    a[y, x] = val(j)
        for j, (y, x) in enumerate(((0, 0), (0, w - 1), (h - 1, 0), (h - 1, w - 1))):
            if free[y, x]:
                a[y, x] = val(seed + 7 + j)
    return a


def make_image(mode, w, h, seed, holes=None, edge=None):
    """A seeded image. Without `holes` every pixel is defined (no NaN, alpha >= 1, integers non-zero);
    edge = (gx0, gy0) lays values at the edge of the type's meaning (all of them defined pixels) on the tile grid;
    holes = (gx0, gy0) punches undefined regions aligned with the tile grid (float modes and RGBA)."""
    import numpy as np
    if holes is not None:
        return punch_holes(make_image(mode, w, h, seed, edge=edge), mode, holes[0], holes[1], seed)
    if edge is not None:
        return lay_edges(make_image(mode, w, h, seed), mode, edge[0], edge[1], seed)
    g = np.random.default_rng(seed)
    if mode == "F16x3":
        return (g.normal(size=(h, w, 3)) * 8).astype(np.float16)
    if mode == "RGB":
        return g.integers(0, 256, (h, w, 3), dtype=np.uint8)
    if mode == "RGBA":
        a = g.integers(0, 256, (h, w, 4), dtype=np.uint8)
        a[..., 3] = g.integers(1, 256, (h, w), dtype=np.uint8)
        return a
    if mode == "F32":
        return (g.normal(size=(h, w)) * 1e3).astype(np.float32)
    if mode == "F64":
        return g.normal(size=(h, w)) * 1e-3
    if mode == "U8":
        return g.integers(1, 256, (h, w), dtype=np.uint8)
    if mode == "I16":
        a = g.integers(-32768, 32767, (h, w), dtype=np.int16)
        a[a == 0] = 7
        return a
    if mode == "I32":
        a = g.integers(-2 ** 31, 2 ** 31 - 1, (h, w), dtype=np.int32)
        a[a == 0] = 7
        return a
    raise ValueError(mode)


def read_tile_file(path, fmt):
    """Independent readers (no toasty code)."""
    import numpy as np
    if fmt == "png":
        from PIL import Image as PILImage
        with PILImage.open(path) as im:
            im.load()
            return np.asarray(im)
    if fmt == "npy":
        return np.load(path)
    if fmt == "fits":
        from astropy.io import fits
        with fits.open(path) as hdul:
            return np.array(hdul[0].data)
    raise ValueError(fmt)


def wtml_template(outdir):
    """(url template, tile levels, file type) of the ImageSet in index_rel.wtml."""
    from xml.etree import ElementTree as etree
    root = etree.parse(os.path.join(outdir, "index_rel.wtml")).getroot()
    el = [e for e in root.iter("ImageSet")][0]
    return el.get("Url"), int(el.get("TileLevels")), el.get("FileType")


def reassemble(outdir, template, lev, fmt, mode):
    """Mosaic of the level-`lev` tiles in display orientation + mask of undefined pixels.
    Returns (mosaic, undefined, problems)."""
    import numpy as np
    side = 2 ** lev
    n = side * TS
    frow = np.asarray(T.filerow[PARITY[fmt]])       # display row r -> file row (TLC)
    colour = mode in ("RGB", "RGBA")
    planes = 4 if colour else (3 if mode == "F16x3" else 0)
    mosaic = None
    undefined = np.ones((n, n), dtype=bool)
    problems = []
    for ty in range(side):
        for tx in range(side):
            rel = template.replace("{1}", str(lev)).replace("{2}", str(tx)).replace("{3}", str(ty))
            path = os.path.join(outdir, rel)
            if not os.path.exists(path):
                continue
            arr = read_tile_file(path, fmt)
            want = (TS, TS, planes) if planes else (TS, TS)
            if arr.shape != want:
                problems.append("tile %s has shape %s, expected %s" % (rel, arr.shape, want))
                continue
            disp = arr[frow]                         # display row r is file row frow[r]
            if mosaic is None:           # a tile that is not stored reads as undefined: NaN / transparent black / 0
                mosaic = np.zeros((n, n, planes) if planes else (n, n), dtype=arr.dtype)
                if arr.dtype.kind == "f":
                    mosaic[...] = np.nan
            mosaic[ty * TS:(ty + 1) * TS, tx * TS:(tx + 1) * TS] = disp
            if colour:
                und = disp[..., 3] == 0
            elif arr.dtype.kind == "f":
                und = np.isnan(disp) if disp.ndim == 2 else np.isnan(disp).all(axis=2)
            else:
                und = disp == 0                      # integer modes: zero is the undefined value
            undefined[ty * TS:(ty + 1) * TS, tx * TS:(tx + 1) * TS] = und
    return mosaic, undefined, problems


def judge_mosaic(tag, case, mosaic, undefined, problems, img, gx0, gy0, mode):
    import numpy as np
    res = []
    h, w = img.shape[:2]
    for p in problems:
        res.append(("V", tag + ":tile-shape", p, case))
    if mosaic is None:
        res.append(("V", tag + ":inside", "no deepest-level tile was found for %s" % (case,), case))
        return res
    inside = mosaic[gy0:gy0 + h, gx0:gx0 + w]
    isfloat = img.dtype.kind == "f"
    ok_inside = inside.shape[:2] == (h, w)
    if ok_inside:
        if mode == "RGB":
            ok_inside = np.array_equal(inside[..., :3], img) and bool((inside[..., 3] == 255).all())
        else:       # exactly the image, including which pixels / channels are undefined
            ok_inside = (inside.shape == img.shape and inside.dtype.itemsize == img.dtype.itemsize and inside.dtype.kind == img.dtype.kind
                         and np.array_equal(inside, img, equal_nan=isfloat))
    if not ok_inside:
        where = ""
        if inside.shape[:2] == (h, w):
            cmpi = inside[..., :3] if mode == "RGB" else inside
            if cmpi.shape != img.shape:
                d = np.ones((h, w), dtype=bool)
            else:
                d = (cmpi != img)
                if isfloat:
                    d = d & ~(np.isnan(cmpi) & np.isnan(img))
                if d.ndim == 3:
                    d = d.any(axis=2)
            ys, xs = np.nonzero(d)
            if len(ys):
                where = " (first difference at image pixel x=%d y=%d; %d pixels differ)" % (xs[0], ys[0], len(ys))
                if cmpi.shape == img.shape:
                    where = where[:-1] + "; the image holds %s there, the tiles %s)" % (
                        np.array2string(np.asarray(img[ys[0], xs[0]])), np.array2string(np.asarray(cmpi[ys[0], xs[0]])))
        res.append(("V", tag + ":inside", "reassembled tiles of %s do not reproduce the image%s" % (case, where), case))
    elif isfloat and not np.array_equal(np.signbit(inside), np.signbit(img)):
        # equal as numbers (0.0 == -0.0; NaN is undefined whatever its sign): the sign bit is below what the property speaks of
        res.append(("D", tag + ":sign-bit", "tiles of %s equal the image as numbers but the sign bit of a zero / NaN differs" % (case,), case))
    out = undefined.copy()
    out[gy0:gy0 + h, gx0:gx0 + w] = True
    if not out.all():
        ys, xs = np.nonzero(~out)
        res.append(("V", tag + ":outside", "%d pixels outside the image are defined in the tiles of %s (first at global x=%d y=%d)"
                    % (len(ys), case, xs[0], ys[0]), case))
    return res


IMAGE_FLAVOURS = ("default", "png", "npy", "fits", "file:png", "file:npy", "file:fits")


def _mkimage(arr, flavour, workdir):
    """The input Image with its default_format set the way the library sets it:
    "default"  Image.from_array(arr)                      (class default)
    png|npy|fits  Image.from_array(arr, default_format=..)
    file:X     ImageLoader().load_path() on a file of type X holding the array
    The image's default format is independent of the pyramid's: tiles are stored in the PYRAMID's format."""
    import numpy as np
    from toasty.image import Image, ImageLoader
    if flavour == "default":
        return Image.from_array(arr)
    if not flavour.startswith("file:"):
        return Image.from_array(arr, default_format=flavour)
    ext = flavour[5:]
    src = os.path.join(workdir, "source." + ext)
    if ext == "png":
        from PIL import Image as PILImage
        PILImage.fromarray(arr).save(src)
    elif ext == "npy":
        np.save(src, arr)
    else:
        from astropy.io import fits
        fits.writeto(src, arr, overwrite=True)
    return ImageLoader().load_path(src)


def reassembly_case(args):
    """One real end-to-end tiling. kind: lib | builder | cli | sub."""
    repo.setup()
    import contextlib
    import io
    import shutil
    import tempfile
    import numpy as np
    kind, mode, fmt, dims, seed, scratch, flavour, holes = args
    # image content: False plain | True undefined regions | "edge" values at the edge of the type's meaning | "edge+holes" both
    case = {"path": kind, "mode": mode, "format": fmt, "dims": list(dims), "seed": seed, "image_format": flavour, "holes": holes}
    edge = holes in ("edge", "edge+holes")
    holes = holes in (True, "edge+holes")
    res = []
    d = tempfile.mkdtemp(prefix="c08-", dir=scratch)
    sink = io.StringIO()
    try:
        from toasty.pyramid import PyramidIO
        from toasty.study import StudyTiling, tile_study_image
        from toasty.builder import Builder
        if kind == "retile":
            return retile_case(case, mode, fmt, dims, seed, flavour, d, sink), case
        if kind == "modes":
            return modes_case(case, fmt, dims, seed, d, sink), case
        if kind == "imgobj":
            return imgobj_case(case, mode, dims, seed, d, sink), case
        if kind == "thumb":
            return thumb_case(case, mode, dims, seed, d, sink), case
        if kind == "sub":
            W, H, ix, iy, sw, sh = dims
            prow = T.pair[(W, H)]
            p2, lev = prow[0], prow[1]
            gx0 = T.subaxis[(p2, W, ix, sw)][0]
            gy0 = T.subaxis[(p2, H, iy, sh)][0]
            parent = make_image(mode, W, H, seed, holes=(prow[2], prow[3]) if holes else None, edge=(prow[2], prow[3]) if edge else None)
            img = np.ascontiguousarray(parent[iy:iy + sh, ix:ix + sw])
            if edge:                            # ... and on the sub-image's own position in the grid
                img = lay_edges(img, mode, gx0, gy0, seed + 1)
        else:
            w, h = dims
            p2, lev, gx0, gy0, _cnt = T.pair[(w, h)]
            img = make_image(mode, w, h, seed, holes=(gx0, gy0) if holes else None, edge=(gx0, gy0) if edge else None)
        out = os.path.join(d, "out")
        with contextlib.redirect_stdout(sink), contextlib.redirect_stderr(sink):
            try:
                if kind != "cli":
                    source = _mkimage(img.copy(), flavour, d)
                    img = np.array(source.asarray())          # what the library was handed, in display orientation
                if kind == "lib":
                    pio = PyramidIO(out, default_format=fmt)
                    if seed % 3 == 0:           # a tiling object that was transported before it is used
                        case["transport"] = TRANSPORTS[seed % len(TRANSPORTS)]
                        transport(StudyTiling(img.shape[1], img.shape[0]), case["transport"]).tile_image(source, pio)
                    else:
                        tile_study_image(source, pio)
                    template = pio.get_path_scheme() + "." + fmt
                    olev = lev
                elif kind == "sub":
                    pio = PyramidIO(out, default_format=fmt)
                    ptiling = StudyTiling(W, H)
                    if seed % 2 == 0:
                        # history: the parent object tiles the whole parent image first (this also asks it for its
                        # count and rectangles), then the sub-image tiling is derived from the same object
                        pout = os.path.join(d, "parent")
                        ppio = PyramidIO(pout, default_format=fmt)
                        ptiling.tile_image(_mkimage(parent.copy(), flavour, d), ppio)
                        pm, pu, pp = reassemble(pout, ppio.get_path_scheme() + "." + fmt, lev, fmt, mode)
                        res.extend(judge_mosaic("reassembly:lib", dict(case, history="parent image tiled on the object that later derives the sub-image"),
                                                pm, pu, pp, parent, prow[2], prow[3], mode))
                    st = ptiling.compute_for_subimage(ix, iy, sw, sh)
                    if seed % 3 != 1:           # two of three sub-image tilings are transported before they tile
                        case["transport"] = TRANSPORTS[seed % len(TRANSPORTS)]
                        st = transport(st, case["transport"])
                    st.tile_image(source, pio)
                    n_sub, n_rects = st.count_populated_positions(), len(list(st.generate_populated_positions()))
                    n_tlc = T.subaxis[(p2, W, ix, sw)][1] * T.subaxis[(p2, H, iy, sh)][1]
                    if not (n_sub == n_rects == n_tlc):
                        res.append(("V", "subimage:count", "sub-tiling of %s reports count %d, generates %d rectangles, closed form %d"
                                    % (case, n_sub, n_rects, n_tlc), case))
                    if ptiling.count_populated_positions() != prow[4]:
                        res.append(("V", "study:count", "after deriving a sub-image the parent of %s reports count %d, closed form %d"
                                    % (case, ptiling.count_populated_positions(), prow[4]), case))
                    template = pio.get_path_scheme() + "." + fmt
                    olev = lev
                elif kind == "builder":
                    pio = PyramidIO(out, default_format=fmt)
                    b = Builder(pio)
                    b.tile_base_as_study(source)
                    b.default_tiled_study_astrometry()
                    b.write_index_rel_wtml()
                    template, olev, _ft = wtml_template(out)
                elif kind == "cli":
                    from toasty import cli
                    src = os.path.join(d, "input." + fmt)
                    if fmt == "png":
                        from PIL import Image as PILImage
                        PILImage.fromarray(img).save(src)
                        shown = img
                    elif fmt == "npy":
                        np.save(src, img)
                        shown = img
                    else:
                        # a FITS file stores the bottom display row first: the image as displayed is the array upside down
                        from astropy.io import fits
                        hdr = fits.Header()
                        hdr["CTYPE1"], hdr["CTYPE2"] = "RA---TAN", "DEC--TAN"
                        hdr["CRVAL1"], hdr["CRVAL2"] = 30.0, 10.0
                        hdr["CRPIX1"], hdr["CRPIX2"] = (img.shape[1] + 1) / 2.0, (img.shape[0] + 1) / 2.0
                        hdr["CDELT1"], hdr["CDELT2"] = -1e-4, 1e-4
                        fits.writeto(src, img[::-1], header=hdr, overwrite=True)
                        shown = img
                    try:
                        cli.entrypoint(["tile-study", "--placeholder-thumbnail", "--outdir", out, src])
                    except SystemExit as e:
                        if e.code not in (0, None):
                            raise RuntimeError("tile-study exited with %r: %s" % (e.code, sink.getvalue()[-300:]))
                    img = shown
                    template, olev, _ft = wtml_template(out)
                else:
                    raise ValueError(kind)
            except Exception as e:  # noqa
                import traceback
                res.append(("V", "reassembly:%s:raises" % kind, "tiling %s raised %r (%s)" % (case, e, traceback.format_exc().strip().splitlines()[-3:]), case))
                return res, case
        if olev != lev:
            res.append(("V", "reassembly:%s:padded-size" % kind, "WTML TileLevels = %d for %s; the smallest power-of-two square %d has depth %d"
                        % (olev, case, p2, lev), case))
        mosaic, undefined, problems = reassemble(out, template, lev, fmt, mode)
        res.extend(judge_mosaic("reassembly:%s" % kind, case, mosaic, undefined, problems, img, gx0, gy0, mode))
        return res, case
    finally:
        shutil.rmtree(d, ignore_errors=True)


ALL_MODES = ("U8", "I16", "I32", "F32", "F64", "RGB", "RGBA", "F16x3")
SCALAR_MODES = ("U8", "I16", "I32", "F32", "F64")


def modes_case(case, fmt, dims, seed, d, sink):
    """Object history over image modes (spec: ModeHistoriesOK): ONE StudyTiling object (prepared once through
    Builder.prepare_study_tiling or constructed directly) tiles same-size images of several modes one after the other,
    each into its own directory; every result is read back and must equal its image exactly - dtype and values."""
    import contextlib
    import random
    from toasty.pyramid import PyramidIO
    from toasty.study import StudyTiling
    from toasty.builder import Builder
    res = []
    w, h = dims
    p2, lev, gx0, gy0, _cnt = T.pair[(w, h)]
    modes = list(SCALAR_MODES if fmt == "fits" else ALL_MODES)
    variant = seed % 4
    if variant == 0:
        pass                                    # narrow -> wide
    elif variant == 1:
        modes.reverse()                         # wide -> narrow
    else:
        random.Random(seed).shuffle(modes)
    tiling = None
    for step, mode in enumerate(modes):
        scase = dict(case, step=step, order=modes, mode=mode, content="edge" if variant % 2 else "plain")
        # every other history tiles images holding values at the edge of each mode's meaning
        img = make_image(mode, w, h, seed + 17 * step, edge=(gx0, gy0) if variant % 2 else None)
        out = os.path.join(d, "out%d" % step)
        with contextlib.redirect_stdout(sink), contextlib.redirect_stderr(sink):
            try:
                source = _mkimage(img.copy(), fmt, d)
                pio = PyramidIO(out, default_format=fmt)
                if (seed // 4) % 2:
                    b = Builder(pio)
                    t2 = b.prepare_study_tiling(source)
                    if tiling is None:
                        tiling = t2                 # the tiling prepared first is reused for every later image
                    b.execute_study_tiling(source, tiling)
                else:
                    if tiling is None:
                        tiling = StudyTiling(w, h)
                    tiling.tile_image(source, pio)
                template = pio.get_path_scheme() + "." + fmt
            except Exception as e:  # noqa
                res.append(("V", "reassembly:modes:raises", "tiling step %d of %s raised %r" % (step, scase, e), scase))
                continue
        mosaic, undefined, problems = reassemble(out, template, lev, fmt, mode)
        res.extend(judge_mosaic("reassembly:modes", scase, mosaic, undefined, problems, img, gx0, gy0, mode))
    return res


IMGOBJ_ORDERS = (("fits", "npy", "fits", "fits", "npy"), ("npy", "fits", "npy"), ("fits", "fits", "npy", "fits"),
                 ("png", "npy", "png"), ("fits", "npy"), ("npy", "npy", "fits", "npy"))


def imgobj_case(case, mode, dims, seed, d, sink):
    """Object history over the IMAGE (spec: ImageHistoriesOK): ONE Image object is tiled several times, into pyramids of
    different formats / parities, in a seeded order (tile_study_image, Builder, or a prepared tiling); every tiling is read
    back and must reproduce the image the caller built.  A changed source image is recorded as drift (the property
    speaks about the tiles), the wrong tiling that follows from it is the violation."""
    import contextlib
    import numpy as np
    from toasty.pyramid import PyramidIO
    from toasty.study import StudyTiling, tile_study_image
    from toasty.builder import Builder
    from toasty.image import Image
    res = []
    w, h = dims
    p2, lev, gx0, gy0, _cnt = T.pair[(w, h)]
    colour = mode in ("RGB", "RGBA")
    orders = [o for o in IMGOBJ_ORDERS if ("png" in o) == colour and not (colour and "fits" in o)]
    order = orders[seed % len(orders)]
    arr = make_image(mode, w, h, seed)
    original = arr.copy()
    source = Image.from_array(arr, default_format=order[0]) if seed % 2 else Image.from_array(arr)
    changed = False
    for step, fmt in enumerate(order):
        scase = dict(case, step=step, order=list(order), format=fmt)
        out = os.path.join(d, "out%d" % step)
        with contextlib.redirect_stdout(sink), contextlib.redirect_stderr(sink):
            try:
                pio = PyramidIO(out, default_format=fmt)
                if (seed + step) % 3 == 0:
                    b = Builder(pio)
                    b.tile_base_as_study(source)
                elif (seed + step) % 3 == 1:
                    tile_study_image(source, pio)
                else:
                    StudyTiling(w, h).tile_image(source, pio)
                template = pio.get_path_scheme() + "." + fmt
            except Exception as e:  # noqa
                res.append(("V", "reassembly:imgobj:raises", "tiling step %d of %s raised %r" % (step, scase, e), scase))
                continue
        mosaic, undefined, problems = reassemble(out, template, lev, fmt, mode)
        res.extend(judge_mosaic("reassembly:imgobj", scase, mosaic, undefined, problems, original, gx0, gy0, mode))
        if not changed and not np.array_equal(np.asarray(source.asarray()), original):
            changed = True
            res.append(("D", "reassembly:imgobj:source", "tile_image changed the caller's Image object (step %d of %s)" % (step, scase), scase))
    return res


def thumb_case(case, mode, dims, seed, d, sink):
    """Workflows that make a thumbnail from the image before tiling it (Builder.make_thumbnail_from_other +
    tile_base_as_study, and the tile-study CLI without --placeholder-thumbnail) on PIL-backed images, including
    sizes whose aspect equals the thumbnail's 96:45: the tiles must still reproduce the image."""
    import contextlib
    from PIL import Image as PILImage
    from toasty.pyramid import PyramidIO
    from toasty.builder import Builder
    from toasty.image import Image
    res = []
    w, h = dims
    p2, lev, gx0, gy0, _cnt = T.pair[(w, h)]
    arr = make_image(mode, w, h, seed)
    out = os.path.join(d, "out")
    with contextlib.redirect_stdout(sink), contextlib.redirect_stderr(sink):
        try:
            if seed % 2:
                from toasty import cli
                src = os.path.join(d, "input.png")
                PILImage.fromarray(arr).save(src)
                case["workflow"] = "tile-study CLI with a real thumbnail"
                try:
                    cli.entrypoint(["tile-study", "--outdir", out, src])
                except SystemExit as e:
                    if e.code not in (0, None):
                        raise RuntimeError("tile-study exited with %r: %s" % (e.code, sink.getvalue()[-300:]))
            else:
                case["workflow"] = "Builder.make_thumbnail_from_other + tile_base_as_study"
                img = Image.from_pil(PILImage.fromarray(arr))
                b = Builder(PyramidIO(out, default_format="png"))
                b.make_thumbnail_from_other(img)
                b.tile_base_as_study(img)
                b.default_tiled_study_astrometry()
                b.write_index_rel_wtml()
            template, olev, _ft = wtml_template(out)
        except Exception as e:  # noqa
            res.append(("V", "reassembly:thumb:raises", "%s raised %r" % (case, e), case))
            return res
    if olev != lev:
        res.append(("V", "reassembly:thumb:padded-size", "WTML TileLevels = %d for %s; depth of the smallest square is %d" % (olev, case, lev), case))
    mosaic, undefined, problems = reassemble(out, template, lev, "png", mode)
    res.extend(judge_mosaic("reassembly:thumb", case, mosaic, undefined, problems, arr, gx0, gy0, mode))
    return res


RETILE_PLANS = (("full", "holes", "full"), ("holes", "full", "holes"), ("full", "holes", "holes"), ("holes", "holes", "full"))


def retile_case(case, mode, fmt, dims, seed, flavour, d, sink):
    """Directory history (spec: RetileOK): several images of ONE layout are tiled one after the other into the same
    directory - fully defined ones and ones whose undefined regions cover whole tiles, partial tiles, single planes -
    and after EVERY tiling the tiles on disk, reassembled, must show the image tiled last (TLC's offsets / file rows).
    dims = (w, h): full images through tile_study_image / Builder; (W, H, ix, iy, sw, sh): a sub-image slot of a larger tiling."""
    import contextlib
    import numpy as np
    from toasty.pyramid import PyramidIO
    from toasty.study import StudyTiling, tile_study_image
    from toasty.builder import Builder
    res = []
    sub = len(dims) == 6
    if sub:
        W, H, ix, iy, sw, sh = dims
        prow = T.pair[(W, H)]
        p2, lev = prow[0], prow[1]
        gx0, gy0 = T.subaxis[(p2, W, ix, sw)][0], T.subaxis[(p2, H, iy, sh)][0]
        pg = (prow[2], prow[3])
    else:
        w, h = dims
        p2, lev, gx0, gy0, _cnt = T.pair[(w, h)]
    out = os.path.join(d, "out")
    plan = RETILE_PLANS[seed % len(RETILE_PLANS)]
    tiling_obj = StudyTiling(W, H) if sub else None
    for step, what in enumerate(plan):
        scase = dict(case, step=step, plan=list(plan))
        holes = what == "holes"
        if sub:
            parent = make_image(mode, W, H, seed + 31 * step, holes=pg if holes else None)
            img = np.ascontiguousarray(parent[iy:iy + sh, ix:ix + sw])
        else:
            img = make_image(mode, w, h, seed + 31 * step, holes=(gx0, gy0) if holes else None)
        with contextlib.redirect_stdout(sink), contextlib.redirect_stderr(sink):
            try:
                source = _mkimage(img.copy(), flavour, d)
                img = np.array(source.asarray())
                pio = PyramidIO(out, default_format=fmt)
                if sub:
                    tiling_obj.compute_for_subimage(ix, iy, sw, sh).tile_image(source, pio)
                    template = pio.get_path_scheme() + "." + fmt
                elif (seed + step) % 2:
                    b = Builder(pio)
                    b.tile_base_as_study(source)
                    b.default_tiled_study_astrometry()
                    b.write_index_rel_wtml()
                    template, olev, _ft = wtml_template(out)
                    if olev != lev:
                        res.append(("V", "reassembly:retile:padded-size", "WTML TileLevels = %d for %s; depth of the smallest square is %d"
                                    % (olev, scase, lev), scase))
                else:
                    tile_study_image(source, pio)
                    template = pio.get_path_scheme() + "." + fmt
            except Exception as e:  # noqa
                res.append(("V", "reassembly:retile:raises", "tiling step %d of %s raised %r" % (step, scase, e), scase))
                return res
        mosaic, undefined, problems = reassemble(out, template, lev, fmt, mode)
        res.extend(judge_mosaic("reassembly:retile", scase, mosaic, undefined, problems, img, gx0, gy0, mode))
    return res


# ------------------------------------------------------------------------------------------------

def run(ctx):
    repo.setup(ctx)
    import multiprocessing as mp
    import toasty.study  # noqa  (imported before forking the pools)
    import time
    phases, t_ = {}, [time.time()]

    def phase(name):
        phases[name] = round(time.time() - t_[0], 1)
        t_[0] = time.time()
    rng = ctx.rng
    quick = ctx.quick
    crit = CRIT_QUICK if quick else CRIT_QUICK + CRIT_MORE
    maxlen = 1100 if quick else 4200
    ctx.rule = ("TLC explores SpecImage (small TS: every image to a bound and every sub-image) and SpecAxis (TS=256: every axis length to "
                "a bound under every padded size, sub-axes at image ends / tile boundaries) with the property's sentences as invariants, and "
                "emits per-axis segment tables, size-pair rows, full rectangle lists and file-row tables. The real StudyTiling is compared with "
                "them for every pair critical x (1..bound) in both orders, sampled sub-images and sizes beyond the bound (arguments and indexes "
                "also as NumPy integers of every fitting width); real tilings - of ordinary values, undefined regions and the defined value "
                "classes at the edge of each type's meaning - are read back from disk and reassembled. distinct = distinct (w, h) / sub-image / reassembly case; non-trivial = at least one tile")
    # --replay FILE: re-run only the case recorded in a counterexample file (the TLC side runs as usual)
    only = None
    if ctx.replay_path:
        rec = json.load(open(ctx.replay_path))
        only = (rec.get("replay") or {}).get("case")
        if not isinstance(only, dict):
            ctx.machinery("replay file %s carries no case" % ctx.replay_path)
        ctx.note("replayed_case", only)
    # ---- sizes for the end-to-end part and for the directly evaluated 2-D tables
    sizes_q = [(1, 1), (256, 256), (257, 255), (255, 257), (300, 513), (513, 2), (1025, 258)]
    sizes_t = sizes_q + [(512, 512), (511, 1024), (2, 1025), (1023, 1), (514, 513), (1100, 700), (256, 257)]
    sizes = sizes_q if quick else sizes_t
    extra = sorted(set(sizes) | {(512, 512), (700, 600), (300, 513), (1025, 258), (768, 1024), (257, 255),
                                 (640, 300), (96, 45), (320, 150)})
    full2d = [(w, h) for w in crit for h in crit]
    big_l = [4095, 4096, 4097, 8191, 8193, 16385, 20000, 32769, 65537]
    big = [(a, b) for a in big_l for b in (1, 300, 1025)] + [(b, a) for a in big_l for b in (1, 300, 1025)]
    big += [(4097, 4096), (8193, 8191), (5000, 7000)] + ([(12000, 9000), (16385, 16383)] if not quick else [])

    # ---- TLC: 2-D model(s), axis model, sanity of the slice theorem -- run side by side, <= 8 workers in total
    img_bounds = [(4, 8, 8), (2, 7, 7)] if quick else [(4, 13, 13), (4, 20, 6), (4, 6, 20), (2, 9, 9), (8, 11, 11)]
    sublens = tla.lit(set(crit)) if quick else "(1..1100) \\cup " + tla.lit(set(crit))
    jobs = []
    for (ts, mw, mh) in img_bounds:
        jobs.append(("img", dict(module="MCImg", extra={"MCImg.tla": mc_img()}, cfg_text=IMG_CFG % (ts, mw, mh),
                                 workers=3 if quick else 4, timeout=7200)))
    jobs.append(("axis", dict(module="MCAxis", extra={"MCAxis.tla": mc_axis(sublens, crit)}, cfg_text=AX_CFG % maxlen,
                              workers=3 if quick else 4, timeout=7200)))
    jobs.append(("naive", dict(module="MCNaive", extra={"MCNaive.tla": mc_naive(5 if quick else 7)}, cfg_text=NAIVE_CFG, workers=1, timeout=600,
                               expect_violation=True, count=False)))

    def run_job(job):
        name, kw = job
        kw = dict(kw)
        module = kw.pop("module")
        return name, ctx.tlc(module, **kw)
    jobs.sort(key=lambda j: 0 if j[0] == "axis" else 1)
    with ThreadPoolExecutor(3 if quick else 2) as ex:
        results = list(ex.map(run_job, jobs))
    axis_run = [r for n, r in results if n == "axis"][0]
    naive = [r for n, r in results if n == "naive"][0]
    if naive.violated != "NaiveRows":
        ctx.machinery("the row-slice theorem does not reject the slice without the `-1 -> None` case (TLC said %r)" % (naive.violated,))
    ctx.note("image_models", [{"TS": b[0], "MaxW": b[1], "MaxH": b[2]} for b in img_bounds])
    ctx.note("axis_model", {"TS": 256, "MaxLen": maxlen, "sub_axes_of_lengths": "critical" if quick else "1..1100 + critical"})
    for rec in axis_run.json_lines("A"):
        T.axis[(rec["p2"], rec["len"])] = (rec["g0"], rec["n"], [tuple(s) for s in rec["segs"]])
        T.own[rec["len"]] = rec["own"]
    for rec in axis_run.json_lines("S"):
        T.subaxis[(rec["p2"], rec["plen"], rec["off"], rec["len"])] = (rec["g0"], rec["n"], [tuple(s) for s in rec["segs"]])
    if len(T.own) != maxlen or not T.subaxis:
        ctx.machinery("axis tables incomplete: %d lengths, %d sub-axes" % (len(T.own), len(T.subaxis)))

    phase("tlc_models")
    # ---- sub-image cases drawn from the emitted sub-axis tables (offsets at image ends / tile boundaries)
    by_parent = {}
    for (p2, plen, off, ln) in T.subaxis:
        by_parent.setdefault((p2, plen), []).append((off, ln))
    for k in by_parent:
        by_parent[k].sort()
    sub_cases = []
    per_pair = 40 if quick else 400
    for W in crit:
        for H in crit:
            p2 = max(T.own[W], T.own[H])
            xs, ys = by_parent.get((p2, W)), by_parent.get((p2, H))
            if not xs or not ys:
                continue
            for _ in range(per_pair):
                ox, lx = rng.choice(xs)
                oy, ly = rng.choice(ys)
                sub_cases.append((W, H, ox, oy, lx, ly))
    sub_cases = sorted(set(sub_cases))
    # sub-images of sub-images, where the first sub-image has a critical size (so that TLC's tables cover it as a parent)
    cset = set(crit)
    for q in sub_cases:
        if q[4] in cset and q[5] in cset and q[4] * q[5] > 1:
            p2n = max(T.own[q[4]], T.own[q[5]])
            xs, ys = by_parent.get((p2n, q[4])), by_parent.get((p2n, q[5]))
            if xs and ys:
                ox, lx = rng.choice(xs)
                oy, ly = rng.choice(ys)
                T.nested[q] = (ox, oy, lx, ly)
    sub2d = [sub_cases[i] for i in sorted(rng.sample(range(len(sub_cases)), min(len(sub_cases), 80 if quick else 600)))]

    # ---- TLC: the pair rows, full rectangle lists, file-row tables (constant evaluation of the same operators)
    outp = os.path.join(ctx.scratch, "tables.json")
    # sizes 2^k + d over the whole range the library accepts (TLC: symbolic in k, see SymAgrees): <<kw, dw, kh, dh>>
    kmax = 44 if quick else 46
    huge = []
    for k in range(8, kmax + 1):
        for dd in (-1, 0, 1):
            huge += [(k, dd, 0, 0), (0, 0, k, dd), (k, dd, k, -dd), (k, dd, max(k - 3, 0), 1), (max(k - 1, 0), 0, k, dd)]
            if not quick:
                huge += [(k, dd, 9, 1), (10, -1, k, dd), (k, dd, k, dd)]
    huge = sorted(set(huge))
    # sub-images of tilings wide enough that "global offset + sub-image offset" leaves the 8- and 16-bit integer ranges
    bigsub = [(40000, 100, 30000, 0, 100, 50), (40000, 100, 200, 10, 300, 60), (66000, 10, 40000, 2, 700, 5),
              (65537, 300, 32768, 100, 513, 2), (20000, 1025, 127, 128, 255, 256), (1025, 32769, 3, 32767, 1000, 2),
              (300, 300, 100, 100, 100, 100), (300, 513, 200, 255, 100, 258), (16385, 1, 16000, 0, 385, 1)]
    if not quick:
        bigsub += [(40000, 33000, 30000, 30000, 257, 300), (8193, 8191, 127, 8000, 8000, 129), (32769, 300, 32767, 45, 2, 255),
                   (65537, 1025, 65535, 1000, 2, 25), (4097, 4096, 255, 256, 3000, 3000)]
    ctx.tlc("MCTables", extra={"MCTables.tla": mc_tables(crit, maxlen, extra, full2d, sub2d, big, huge, bigsub)}, cfg_text=TAB_CFG,
            env={"OUT": outp}, workers=1, timeout=3600, count=False)
    tab = json.load(open(outp))
    phase("tlc_tables")
    for i, cw in enumerate(crit):
        for j in range(maxlen):
            T.pair[(cw, j + 1)] = tuple(tab["wh"][i][j])
            T.pair[(j + 1, cw)] = tuple(tab["hw"][i][j])
    for p, row in zip(extra, tab["extra"]):
        T.pair[tuple(p)] = tuple(row)
    T.filerow = {k: list(v) for k, v in tab["filerow"].items()}
    T.values = {kind: {c: bool(d) for c, d in v.items()} for kind, v in tab["values"].items()}
    if set(T.values) != set(MODE_KIND.values()) or not all(any(v.values()) for v in T.values.values()):
        ctx.machinery("value-class table incomplete: %r" % (T.values,))
    ctx.note("value_classes", {k: sorted(c for c, d in v.items() if d and c != "ordinary") for k, v in T.values.items()})
    if sorted(T.filerow["topdown"]) != list(range(TS)) or sorted(T.filerow["bottomup"]) != list(range(TS)):
        ctx.machinery("file-row tables are not permutations of 0..255")
    # the harness' cross product must be the spec's Rects: checked on every directly evaluated 2-D case
    for (w, h), rec in zip(full2d, tab["full"]):
        row = tuple(rec["row"])
        if row != T.pair[(w, h)] or [tuple(r) for r in rec["rects"]] != compose(row[1], T.axis[(row[0], w)][2], T.axis[(row[0], h)][2]):
            ctx.machinery("harness composition of axis tables differs from the spec's Rects for %s" % ((w, h),))
    for q, rec in zip(sub2d, tab["sub"]):
        W, H, ix, iy, sw, sh = q
        p2 = T.pair[(W, H)][0]
        ax, ay = T.subaxis[(p2, W, ix, sw)], T.subaxis[(p2, H, iy, sh)]
        if tuple(rec["row"]) != (p2, T.pair[(W, H)][1], ax[0], ay[0], ax[1] * ay[1]) or \
                [tuple(r) for r in rec["rects"]] != compose(rec["row"][1], ax[2], ay[2]):
            ctx.machinery("harness composition of sub-axis tables differs from the spec's Rects for %s" % (q,))

    # ---- replay 1: geometry of full images, critical x all in both orders
    pairs = sorted(set([(cw, n) for cw in crit for n in range(1, maxlen + 1)] + [(n, cw) for cw in crit for n in range(1, maxlen + 1)]
                       + list(extra)))
    all_sub_cases = sub_cases
    if only is not None:
        pairs = [p for p in pairs if only.get("w") == p[0] and only.get("h") == p[1] and "path" not in only]
        # a sub-image case is replayed with the whole history on its parent size
        sub_cases = [q for q in sub_cases if "path" not in only and "ix" in only and (only.get("W"), only.get("H")) == q[:2]]
        if "history" in only and "ix" not in only and "W" in only:
            sub_cases = [q for q in all_sub_cases if (only["W"], only["H"]) == q[:2]]
    chunks = [pairs[i::48] for i in range(48)]
    sgroups = {}
    for q in sub_cases:
        sgroups.setdefault(q[:2], []).append(q)
    for k in sgroups:                                     # a seeded order of derivation per parent
        rng.shuffle(sgroups[k])
    sgl = sorted(sgroups.items())
    schunks = [sgl[i::24] for i in range(24)]
    nviol = [0]

    perkey = {}
    firstmsg = {}

    def report(items, counted):
        for sev, key, msg, case in items:
            if sev == "V" and key in (KEY_NPARGS, KEY_NPINDEX) and not REPR_FINDINGS_AS_VIOLATIONS:
                # open finding on the unchanged code (fixes/C08-numpy-integer-arguments.diff): shown as drift until the lead
                # has decided between the fix commit and a known: entry; then set REPR_FINDINGS_AS_VIOLATIONS = True
                perkey["(finding) " + key] = perkey.get("(finding) " + key, 0) + 1
                if perkey["(finding) " + key] <= 2:
                    ctx.drift("OPEN FINDING %s %s" % (key, msg))
                continue
            if sev == "V":
                nviol[0] += 1
                perkey[key] = perkey.get(key, 0) + 1
                firstmsg.setdefault(key, msg)
                # every failing case is counted; the first 100 per monitor are written out (5 for the representation monitors,
                # which fail on thousands of cases at once and must not crowd the other monitors out of the report)
                if perkey[key] <= (5 if key in (KEY_NPARGS, KEY_NPINDEX) else 100):
                    ctx.violation("C08:" + key, msg, {"case": case})
            elif sev == "D":
                ctx.drift("%s %s" % (key, msg))
            else:
                ctx.machinery(msg)
    fork = mp.get_context("fork")
    with fork.Pool(6) as pool:
        for items in pool.imap(geometry_chunk, chunks):
            report(items, None)
        ctx.count(len(pairs))
        ctx.trace_ok(len(pairs))
        for p in pairs:
            ctx.distinct(("full",) + p)
        phase("geometry_full")
        for items in pool.imap(sub_chunk, schunks):
            report(items, None)
        ctx.count(len(sub_cases))
        ctx.trace_ok(len(sub_cases))
        for q in sub_cases:
            ctx.distinct(("sub",) + q)

        phase("geometry_sub")
        # ---- replay 2: real end-to-end tilings read back from disk
        cases = []
        seed = ctx.seed % 100000
        for (mode, fmt) in MODE_FORMATS + ([("I32", "npy"), ("I32", "fits")] if not quick else []):
            for k, dims in enumerate(sizes):
                kind = "builder" if (k % 3 == 2) else "lib"
                cases.append((kind, mode, fmt, dims, seed + len(cases), ctx.scratch, fmt, False))
        for (mode, fmt, dims) in [("RGB", "png", (300, 513)), ("RGBA", "png", (257, 255)), ("F32", "npy", (513, 2)),
                                  ("F64", "fits", (300, 513)), ("F32", "fits", (255, 257)), ("I16", "fits", (256, 256))]:
            cases.append(("cli", mode, fmt, dims, seed + len(cases), ctx.scratch, "file:" + fmt, False))
        # sub-images placed inside a larger tiling
        subpool = [q for q in all_sub_cases if q[0] >= 255 and q[1] >= 255 and q[4] * q[5] > 1]
        nsub = 36 if quick else 400
        for k in range(nsub):
            q = subpool[rng.randrange(len(subpool))]
            mode, fmt = MODE_FORMATS[k % len(MODE_FORMATS)]
            cases.append(("sub", mode, fmt, q, seed + len(cases), ctx.scratch, fmt, False))
        # the image's own default format is independent of the pyramid's format (Python API): every image flavour the
        # mode allows x every pyramid format that can hold the mode; the tiles' parity is the PYRAMID format's
        xsizes = [(257, 255), (300, 513), (513, 2)] if quick else [(257, 255), (300, 513), (513, 2), (255, 257), (1025, 258), (256, 256)]
        nx = 0
        for (mode, fmt) in MODE_FORMATS:
            colour = mode in ("RGB", "RGBA")
            for flavour in IMAGE_FLAVOURS:
                if flavour == fmt:
                    continue                                   # already covered above
                if colour and flavour in ("fits", "file:fits", "file:npy"):
                    continue                                   # the library never produces these
                if not colour and flavour in ("png", "file:png"):
                    continue
                if mode == "F16x3" and flavour in ("fits", "file:fits"):
                    continue                                   # FITS has no half-float type
                for rep_ in range(1 if quick else 3):
                    dims = xsizes[nx % len(xsizes)]
                    kind = ("lib", "builder", "sub")[nx % 3]
                    nx += 1
                    if kind == "sub":
                        dims = subpool[rng.randrange(len(subpool))]
                    cases.append((kind, mode, fmt, dims, seed + len(cases), ctx.scratch, flavour, False))
        # images with undefined regions covering whole tiles, partial tiles, single planes (float modes, RGBA)
        hsizes = [(512, 512), (700, 600), (300, 513)] if quick else [(512, 512), (700, 600), (300, 513), (1025, 258), (768, 1024), (257, 255)]
        bigsubs = [q for q in subpool if q[4] >= 400 and q[5] >= 400] or subpool
        for (mode, fmt) in HOLE_MODE_FORMATS:
            for k, dims in enumerate(hsizes):
                kind = "builder" if (k % 3 == 1) else "lib"
                cases.append((kind, mode, fmt, dims, seed + len(cases), ctx.scratch, fmt, True))
            for rep_ in range(2 if quick else 8):
                q = bigsubs[rng.randrange(len(bigsubs))]
                cases.append(("sub", mode, fmt, q, seed + len(cases), ctx.scratch, fmt, True))
        # pixel values at the edge of the type's meaning (TLC: ValueClasses - the infinities, signed zeros, subnormals, largest
        # finite / integer values, black / white, alpha 1): every mode x lossless format, whole tiles of one class, rows and
        # columns crossing every tile, single pixels; also together with undefined regions, and through the CLI
        esizes = [(700, 600), (257, 255), (300, 513), (512, 512)] if quick else [(700, 600), (257, 255), (300, 513), (512, 512), (1025, 258), (768, 1024), (1, 1), (513, 2)]
        ne = 0
        for (mode, fmt) in MODE_FORMATS + ([("I32", "npy"), ("I32", "fits")] if not quick else []):
            for rep_ in range(1 if quick else 4):
                cases.append((("lib", "builder")[ne % 2], mode, fmt, esizes[ne % len(esizes)], seed + len(cases), ctx.scratch, fmt, "edge"))
                ne += 1
                q = bigsubs[rng.randrange(len(bigsubs))]
                cases.append(("sub", mode, fmt, q, seed + len(cases), ctx.scratch, fmt, "edge"))
        for k, (mode, fmt) in enumerate(HOLE_MODE_FORMATS):
            for rep_ in range(1 if quick else 3):
                cases.append((("builder", "lib")[(k + rep_) % 2], mode, fmt, hsizes[(k + rep_) % len(hsizes)], seed + len(cases), ctx.scratch, fmt, "edge+holes"))
        for (mode, fmt, dims) in [("F32", "fits", (300, 513)), ("F64", "fits", (257, 255)), ("F64", "npy", (513, 2)), ("I16", "fits", (257, 255)),
                                  ("RGBA", "png", (300, 513))]:
            cases.append(("cli", mode, fmt, dims, seed + len(cases), ctx.scratch, "file:" + fmt, "edge"))
        # directory histories: images of one layout tiled one after the other into ONE directory
        rsizes = [(512, 512), (700, 600)] if quick else [(512, 512), (700, 600), (300, 513), (768, 1024), (257, 255)]
        for (mode, fmt) in HOLE_MODE_FORMATS:
            for dims in rsizes:
                cases.append(("retile", mode, fmt, dims, seed + len(cases), ctx.scratch, fmt, True))
            for rep_ in range(1 if quick else 4):
                q = bigsubs[rng.randrange(len(bigsubs))]
                cases.append(("retile", mode, fmt, q, seed + len(cases), ctx.scratch, fmt, True))
        # object histories over image modes: one StudyTiling object, images of every mode in several orders
        for fmt in ("npy", "fits"):
            for k in range(4 if quick else 16):
                dims = [(300, 513), (257, 255), (513, 2), (256, 256)][k % 4]
                cases.append(("modes", "*", fmt, dims, (seed // 8) * 8 + 8 * len(cases) + k % 8, ctx.scratch, fmt, False))
        # object histories over the image: one Image object tiled several times into pyramids of different parities
        for k, mode in enumerate(("F32", "F64", "I16", "U8", "RGBA", "RGB", "F32", "I16") if quick else
                                 ("F32", "F64", "I16", "U8", "RGBA", "RGB", "I32", "F16x3") * 4):
            dims = [(300, 513), (257, 255), (513, 2), (256, 256)][k % 4]
            if mode == "F16x3":
                mode = "F64"
            cases.append(("imgobj", mode, "*", dims, seed + len(cases), ctx.scratch, "*", False))
        # a thumbnail is made from the image before it is tiled (PIL-backed images; 640x300 and 96x45 have the thumbnail's aspect)
        for k, dims in enumerate([(640, 300), (640, 300), (96, 45), (300, 513), (320, 150), (257, 255)]):
            cases.append(("thumb", ("RGB", "RGBA")[k % 2], "png", dims, 2 * (seed + len(cases)) + k % 2, ctx.scratch, "png", False))
        if only is not None:
            cases = [c for c in cases if "path" in only and [c[0], c[1], c[2], list(c[3]), c[4], c[6], c[7]] ==
                     [only["path"], only["mode"], only["format"], list(only["dims"]), only["seed"], only.get("image_format", c[2]),
                      only.get("holes", False)]]
        for (res, case) in pool.imap(reassembly_case, cases, chunksize=2):
            ctx.count()
            ctx.trace_ok()
            ctx.distinct(("io", case["path"], case["mode"], case["format"], case["image_format"], case["holes"]) + tuple(case["dims"]))
            report(res, None)
    ctx.note("reassembly_cases", len(cases))
    phase("reassembly")

    # ---- tilings of every kind sent to a worker PROCESS through a multiprocessing queue, or inherited across a fork,
    #      and observed there (as the parallel paths of the multi-image processors hand their descriptors to workers)
    from toasty.study import StudyTiling
    trip = []       # (tag, (w, h), object, key-tag, case, row, segsx, segsy)
    if only is None:
        for (w, h) in [(257, 255), (513, 2), (1025, 258), (1, 1), (512, 1024)]:
            row = T.pair.get((w, h))
            if row is not None and (row[0], w) in T.axis and (row[0], h) in T.axis:
                trip.append(("top %dx%d" % (w, h), (w, h), StudyTiling(w, h), "study", {"w": w, "h": h}, row, T.axis[(row[0], w)][2], T.axis[(row[0], h)][2]))
        step = max(1, len(all_sub_cases) // (24 if quick else 200))
        for q in all_sub_cases[::step] + sorted(T.nested)[:: max(1, len(T.nested) // (12 if quick else 100))]:
            W, H, ix, iy, sw, sh = q
            prow = T.pair[(W, H)]
            ax, ay = T.subaxis[(prow[0], W, ix, sw)], T.subaxis[(prow[0], H, iy, sh)]
            st = StudyTiling(W, H).compute_for_subimage(ix, iy, sw, sh)
            trip.append(("sub %s" % (q,), (sw, sh), st, "subimage", {"W": W, "H": H, "ix": ix, "iy": iy, "sw": sw, "sh": sh},
                         (prow[0], prow[1], ax[0], ay[0], ax[1] * ay[1]), ax[2], ay[2]))
            if q in T.nested:
                jx, jy, nw, nh = T.nested[q]
                n0 = T.pair[(sw, sh)]
                nax, nay = T.subaxis[(n0[0], sw, jx, nw)], T.subaxis[(n0[0], sh, jy, nh)]
                nrow = (n0[0], n0[1], nax[0], nay[0], nax[1] * nay[1])
                nst = st.compute_for_subimage(jx, jy, nw, nh)
                ncase = {"W": W, "H": H, "ix": ix, "iy": iy, "sw": sw, "sh": sh, "nested": [jx, jy, nw, nh]}
                if not compare_geometry("subimage", ncase, nst, nw, nh, nrow, nax[2], nay[2]):     # else: drift, reported above
                    trip.append(("nested %s %s" % (q, T.nested[q]), (nw, nh), nst, "subimage", ncase, nrow, nax[2], nay[2]))
    if trip:
        inq, outq = fork.Queue(), fork.Queue()
        inherited = [(it[0], it[1], it[2]) for it in trip[::3]]
        child = fork.Process(target=_child_observer, args=(inq, outq, inherited))
        child.start()
        sent = [it for k, it in enumerate(trip) if k % 3 != 0]
        for it in sent:
            inq.put((it[0], it[1], it[2]))
        inq.put(None)
        expect = {it[0]: it for it in trip}
        got = {}
        try:
            for _ in range(len(trip)):
                tag, obs = outq.get(timeout=120)
                got[tag] = obs
        except Exception as e:  # noqa
            child.terminate()
            ctx.machinery("the observer process did not answer: %r" % (e,))
        child.join(30)
        for k, it in enumerate(trip):
            tag, (w, h), _obj, ktag, case, row, sx, sy = it
            tcase = dict(case, transport="inherited across fork" if k % 3 == 0 else "multiprocessing queue to a worker process")
            report(compare_geometry(ktag, tcase, None, w, h, row, sx, sy, obs=got[tag]), None)
            ctx.count()
            ctx.trace_ok()
            ctx.distinct(("trip", tag, k % 3 == 0))
        ctx.note("process_trips", len(trip))
    if nviol[0]:
        ctx.note("failing_cases_per_monitor", dict(perkey))
        print("C08 failing cases per monitor (so far): %s" % (dict(perkey),))

    # ---- sampled beyond the exhaustive bound: TLC evaluated SegsOK / P2Minimal / Centred for these, the code must agree
    from toasty.study import StudyTiling
    for (w, h), rec in zip(big, tab["big"]):
        if only is not None and not ("path" not in only and only.get("w") == w and only.get("h") == h):
            continue
        row = tuple(rec["row"])
        st = StudyTiling(w, h)
        sx, sy = [tuple(s) for s in rec["sx"]], [tuple(s) for s in rec["sy"]]
        report(compare_geometry("study", {"w": w, "h": h}, st, w, h, row, sx, sy), None)
        # ... and asked with index arrays of narrow NumPy integer types (unsigned and signed)
        report(repr_slots(st, w, h, sx, sy, {"w": w, "h": h}, 0) + repr_slots(st, w, h, sx, sy, {"w": w, "h": h}, 1), None)
        ctx.count()
        ctx.trace_ok()
        ctx.distinct(("full", w, h))
    # ---- sub-images of wide tilings, their offsets / sizes as Python integers and as NumPy integers of every fitting kind
    for q, rec in zip(bigsub, tab["bigsub"]):
        W, H, ix, iy, sw, sh = q
        case = {"W": W, "H": H, "ix": ix, "iy": iy, "sw": sw, "sh": sh}
        if only is not None and not ("path" not in only and all(only.get(k) == v for k, v in case.items())):
            continue
        row, sx, sy = tuple(rec["row"]), [tuple(s) for s in rec["sx"]], [tuple(s) for s in rec["sy"]]
        parent = StudyTiling(W, H)
        try:
            st = parent.compute_for_subimage(ix, iy, sw, sh)
            report(compare_geometry("subimage", case, st, sw, sh, row, sx, sy), None)
            report(repr_slots(st, sw, sh, sx, sy, case, 0) + repr_slots(st, sw, sh, sx, sy, case, 1), None)
        except Exception as e:  # noqa
            report([("V", "subimage:raises", "compute_for_subimage%s on %dx%d raised %r" % ((ix, iy, sw, sh), W, H, e), case)], None)
        for variant in range(7):
            stn, how = subimage_with_np_args(parent, (ix, iy, sw, sh), variant)
            ncase = dict(case, args_as=how)
            if isinstance(stn, Exception):
                report([("V", KEY_NPARGS, "compute_for_subimage%s on %dx%d with the arguments as NumPy integers (%s) raised %r"
                         % ((ix, iy, sw, sh), W, H, how, stn), ncase)], None)
            else:
                report(coarse(quiet(compare_geometry, "subimage", ncase, stn, sw, sh, row, sx, sy), KEY_NPARGS, how), None)
            ctx.count()
            ctx.trace_ok()
        ctx.distinct(("sub",) + tuple(q))
    # ---- sizes across the whole integer range (2^k + d): TLC's symbolic tables, no image instantiated
    for q, rec in zip(huge, tab["huge"]):
        w, h = 2 ** q[0] + q[1], 2 ** q[2] + q[3]
        if only is not None and not ("path" not in only and only.get("w") == w and only.get("h") == h):
            continue
        report(compare_huge({"w": w, "h": h, "as": "2^%d%+d x 2^%d%+d" % q}, w, h, rec), None)
        ctx.count()
        ctx.trace_ok()
        ctx.distinct(("full", w, h))
    if perkey:
        print("C08 failing cases per monitor: %s" % (dict(perkey),))
        for k_, m_ in sorted(firstmsg.items()):
            print("  first [%s]: %s" % (k_, m_[:600]))
    ctx.note("symbolic_sizes", {"form": "2^k + d, d in -1..1", "k_max": kmax, "pairs": len(huge),
                                "SymAgrees_checked_by_TLC_for": "every pair with k <= 29"})
    # a few written-out cases for the evidence
    for (w, h) in [(257, 255), (513, 2), (1025, 258)]:
        row = T.pair[(w, h)]
        ctx.sample({"w": w, "h": h, "p2": row[0], "levels": row[1], "gx0": row[2], "gy0": row[3], "count": row[4],
                    "x_segments<tile,toff,ioff,len>": T.axis[(row[0], w)][2], "y_segments": T.axis[(row[0], h)][2]})
    if sub_cases:
        q = sub_cases[len(sub_cases) // 2]
        p2 = T.pair[(q[0], q[1])][0]
        ctx.sample({"sub_image": q, "x_segments": T.subaxis[(p2, q[0], q[2], q[4])][2], "y_segments": T.subaxis[(p2, q[1], q[3], q[5])][2]})
    phase("trips_big_huge")
    ctx.note("phase_wall_s", phases)
    if os.environ.get("C08_TIMING"):
        print("C08 phases (wall s): %s" % (phases,))
    ctx.exhaustive = False
    ctx.assume("integer image modes have no transparent/NaN value: 'undefined' is read as the value 0 there (toasty's documented mask value), "
               "and the test images of those modes contain no zero")
    ctx.assume("outside the punched undefined regions test images contain only defined pixels (no NaN, alpha >= 1; infinities, signed "
               "zeros and subnormals are defined pixels), so every populated tile is written; a tile file that is absent counts as all-undefined")
    ctx.assume("pixels are compared as numbers (+inf = +inf, 0.0 = -0.0): a differing sign bit of a zero is recorded as drift")
    ctx.assume("tile files are read with PIL / numpy.load / astropy.io.fits directly; png, npy are top-down and fits is bottom-up")
    ctx.assume("a sub-image tiling is derived from a full-image tiling (compute_for_subimage on the result of another "
               "compute_for_subimage is outside the property)")
