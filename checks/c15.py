"""C15 - undefined pixels stay undefined: mask semantics and tile persistence.

Spec: spec/Mask.tla (+ spec/MCMask.tla, the JSON emitters).  Two machines:

* BufSpec - one maskable buffer under Clear / Fill(indexers, source) / Update(indexers, source) for the five mode
  classes; TLC explores every call from every reachable buffer content of the 2x2 grid (and from a set of prior
  contents of the 2x3 grid) and checks, for every step, the sentences of C15 about buffers (EveryCallObeysC15).
* FileSpec - one tile position of one PyramidIO (png / npy / fits) under Write(mode, tile) / ReadNone / ReadMasked for
  the eight modes; TLC explores every call from every file state and checks the sentences about persistence.

Binding (spec -> code): TLC emits its complete transition tables (state, call, state after the call).  The harness
walks them as call sequences on real objects - real toasty Images of all eight modes (abstract values mapped to
concrete pixel values by a per-mode value map with several concrete representatives of "undefined"), real buffers from
make_maskable_buffer, a real PyramidIO in a temporary directory - and compares the projected real state with TLC's
state after every call.  All expected states come out of TLC.
"""
import argparse
import itertools
import math
import os
import pickle
import queue
import threading
import warnings

from lib import repo, tla

MODES = ["RGB", "RGBA", "F32", "F64", "F16x3", "U8", "I16", "I32"]
CLASS_OF = {"RGB": "RGB", "RGBA": "RGBA", "F32": "Float", "F64": "Float", "F16x3": "F16x3",
            "U8": "Int", "I16": "Int", "I32": "Int"}
NAN = float("nan")

# abstract value -> concrete pixel; "u" = the concrete representatives of UNDEFINED used when the harness builds an
# image (the projection accepts anything the mode class calls undefined)
VALUES = {
    # value 1 of the colour modes is pure black: a DEFINED colour (only alpha = 0 is undefined), like 0.0 for the floats
    "RGB": {"dtype": "u1", "ch": 3, 1: (0, 0, 0), 2: (200, 100, 50), "u": []},
    "RGBA": {"dtype": "u1", "ch": 4, 1: (0, 0, 0, 255), 2: (200, 100, 50, 1), "u": [(0, 0, 0, 0), (9, 8, 7, 0)]},
    # "alt2": further concrete representatives of abstract value 2 - infinities are DEFINED values (only NaN is undefined)
    "F32": {"dtype": "f4", "ch": 0, 1: (0.0,), 2: (3.5e10,), "u": [(NAN,)], "alt2": [(float("inf"),), (float("-inf"),)]},
    "F64": {"dtype": "f8", "ch": 0, 1: (0.0,), 2: (1.0000000000001e300,), "u": [(NAN,)], "alt2": [(float("inf"),), (float("-inf"),)]},
    "F16x3": {"dtype": "f2", "ch": 3, 1: (0.0, 0.5, 1.0), 2: (2.0, 4.0, 60000.0),
              "u": [(NAN, NAN, NAN), (1.0, NAN, 2.0), (NAN, 0.5, 0.5)]},
    "U8": {"dtype": "u1", "ch": 0, 1: (7,), 2: (200,), "u": [(0,)]},
    "I16": {"dtype": "i2", "ch": 0, 1: (300,), 2: (30000,), "u": [(0,)]},
    "I32": {"dtype": "i4", "ch": 0, 1: (70000,), 2: (2000000000,), "u": [(0,)]},
    # the maskable buffer of an RGB image: RGBA, a defined pixel is the opaque colour
    "RGB-buffer": {"dtype": "u1", "ch": 4, 1: (0, 0, 0, 255), 2: (200, 100, 50, 255), "u": [(0, 0, 0, 0), (9, 8, 7, 0)]},
}


class ValueMap(object):
    """Concretisation / projection between abstract tiles (tuples over 0..V, row-major) and numpy arrays."""

    def __init__(self, name):
        import numpy as np
        self.np = np
        self.name = name
        v = VALUES[name]
        self.dtype = np.dtype(v["dtype"])
        self.ch = v["ch"]
        self.vals = {k: np.array(v[k], dtype=self.dtype) for k in (1, 2)}
        self.undef = [np.array(u, dtype=self.dtype) for u in v["u"]]
        self.alt2 = [np.array(u, dtype=self.dtype) for u in v.get("alt2", [])]
        self.kind = "alpha" if name in ("RGBA", "RGB-buffer") else ("nan" if self.dtype.kind == "f" else
                                                                       ("zero" if name != "RGB" else "never"))
        self.cache = {}

    def shape(self, h, w):
        return (h, w, self.ch) if self.ch else (h, w)

    def concrete(self, tile, h, w, salt=0):
        np = self.np
        c = max(self.ch, 1)
        a = np.empty((h * w, c), dtype=self.dtype)
        # a FULLY undefined F16x3 tile is built with NaN in every channel (what clear() and fill produce): is_completely_masked
        # asks for all channels NaN while update calls a pixel undefined if any channel is; tiles made only of partly-NaN
        # pixels are therefore stored - noted in the evidence, outside what the property states
        und = self.undef if (any(tile) or self.name != "F16x3") else self.undef[:1]
        for p, t in enumerate(tile):
            if t == 2 and self.alt2 and (p + salt) % 3 == 1:
                a[p] = self.alt2[((p + salt) // 3) % len(self.alt2)]
            else:
                a[p] = self.vals[t] if t else und[(p + salt) % len(und)]
        return a.reshape(self.shape(h, w))

    def project(self, arr):
        """Abstract tile of a real array: 0 where the mode class calls the pixel undefined, the abstract value where the
        pixel equals one of the mapped values, -1 anything else.  Memoised on the raw bytes."""
        key = arr.tobytes()
        r = self.cache.get(key)
        if r is not None:
            return r
        np = self.np
        c = max(self.ch, 1)
        a = np.asarray(arr).reshape(-1, c)
        if self.kind == "alpha":
            und = a[:, 3] == 0
        elif self.kind == "nan":
            und = np.isnan(a).any(axis=1)
        elif self.kind == "zero":
            und = a[:, 0] == 0
        else:
            und = np.zeros(a.shape[0], dtype=bool)
        out = np.full(a.shape[0], -1, dtype=np.int64)
        for k in (1, 2):
            out[(a == self.vals[k]).all(axis=1) & ~und] = k
        for alt in self.alt2:
            out[(a == alt).all(axis=1) & ~und] = 2
        out[und] = 0
        r = tuple(int(x) for x in out)
        if len(self.cache) < 500000:
            self.cache[key] = r
        return r

    def count_defined(self, arr):
        """number of pixels of a real array the mode class calls defined"""
        np = self.np
        if self.kind == "alpha":
            return int(np.count_nonzero(arr[..., 3]))
        if self.kind == "nan":
            nanpix = np.isnan(arr).any(axis=2) if self.ch else np.isnan(arr)
            return int(nanpix.size - np.count_nonzero(nanpix))
        if self.kind == "zero":
            return int(np.count_nonzero(arr))
        return int(arr.shape[0] * arr.shape[1])

    def type_ok(self, arr, h, w):
        return arr.dtype.kind == self.dtype.kind and arr.dtype.itemsize == self.dtype.itemsize and tuple(arr.shape) == self.shape(h, w)


# Base directories the tile histories are replayed in.  A tile file is a function of position and format only (Mask.tla does
# not model the directory), so every history must come out the same whatever the pyramid directory is called: names with
# glob / regex / format metacharacters, spaces, dots, a leading dash, non-ASCII, nested; absolute, relative, trailing slash;
# already on disk or not yet there (also two levels below what exists) when the PyramidIO is constructed.
DIR_NAMES = ["tiles", "survey[dr2]", "M31 [v2] tiles", "a*b?c", "{x,y} 100%s %d", "-leading-dash", "v1.2.npy.d",
             "\u00fcn\u00ef-c\u00f8d\u00e9-\u76ee\u5f55", os.path.join("lvl[0-9]", "sub dir"), "[!a]tiles[]]"]
DIR_STYLES = ["absolute", "relative", "trailing-slash"]
SIB_FORMAT = {"npy": "png", "png": "npy", "fits": "npy"}       # the second format a directory may hold the position in


DIR_EXISTENCE = ["exists", "not yet there", "exists", "not yet there, two levels deep"]


def pyramid_dir(root, tag, gi):
    """the gi-th base directory: name, spelling and whether it exists when the PyramidIO is constructed rotate independently"""
    name, style = DIR_NAMES[gi % len(DIR_NAMES)], DIR_STYLES[gi % len(DIR_STYLES)]
    there = DIR_EXISTENCE[gi % len(DIR_EXISTENCE)]
    d = os.path.join(root, tag, name)
    if there == "exists":
        os.makedirs(d, exist_ok=True)
    else:
        os.makedirs(os.path.join(root, tag), exist_ok=True)      # a brand-new pyramid: toasty creates the directories itself
        if there != "not yet there":
            d = os.path.join(d, "new", name)
    if style == "relative":
        d = os.path.relpath(d)
    elif style == "trailing-slash":
        d = d + os.sep
    return d, "%s (%s, %s)" % (name, style, there)


def decode(code, n, base):
    out = []
    for _ in range(n):
        out.append(code % base)
        code //= base
    return tuple(out)


def encode(tile, base):
    c = 0
    for t in reversed(tile):
        c = c * base + t
    return c


# ------------------------------------------------------------------------------------------------
# inputs handed to TLC
# ------------------------------------------------------------------------------------------------

def pattern(h, w):
    """position-determined defined values (a checkerboard of 1 and 2) so that neighbouring pixels differ"""
    return tuple(1 + ((p // w + p % w) % 2) for p in range(h * w))


def mask_tiles(h, w):
    """every defined/undefined pattern (defined pixels carry the checkerboard value), plus the two uniform tiles"""
    n = h * w
    pat = pattern(h, w)
    s = set()
    for m in itertools.product((0, 1), repeat=n):
        s.add(tuple(a * x for a, x in zip(pat, m)))
    s.add((1,) * n)
    s.add((2,) * n)
    return s


def all_tiles(n, v=2):
    return set(itertools.product(range(v + 1), repeat=n))


def fancy_all(h, w):
    """every pointwise indexer: a subset of the buffer points in row-major order, each fed from any image point"""
    n = h * w
    for r in range(n + 1):
        for pts in itertools.combinations(range(n), r):
            for img in itertools.product(range(n), repeat=r):
                yield {"k": "fancy", "f": ("list",) * 4, "by": tuple(p // w for p in pts), "bx": tuple(p % w for p in pts),
                       "iy": tuple(q // w for q in img), "ix": tuple(q % w for q in img)}


def fancy_sample(rng, h, w, count):
    n = h * w
    out = [{"k": "fancy", "f": ("list",) * 4, "by": (), "bx": (), "iy": (), "ix": ()}]     # nothing addressed
    seen = set()
    # the whole buffer from the same points, and from one point
    for img in (tuple(range(n)), (n - 1,) * n):
        pts = tuple(range(n))
        out.append({"k": "fancy", "f": ("list",) * 4, "by": tuple(p // w for p in pts), "bx": tuple(p % w for p in pts),
                    "iy": tuple(q // w for q in img), "ix": tuple(q % w for q in img)})
        seen.add((pts, img))
    while len(out) < count:
        r = rng.randint(1, n)
        pts = tuple(sorted(rng.sample(range(n), r)))
        img = tuple(rng.randrange(n) for _ in range(r))
        if (pts, img) in seen:
            continue
        seen.add((pts, img))
        out.append({"k": "fancy", "f": ("list",) * 4, "by": tuple(p // w for p in pts), "bx": tuple(p % w for p in pts),
                    "iy": tuple(q // w for q in img), "ix": tuple(q % w for q in img)})
    return out


def _runs(n, step):
    """the index sequences a slice with the given step denotes along an axis of length n (the empty one only forward)"""
    out = [()] if step == 1 else []
    for a in range(n):
        for ln in range(1, n + 1):
            seq = tuple(a + step * j for j in range(ln))
            if 0 <= seq[-1] < n:
                out.append(seq)
    return out


def _list_axis(n):
    """(buffer list, image form, image sequence): the buffer axis is an integer list - any distinct indices in any order -
    fed from a forward slice of the image or from a list of any image indices"""
    for r in range(n + 1):
        for b in itertools.permutations(range(n), r):
            for i in _runs(n, 1):
                if len(i) == r:
                    yield b, "slice", i
            for i in itertools.product(range(n), repeat=r):
                yield b, "list", i


def _slice_axis(n):
    """(buffer form, buffer sequence, image form, image sequence): the buffer axis is a forward or reversed slice"""
    for form, step in (("slice", 1), ("rev", -1)):
        for b in _runs(n, step):
            for i in _runs(n, 1):
                if len(i) == len(b):
                    yield form, b, "slice", i
            for i in itertools.product(range(n), repeat=len(b)):
                yield form, b, "list", i


def _listrect(rows_are_list, la, sa):
    lb, lif, li = la
    sf, sb, sif, si = sa
    if rows_are_list:
        return {"k": "rect", "f": ("list", sf, lif, sif), "by": lb, "bx": sb, "iy": li, "ix": si}
    return {"k": "rect", "f": (sf, "list", sif, lif), "by": sb, "bx": lb, "iy": si, "ix": li}


def listrect_all(h, w):
    """every rectangle written with an integer list on exactly one buffer axis (rows or columns) and a slice on the other;
    the image side with slices or with a list on one axis"""
    for rows_are_list in (True, False):
        ln, sn = (h, w) if rows_are_list else (w, h)
        for la in _list_axis(ln):
            for sa in _slice_axis(sn):
                if la[1] == "list" and sa[2] == "list":
                    continue                      # two lists on the image side pair up pointwise: not a rectangle
                yield _listrect(rows_are_list, la, sa)


def listrect_sample(rng, h, w, count):
    """a seeded selection: both orientations alternate; always the whole buffer through a list (in order and permuted), the
    longest list with a gap, one row / column, nothing addressed"""
    out, seen = [], set()

    def add(A):
        key = (A["f"], A["by"], A["bx"], A["iy"], A["ix"])
        if key not in seen:
            seen.add(key)
            out.append(A)
    pools = {}
    for rows_are_list in (True, False):
        ln, sn = (h, w) if rows_are_list else (w, h)
        whole_l, whole_s = tuple(range(ln)), tuple(range(sn))
        sa = ("slice", whole_s, "slice", whole_s)
        add(_listrect(rows_are_list, (whole_l, "slice", whole_l), sa))
        add(_listrect(rows_are_list, (whole_l[::-1], "list", whole_l), sa))
        add(_listrect(rows_are_list, ((0, ln - 1), "list", (ln - 1, ln - 1)), ("rev", whole_s[::-1], "slice", whole_s)))
        add(_listrect(rows_are_list, ((ln - 1,), "slice", (0,)), sa))
        add(_listrect(rows_are_list, ((), "list", ()), sa))
        pools[rows_are_list] = (sorted(_list_axis(ln)), sorted(_slice_axis(sn)))
    flip = True
    while len(out) < count:
        la, sa = (rng.choice(pl) for pl in pools[flip])
        if not (la[1] == "list" and sa[2] == "list"):
            add(_listrect(flip, la, sa))
            flip = not flip
    return out


def lit_set(items):
    return "{" + ", ".join(sorted(tla.lit(x) for x in items)) + "}"


CFG_HEAD = """CONSTANTS
 H = %(H)d
 W = %(W)d
 V = 2
 Classes <- MCClasses
 ImgForms <- MCImgForms
 SrcTiles <- MCSrc
 PriorTiles <- MCPrior
 ExploreFrom <- MCExplore
 FancySel <- MCFancy
 ListSel <- MCList
 Formats <- MCFormats
 FileTiles <- MCFileTiles
 PairModes <- MCPairModes
 PairSrc <- MCPairSrc
CHECK_DEADLOCK FALSE
"""

CFG_BUF = "SPECIFICATION BufSpec\n" + CFG_HEAD + """INVARIANT BTypeOK
INVARIANT EveryCallObeysC15
INVARIANT EmitB
"""

CFG_PAIR = "SPECIFICATION PairSpec\n" + CFG_HEAD + """INVARIANT PTypeOK
INVARIANT PairAllUndefinedNeverStored
INVARIANT EmitP
PROPERTY LiveBuffersAreIndependent
PROPERTY MissingTileOpensAllUndefined
PROPERTY PositionStoredFromItsOwnBuffer
"""

CFG_FILE = "SPECIFICATION FileSpec\n" + CFG_HEAD + """INVARIANT FTypeOK
INVARIANT AllUndefinedNeverStored
INVARIANT EmitF
PROPERTY StaleFileRemoved
PROPERTY MissingReadsAbsentOrMasked
PROPERTY OtherTilesStoredAsWritten
PROPERTY StoredTileReadsBackIdentical
PROPERTY ReadsDoNotTouchTheFile
PROPERTY OtherLoadersDoNotMatter
PROPERTY OtherFormatUntouched
PROPERTY SiblingReadsBackIdentical
PROPERTY SiblingMaskedIsRemoved
"""


def buf_job(name, h, w, src, prior, fancy, imgforms, closed, workers, lists=()):
    """One BufSpec run.  closed = explore everything reachable; otherwise only the calls from the prior contents."""
    defs = [("MCSrc", lit_set(src)), ("MCPrior", lit_set(prior)),
            ("MCFancy", lit_set(fancy)), ("MCList", lit_set(lists)),
            ("MCFileTiles", "{}"), ("MCClasses", "AllClasses"), ("MCImgForms", lit_set(imgforms)), ("MCFormats", "{}"),
            ("MCExplore", "Tiles" if closed else "MCPrior"), ("MCPairModes", "{}"), ("MCPairSrc", "{}"), "ASSUME EmitTables"]
    cfg = CFG_BUF % {"H": h, "W": w}
    return {"name": name, "module": name, "text": tla.module(name, ["MCMask"], defs), "cfg": cfg, "h": h, "w": w, "kind": "buf",
            "workers": workers}


def file_job(name, h, w, tiles, formats, workers):
    defs = [("MCSrc", "{}"), ("MCPrior", "{}"), ("MCExplore", "{}"), ("MCFancy", "{}"), ("MCList", "{}"), ("MCFileTiles", lit_set(tiles)), ("MCClasses", "{}"),
            ("MCImgForms", '{"slice"}'), ("MCFormats", lit_set(formats)), ("MCPairModes", "{}"), ("MCPairSrc", "{}")]
    return {"name": name, "module": name, "text": tla.module(name, ["MCMask"], defs), "cfg": CFG_FILE % {"H": h, "W": w},
            "h": h, "w": w, "kind": "file", "workers": workers}


def pair_job(name, h, w, modes, formats, src, workers):
    """One PairSpec run: two tile positions, two live buffers, one PyramidIO."""
    defs = [("MCSrc", "{}"), ("MCPrior", "{}"), ("MCExplore", "{}"), ("MCFancy", "{}"), ("MCList", "{}"), ("MCFileTiles", "{}"), ("MCClasses", "{}"),
            ("MCImgForms", '{"slice"}'), ("MCFormats", lit_set(formats)), ("MCPairModes", lit_set(modes)), ("MCPairSrc", lit_set(src))]
    return {"name": name, "module": name, "text": tla.module(name, ["MCMask"], defs), "cfg": CFG_PAIR % {"H": h, "W": w},
            "h": h, "w": w, "kind": "pair", "workers": workers}


def start_tlc_jobs(ctx, jobs, timeout):
    """Run the TLC jobs side by side (threads around the framework's TLC runner, which blocks on the subprocess);
    finished jobs are handed over through the returned queue as (job, result | exception)."""
    from lib import tlc as _tlc
    done = queue.Queue()

    def one(job):
        try:
            r = _tlc.run(ctx, job["module"], extra={job["module"] + ".tla": job["text"]}, cfg_text=job["cfg"],
                         workers=job["workers"], timeout=timeout)
            done.put((job, r))
        except BaseException as e:  # noqa - re-raised in the caller's thread
            done.put((job, e))
    for j in jobs:
        threading.Thread(target=one, args=(j,), daemon=True).start()
    return done


# ------------------------------------------------------------------------------------------------
# replay of the buffer machine (runs in pool workers; the tables come through files)
# ------------------------------------------------------------------------------------------------
_TABLES = {}


def tables(path):
    """the TLC tables a replay task works from (written by the parent once the TLC job has finished)"""
    t = _TABLES.get(path)
    if t is None:
        with open(path, "rb") as f:
            t = pickle.load(f)
        _TABLES.clear()
        _TABLES[path] = t
    return t


def axis_indexer(form, seq, n, image_side):
    import numpy as np
    if form == "list":
        return np.array(seq, dtype=np.intp)
    if form == "slice":
        if not seq:
            return slice(0, 0)
        if image_side and seq[0] == 0 and len(seq) == n:
            return slice(None)                      # merge.py / toast.py pass slice(None) for the whole image
        return slice(seq[0], seq[-1] + 1)
    if form == "rev":
        lo = seq[0] - len(seq)
        return slice(seq[0], None if lo == -1 else lo, -1)     # study.py: "with a slice, -1 does the wrong thing"
    raise ValueError(form)


def real_indexers(A, h, w, plain_lists=False):
    f = A["f"]
    r = [axis_indexer(f[2], A["iy"], h, True), axis_indexer(f[3], A["ix"], w, True),
         axis_indexer(f[0], A["by"], h, False), axis_indexer(f[1], A["bx"], w, False)]
    if plain_lists:
        # a rectangle's list may be a plain Python list as well as an integer array
        r = [list(A[k]) if (f[p] == "list" and len(A[k])) else x for x, p, k in zip(r, (2, 3, 0, 1), ("iy", "ix", "by", "bx"))]
    return tuple(r)


def buffer_is_view(A):
    """numpy's b[by_idx, bx_idx] is a view of b (both buffer indexers are slices)"""
    return "list" not in A["f"][:2]


def describe(A):
    return {k: A[k] for k in ("k", "f", "by", "bx", "iy", "ix")}


def replay_buffer(args):
    """Walk every emitted transition of one grid run on real objects of one mode."""
    tag, mode, path = args
    repo.setup()
    warnings.simplefilter("ignore")
    import numpy as np
    from toasty.image import Image, ImageMode
    T = tables(path)
    info = T["info"]
    h, w, V = info["h"], info["w"], info["v"]
    n, base = h * w, V + 1
    cls = CLASS_OF[mode]
    states = T["states"]              # buffer code -> (code after clear, fill[indexer, source], update[indexer, source])
    imap = ValueMap(mode)
    bmap = ValueMap("RGB-buffer" if mode == "RGB" else mode)
    emode = getattr(ImageMode, mode)
    problems = []
    seen_keys = {}
    stats = {"calls": 0, "loads": 0, "chain_max": 0, "bad": 0, "states": len(states), "update_non_slice": 0}

    def bad(sev, key, msg, rep):
        stats["bad"] += 1
        seen_keys[key] = seen_keys.get(key, 0) + 1
        if seen_keys[key] <= 2 and len(problems) < 12:          # a couple of written-out cases per monitor key
            problems.append((sev, key, msg, rep))

    # the source images and the real indexers the call ids refer to
    src_codes = T["src"]
    sources = []
    for k, code in enumerate(src_codes):
        tile = decode(code, n, base)
        img = Image.from_array(imap.concrete(tile, h, w, salt=k))
        if img.mode != emode or imap.project(img.asarray()) != tile:
            raise RuntimeError("value map broken for %s" % mode)
        sources.append(img)
    idx = info["idx"]
    real_idx = [real_indexers(A, h, w, plain_lists=(A["k"] == "rect" and j % 2 == 1)) for j, A in enumerate(idx)]
    nidx, ns = len(idx), len(sources)
    per_state = 1 + 2 * nidx * ns             # clear, fill and update with every indexer quadruple and source
    # visit a state's calls in a scattered order (a stride coprime to their number) so that chains mix the three operations
    stride = max(1, int(per_state * 0.618))
    while math.gcd(stride, per_state) != 1:
        stride += 1
    pointer = dict((c, 0) for c in states)

    buf = None
    cur = None
    chain = 0
    order = sorted(states)
    oi = 0
    while True:
        if cur is None or cur not in pointer or pointer[cur] >= per_state:
            while oi < len(order) and pointer[order[oi]] >= per_state:
                oi += 1
            if oi >= len(order):
                break
            cur = order[oi]
            # a buffer holding this content: fresh from make_maskable_buffer, then initialised
            buf = emode.make_maskable_buffer(h, w)
            tile = decode(cur, n, base)
            buf.asarray()[...] = bmap.concrete(tile, h, w, salt=cur)
            if not bmap.type_ok(buf.asarray(), h, w):
                bad("V", "buffer:%s:make_maskable_buffer" % mode, "make_maskable_buffer(%d, %d) of %s gives dtype %s shape %s"
                    % (h, w, mode, buf.asarray().dtype, buf.asarray().shape), {"mode": mode})
                break
            if bmap.project(buf.asarray()) != tile:
                raise RuntimeError("value map broken for buffer of %s" % mode)
            stats["loads"] += 1
            stats["chain_max"] = max(stats["chain_max"], chain)
            chain = 0
        e = (pointer[cur] * stride) % per_state
        pointer[cur] += 1
        rec = states[cur]
        if e == 0:
            op, j, k = "clear", None, None
            exp = rec[0]
        elif e <= nidx * ns:
            op, j, k = "fill", (e - 1) // ns, (e - 1) % ns
            exp = int(rec[1][j, k])
        else:
            e2 = e - 1 - nidx * ns
            op, j, k = "update", e2 // ns, e2 % ns
            exp = int(rec[2][j, k])
        err = None
        try:
            if op == "clear":
                buf.clear()
            elif op == "fill":
                sources[k].fill_into_maskable_buffer(buf, *real_idx[j])
            else:
                sources[k].update_into_maskable_buffer(buf, *real_idx[j])
            arr = buf.asarray()
            got = bmap.project(arr)
            if not bmap.type_ok(arr, h, w):
                got = None
                err = "buffer became dtype %s shape %s" % (arr.dtype, arr.shape)
        except Exception as ex:  # noqa
            got = None
            err = "raised %r" % (ex,)
        stats["calls"] += 1
        if op == "update" and not buffer_is_view(idx[j]):
            stats["update_non_slice"] += 1
        chain += 1
        exp_tile = decode(exp, n, base)
        if got != exp_tile:
            # update with a list / integer array on a buffer axis (numpy hands the code a copy there) is reported on its own key
            opkey = "buffer:%s:%s" % (mode, op if (op != "update" or buffer_is_view(idx[j])) else "update-non-slice")
            if seen_keys.get(opkey, 0) >= 2:
                # already written out twice: count it and resynchronise on a fresh buffer
                stats["bad"] += 1
                seen_keys[opkey] += 1
                cur = None
                continue
            before = decode(cur, n, base)
            rep = {"mode": mode, "grid": [h, w], "op": op, "buffer_before": before, "expected_after": exp_tile,
                   "observed_after": got, "error": err}
            if op != "clear":
                rep["indexers"] = describe(idx[j])
                rep["source"] = decode(src_codes[k], n, base)
            bad("V", opkey,
                "%s on a %dx%d %s buffer: before %s, %s%s -> observed %s, specified %s (0 = undefined)"
                % (op, h, w, mode, list(before), ("indexers %s source %s" % (describe(idx[j]), list(rep["source"]))) if op != "clear" else "",
                   (" " + err) if err else "", list(got) if got else None, list(exp_tile)), rep)
            cur = None            # resynchronise on a fresh buffer
        else:
            cur = exp
    stats["chain_max"] = max(stats["chain_max"], chain)
    return tag, mode, stats, problems


# ------------------------------------------------------------------------------------------------
# replay of the tile-file machine
# ------------------------------------------------------------------------------------------------

def replay_files(args):
    tag, fmt, part, nparts, basedir, anchor_step, path = args
    repo.setup()
    warnings.simplefilter("ignore")
    import numpy as np
    from toasty.image import Image, ImageLoader, ImageMode
    from toasty.pyramid import PyramidIO, Pos
    T = tables(path)
    h, w, V = T["h"], T["w"], 2
    n, base = h * w, V + 1
    table = T["fmt"][fmt]             # (env, sib, mode, code) -> {(op, mode, code): (env', sib', fmode, fcode, gkind, gmode, gcode, gsz)}
    sibfmt = SIB_FORMAT[fmt]
    sibtile = decode(T["sibpx"], n, base)
    maps = dict((m, ValueMap(m)) for m in MODES)
    problems = []
    seen_keys = {}
    stats = {"calls": 0, "writes": 0, "reads": 0, "bad": 0}
    pos = Pos(2, 1, 3)
    ABSENT = ("none", 0)
    state = {"cur": ABSENT, "written": None, "env": "fresh", "others": [], "sib": False}
    P = {}

    def enter_dir(gi):
        """a fresh pyramid directory (the gi-th name / spelling): nothing stored yet"""
        d, P["dirname"] = pyramid_dir(basedir, "%s-%d-%d" % (fmt, part, gi), gi)
        P["pio"] = PyramidIO(d, default_format=fmt)
        # a second handle on the same pyramid whose DEFAULT format differs from the tiles' format: writes that go through
        # the read-modify-write interface use it with an explicit format= argument
        P["alt"] = PyramidIO(d, default_format=("png" if fmt != "png" else "npy"))
        P["path"] = P["pio"].tile_path(pos)
        P["sibpath"] = P["pio"].tile_path(pos, format=sibfmt)
        state["cur"], state["written"], state["sib"] = ABSENT, None, False

    def key():
        return (state["env"], state["sib"]) + state["cur"]

    def lookup(call):
        return table[key()][call][2:]

    def check_other_format(call, what):
        """after a call about one format's file: the other format's file is as it was"""
        if os.path.exists(P["sibpath"]) != state["sib"]:
            bad("file:%s:other-format-touched" % fmt, "%s: the %s file of the same position %s" % (what, sibfmt,
                "disappeared" if state["sib"] else "appeared"), hist(call))
            state["sib"] = os.path.exists(P["sibpath"])

    def do_sib(op, salt=0):
        """the same position in the directory's second format: store SibTile / write an all-undefined image / read"""
        call = (op, "none", 0)
        exp = table[key()][call]
        sib2, gkind, gmode, gcode = exp[1], exp[4], exp[5], exp[6]
        stats["calls"] += 1
        stats["other_format_calls"] = stats.get("other_format_calls", 0) + 1
        pio = P["pio"]
        try:
            if op == "readsib":
                img = pio.read_image(pos, format=sibfmt)
                got = None if img is None else (img.mode.name, maps["RGBA"].project(img.asarray()) if img.mode.name == "RGBA" else None)
                want = None if gkind == "none" else (gmode, decode(gcode, n, base))
                if got != want:
                    bad("file:%s:readback" % sibfmt, "the %s file of a position also stored as %s reads back as %s, specified %s"
                        % (sibfmt, fmt, got, want), hist(call))
            else:
                tile = sibtile if op == "writesib" else (0,) * n
                pio.write_image(pos, Image.from_array(maps["RGBA"].concrete(tile, h, w, salt=salt)), format=sibfmt)
        except Exception as ex:  # noqa
            bad("file:%s:%s" % (sibfmt, "read" if op == "readsib" else "write"), "%s with format=%s raised %r" % (op, sibfmt, ex), hist(call))
            return
        exists = os.path.exists(P["sibpath"])
        if exists != sib2:
            bad("file:%s:%s" % (sibfmt, "stale-file-kept" if exists else "tile-not-stored"),
                "%s with format=%s: the %s file %s" % (op, sibfmt, sibfmt, "is still there" if exists else "was not stored"), hist(call))
            if exists and not sib2:
                os.unlink(P["sibpath"])
        state["sib"] = sib2
        if os.path.exists(P["path"]) != (state["cur"] != ABSENT):
            bad("file:%s:other-format-touched" % fmt, "%s with format=%s: the %s file of the same position %s"
                % (op, sibfmt, fmt, "disappeared" if state["cur"] != ABSENT else "appeared"), hist(call))
            state["cur"], state["written"] = ABSENT, None
            if os.path.exists(P["path"]):
                os.unlink(P["path"])

    def do_configure(opt):
        """Some other ImageLoader of this process is configured from command-line options (as the tiling commands do for
        their input images): with every option, or with the defaults.  No tile may notice."""
        exp = table[key()][("configure", opt, 0)]
        parser = argparse.ArgumentParser()
        ImageLoader.add_arguments(parser)
        argv = [] if opt == "dflt" else ["--black-to-transparent", "--colorspace-processing", "none", "--crop", "1,2",
                                         "--psd-single-layer", "0"]
        state["others"].append(ImageLoader.create_from_args(parser.parse_args(argv)))
        del state["others"][:-2]
        stats["calls"] += 1
        stats["configures"] = stats.get("configures", 0) + 1
        state["env"] = exp[0]
        if (exp[2], exp[3]) != state["cur"] or exp[1] != state["sib"]:
            raise RuntimeError("TLC table: configure changes the file")
        for c in rcalls:
            do_read(c)

    def bad(key, msg, rep):
        stats["bad"] += 1
        seen_keys[key] = seen_keys.get(key, 0) + 1
        if seen_keys[key] <= 2 and len(problems) < 12:          # a couple of written-out cases per monitor key
            problems.append(("V", key, msg, rep))

    def hist(call):
        return {"format": fmt, "directory": P.get("dirname"), "other_format_present": state["sib"],
                "other_loaders_configured": state["env"],
                "file_before": [state["cur"][0], list(decode(state["cur"][1], n, base))],
                "call": [call[0], call[1], list(decode(call[2], n, base))]}

    def do_read(call):
        """ReadNone / ReadMasked from the current state; compares with the specified result."""
        fmode, fcode, gkind, gmode, gcode, gsz = lookup(call)
        stats["calls"] += 1
        stats["reads"] += 1
        try:
            if call[0] == "readnone":
                img = P["pio"].read_image(pos, default="none")
            else:
                img = P["pio"].read_image(pos, default="masked", masked_mode=getattr(ImageMode, call[1]))
        except Exception as ex:  # noqa
            bad("file:%s:read" % fmt, "%s of a tile file holding %s raised %r" % (call[0], state["cur"][0], ex), hist(call))
            return
        missing = state["cur"] == ABSENT
        if gkind == "none":
            if img is not None:
                bad("file:%s:missing-read" % fmt, "a missing tile read with default='none' returned %r" % (img,), hist(call))
            return
        if img is None:
            bad("file:%s:%s" % (fmt, "missing-read" if missing else "readback"),
                "%s returned None, specified an image of mode %s" % (call[0], gmode), hist(call))
            return
        arr = img.asarray()
        if img.mode.name != gmode:
            bad("file:%s:%s" % (fmt, "missing-read" if missing else "readback-mode"),
                "%s: tile %s reads back with mode %s, specified %s" % (call[0], "missing" if missing else "written as " + state["cur"][0],
                                                                     img.mode.name, gmode), hist(call))
            return
        vm = maps[gmode]
        got = vm.project(arr)
        if gsz == "full":
            ok = tuple(arr.shape[:2]) == (256, 256) and set(got) == {0}
            if not ok:
                bad("file:%s:missing-read" % fmt, "a missing tile read with default='masked' (%s) is not a 256x256 all-undefined tile "
                    "(shape %s, %d defined pixels)" % (call[1], arr.shape, sum(1 for g in got if g != 0)), hist(call))
            return
        exp_tile = decode(gcode, n, base)
        if tuple(arr.shape[:2]) != (h, w) or got != exp_tile:
            bad("file:%s:readback" % fmt, "%s tile written as %s reads back as %s (shape %s)"
                % (gmode, list(exp_tile), list(got), arr.shape), hist(call))
            return
        wr = state["written"]
        if wr is not None:
            same = wr.shape == arr.shape and wr.dtype.kind == arr.dtype.kind and wr.dtype.itemsize == arr.dtype.itemsize
            if same:
                a, b = np.asarray(arr), wr
                eq = (a == b)
                if a.dtype.kind == "f":
                    eq = eq | (np.isnan(a) & np.isnan(b))
                same = bool(eq.all())
            if not same:
                bad("file:%s:readback" % fmt, "%s tile does not read back with identical pixels: wrote %s, read %s"
                    % (gmode, wr.tolist(), np.asarray(arr).tolist()), hist(call))

    def do_write(call, salt):
        exp = lookup(call)
        fmode, fcode = exp[0], exp[1]
        tile = decode(call[2], n, base)
        arr = maps[call[1]].concrete(tile, h, w, salt=salt)
        img = Image.from_array(arr)
        stats["calls"] += 1
        stats["writes"] += 1
        # every fourth write goes through update_image (fill the whole buffer from the tile) instead of write_image, when the
        # buffer the interface hands out can hold the tile's mode
        via_update = (salt % 4 == 3 and call[1] != "RGB" and state["cur"][0] == call[1])   # (a missing tile would come back as a 256x256 buffer)
        try:
            if via_update:
                stats["writes_via_update_image"] = stats.get("writes_via_update_image", 0) + 1
                with P["alt"].update_image(pos, default="masked", masked_mode=img.mode, format=fmt) as buf:
                    img.fill_into_maskable_buffer(buf, slice(None), slice(None), slice(None), slice(None))
            else:
                P["pio"].write_image(pos, img)
        except Exception as ex:  # noqa
            bad("file:%s:write" % fmt, "%s of a %s tile %s raised %r" % ("update_image" if via_update else "write_image", call[1], list(tile), ex), hist(call))
            return
        path = P["path"]
        check_other_format(call, "write of a %s tile %s" % (call[1], list(tile)))
        exists = os.path.exists(path)
        if fmode == "none" and exists:
            before = state["cur"]
            if before == ABSENT:
                bad("file:%s:all-undefined-stored" % fmt, "an all-undefined %s tile was stored" % call[1], hist(call))
            else:
                bad("file:%s:stale-file-kept" % fmt, "writing an all-undefined %s tile left the earlier %s file in place"
                    % (call[1], before[0]), hist(call))
            os.unlink(path)
        elif fmode != "none" and not exists:
            bad("file:%s:tile-not-stored" % fmt, "a %s tile %s with defined pixels was not stored" % (call[1], list(tile)), hist(call))
            state["cur"] = ABSENT
            state["written"] = None
            return
        state["cur"] = (fmode, fcode)
        # (through update_image the concrete representation of UNDEFINED pixels is the buffer's, not the source's: only the
        # abstract read-back is compared then)
        state["written"] = arr if (fmode != "none" and not via_update) else None
        do_read(("readnone", "none", 0))

    keys = sorted(table)
    wcalls = sorted(c for c in table[("fresh", False) + ABSENT] if c[0] == "write")
    rcalls = sorted(c for c in table[("fresh", False) + ABSENT] if c[0] in ("readnone", "readmasked"))
    enter_dir(part)
    # fresh directory: every read of the missing tile
    if part == 0:
        for c in rcalls:
            do_read(c)
    # anchor calls a (taking the file to res(a)) x target calls c >= a:  ... a, c, a ... covers (res(a), c) and (res(c), a)
    anchors = list(range(0, len(wcalls), anchor_step))
    for i, ai in enumerate(anchors[part::nparts]):
        a = wcalls[ai]
        # every third anchor: other loaders get every option / the defaults first (the rest of the history runs in that process)
        if i % 3 == 1:
            do_configure("all")
        elif i % 3 == 2:
            do_configure("dflt")
        # every anchor's history runs in its own pyramid directory; in every second one the position is stored in a second
        # format as well from the start, in the others towards the end
        gi = ai // anchor_step
        enter_dir(gi)
        if gi % 2 == 1:
            do_sib("writesib", ai)
            do_sib("readsib")
        do_write(a, ai)
        for c in rcalls:
            do_read(c)
        for ci in range(ai, len(wcalls)):
            do_write(wcalls[ci], ci + 1)
            do_write(a, ai)
        if gi % 2 == 0:
            do_sib("writesib", ai)
        do_sib("readsib")
        do_read(("readnone", "none", 0))
        do_sib("masksib", ai)
        do_sib("readsib")
        do_read(("readnone", "none", 0))
    stats["directories"] = len(anchors[part::nparts]) + 1
    return tag, fmt, stats, problems


# ------------------------------------------------------------------------------------------------
# replay of the two-position machine: two live buffers on one PyramidIO
# ------------------------------------------------------------------------------------------------

def replay_pairs(args):
    """Walk every transition of PairSpec for one (format, mode) on one real PyramidIO: live buffers are the objects that
    read_image(default='masked') returned or that update_image contexts yielded (entered / left explicitly, so that they can
    nest and close in any order); after every call BOTH live buffers and both tile files are compared with TLC's state."""
    tag, fmt, mode, basedir, path = args
    repo.setup()
    warnings.simplefilter("ignore")
    import collections
    from toasty.image import Image, ImageMode
    from toasty.pyramid import PyramidIO, Pos
    T = tables(path)
    h, w, V = T["h"], T["w"], 2
    n, base = h * w, V + 1
    graph = T["graph"][(fmt, mode)]               # state -> [(call, state after)]
    src_codes = T["src"][(fmt, mode)]
    imap = ValueMap(mode)
    bmode = "RGBA" if mode == "RGB" else mode
    bmap = ValueMap("RGB-buffer" if mode == "RGB" else mode)
    emode = getattr(ImageMode, mode)
    sources = [Image.from_array(imap.concrete(decode(c, n, base), h, w, salt=i)) for i, c in enumerate(src_codes)]
    # the same tiles in the buffer's own mode, and an all-undefined one (stand-ins where an array is read-only, see execute)
    bsources = [Image.from_array(bmap.concrete(decode(c, n, base), h, w, salt=i)) for i, c in enumerate(src_codes)]
    bnothing = Image.from_array(bmap.concrete((0,) * n, h, w))
    corner = (slice(None), slice(None), slice(0, h), slice(0, w))
    positions = {1: Pos(2, 1, 3), 2: Pos(2, 2, 0)}
    problems = []
    seen_keys = {}
    stats = {"calls": 0, "resets": 0, "bad": 0, "via_update_image": 0, "nested": 0, "direct_assignments": 0, "readonly_standins": 0,
             "states": len(graph)}
    R = {}

    def bad(key, msg, rep):
        stats["bad"] += 1
        seen_keys[key] = seen_keys.get(key, 0) + 1
        if seen_keys[key] <= 2 and len(problems) < 12:
            problems.append(("V", key, msg, rep))

    def reset():
        stats["resets"] += 1
        for hd in R.get("hand", {}).values():       # leave open contexts behind cleanly (their directory is abandoned)
            if hd.get("cm") is not None:
                try:
                    hd["cm"].__exit__(None, None, None)
                except Exception:  # noqa
                    pass
        # every new start gets the next base-directory name / spelling
        d, R["dirname"] = pyramid_dir(basedir, "pair-%s-%s-%d" % (fmt, mode, stats["resets"]), stats["resets"] + len(mode))
        R["dir"] = d
        R["since"] = stats["calls"]
        R["pio"] = PyramidIO(d, default_format=fmt)
        R["obs"] = PyramidIO(d, default_format=fmt)          # an independent observer of the tile files
        R["hand"] = {}
        R["trail"] = []

    def tile_of(arr):
        """abstract content of a full-size buffer / tile: the corner carries the pixels, everything else is undefined"""
        if tuple(arr.shape[:2]) != (256, 256) or not bmap.type_ok(arr[:h, :w], h, w):
            return None
        t = bmap.project(arr[:h, :w].copy())
        if bmap.count_defined(arr) != sum(1 for x in t if x != 0):
            return None
        return t

    def execute(call):
        pio = R["pio"]
        if call[0] == "open":
            k, p = call[1], call[2]
            others = [hd for j, hd in R["hand"].items() if j != k]
            ctx_ok = not any(hd["cm"] is not None and hd["pos"] == p for hd in others)
            use_ctx = ctx_ok and (stats["calls"] % 3 != 0)
            if use_ctx:
                cm = pio.update_image(positions[p], default="masked", masked_mode=emode)
                buf = cm.__enter__()
                stats["via_update_image"] += 1
                if any(hd["cm"] is not None for hd in others):
                    stats["nested"] += 1
            else:
                cm = None
                buf = pio.read_image(positions[p], default="masked", masked_mode=emode)
            R["hand"][k] = {"buf": buf, "cm": cm, "pos": p}
        elif call[0] == "mut":
            k, op, i = call[1], call[2], call[3]
            buf = R["hand"][k]["buf"]
            if op == "fill":
                sources[i - 1].fill_into_maskable_buffer(buf, *corner)
            elif op == "update":
                sources[i - 1].update_into_maskable_buffer(buf, *corner)
            elif not buf.asarray().flags.writeable:
                # a tile loaded through PIL hands out a read-only array (clear() documents that it needs a writable one):
                # the same abstract step is taken through fill instead
                stats["readonly_standins"] += 1
                (bsources[i - 1] if op == "set" else bnothing).fill_into_maskable_buffer(buf, *corner)
            elif op == "set":
                # pixels assigned directly through the array the buffer hands out
                buf.asarray()[:h, :w] = bmap.concrete(decode(src_codes[i - 1], n, base), h, w, salt=stats["calls"])
                stats["direct_assignments"] += 1
            else:
                buf.clear()
        else:
            k = call[1]
            hd = R["hand"].pop(k)
            if hd["cm"] is not None:
                hd["cm"].__exit__(None, None, None)
            else:
                pio.write_image(positions[hd["pos"]], hd["buf"])

    def compare(call, exp):
        """the real state against TLC's state after the call; returns True when they agree"""
        ok = True
        rep = {"format": fmt, "mode": mode, "directory": R["dirname"], "history": list(R["trail"]), "specified_state": exp}
        for k in (1, 2):
            pos, code = exp[3 + k]
            hd = R["hand"].get(k)
            if pos == 0:
                continue
            want = decode(code, n, base)
            got = tile_of(hd["buf"].asarray()) if hd is not None else None
            if hd is None or hd["buf"].mode.name != bmode or got != want:
                ok = False
                mine = call[1] == k
                bad("tiles:%s:%s" % (fmt, "live-buffer" if mine else "live-buffer-changed-by-other-tile"),
                    "%s: after %s the live buffer %d (position %d) holds %s, specified %s%s"
                    % (mode, list(call), k, pos, list(got) if got else got, list(want),
                       "" if mine else " - the call was not about this buffer"), rep)
        for p in (1, 2):
            f = exp[1 + p]
            tp = R["pio"].tile_path(positions[p], makedirs=False)
            exists = os.path.exists(tp)
            if exists != (f != -1):
                ok = False
                bad("tiles:%s:%s" % (fmt, "all-undefined-stored" if exists else "tile-not-stored"),
                    "%s: after %s the tile file of position %d %s, specified %s"
                    % (mode, list(call), p, "exists" if exists else "is missing", "absent" if f == -1 else list(decode(f, n, base))), rep)
            elif exists and call[0] == "close":
                img = R["obs"].read_image(positions[p], default="none")
                got = tile_of(img.asarray()) if img is not None else None
                if img is None or img.mode.name != bmode or got != decode(f, n, base):
                    ok = False
                    bad("tiles:%s:stored-tile" % fmt, "%s: after %s position %d is stored as %s, specified %s (what was put into its own buffer)"
                        % (mode, list(call), p, list(got) if got else got, list(decode(f, n, base))), rep)
        return ok

    def step(call, nxt):
        stats["calls"] += 1
        R["trail"].append(list(call))
        if len(R["trail"]) > 14:
            del R["trail"][0]
        try:
            execute(call)
        except Exception as ex:  # noqa
            bad("tiles:%s:call" % fmt, "%s: %s raised %r" % (mode, list(call), ex), {"format": fmt, "mode": mode, "history": list(R["trail"])})
            return False
        return compare(call, nxt)

    init = (fmt, mode, -1, -1, (0, 0), (0, 0))
    if init not in graph:
        raise RuntimeError("TLC tables lack the initial state for %s/%s" % (fmt, mode))
    todo = dict((st, list(edges)) for st, edges in graph.items())
    left = sum(len(v) for v in todo.values())

    def nearest(start):
        """nearest state with an unvisited call, through calls already replayed (they are executed again for real)"""
        prev = {start: None}
        dq = collections.deque([start])
        while dq:
            st = dq.popleft()
            if todo[st]:
                return st, prev
            for call, nx in graph[st]:
                if nx not in prev:
                    prev[nx] = (st, call)
                    dq.append(nx)
        return None, prev

    reset()
    cur = init
    while left and stats["bad"] < 40:
        if cur == init and stats["calls"] - R["since"] > 400:
            reset()                       # nothing stored, nothing alive: carry on in a differently named directory
        if todo[cur]:
            call, nx = todo[cur].pop()
            left -= 1
            if step(call, nx):
                cur = nx
            else:
                reset()
                cur = init
            continue
        goal, prev = nearest(cur)
        if goal is None:                  # e.g. stored integer tiles never go away: start over in a fresh directory
            reset()
            cur = init
            goal, prev = nearest(cur)
            if goal is None:
                break
        pathcalls = []
        st = goal
        while prev[st] is not None:
            pst, call = prev[st]
            pathcalls.append((call, st))
            st = pst
        cur = goal
        for call, nx in reversed(pathcalls):
            if not step(call, nx):
                reset()
                cur = init
                break
    stats["unvisited"] = left
    return tag, "%s/%s" % (fmt, mode), stats, problems


# ------------------------------------------------------------------------------------------------

def dump_pair_tables(ctx, r, job):
    def tup(x):
        return tuple(tup(y) for y in x) if isinstance(x, list) else x
    graph, src = {}, {}
    nedge = 0
    for rec in r.json_lines("P"):
        st = tup(rec["s"])
        key = (st[0], st[1])
        edges = [(("open", e[0], e[1]), tup(e[2])) for e in rec["open"]]
        edges += [(("mut", e[0], e[1], e[2]), tup(e[3])) for e in rec["mut"]]
        edges += [(("close", e[0]), tup(e[1])) for e in rec["close"]]
        graph.setdefault(key, {})[st] = edges
        src[key] = rec["src"]
        nedge += len(edges)
    path = os.path.join(ctx.scratch, "%s.pkl" % job["name"])
    with open(path, "wb") as f:
        pickle.dump({"graph": graph, "src": src, "h": job["h"], "w": job["w"]}, f, protocol=pickle.HIGHEST_PROTOCOL)
    return graph, path, nedge


def dump_buf_tables(ctx, r, job):
    """TLC's tables of one BufSpec run -> one pickle per mode class; returns {class: (path, states, transitions)}."""
    import numpy as np
    info = r.json_lines("I")
    if len(info) != 1:
        ctx.machinery("expected one table line from TLC run %s, got %d" % (job["name"], len(info)))
    info = info[0]
    per = {}
    for rec in r.json_lines("B"):
        ns = len(info["src"][rec["c"]])
        fill = np.array(rec["fill"], dtype=np.uint16).reshape(len(info["idx"]), ns)
        upd = np.array(rec["update"], dtype=np.uint16).reshape(len(info["idx"]), ns)
        per.setdefault(rec["c"], {})[rec["b"]] = (rec["clear"], fill, upd)
    out = {}
    small = dict((k, info[k]) for k in ("h", "w", "v", "nrect", "idx"))
    for cls, states in per.items():
        path = os.path.join(ctx.scratch, "%s-%s.pkl" % (job["name"], cls))
        with open(path, "wb") as f:
            pickle.dump({"info": small, "src": info["src"][cls], "states": states}, f, protocol=pickle.HIGHEST_PROTOCOL)
        nedge = sum(1 + st[1].size + st[2].size for st in states.values())
        out[cls] = (path, len(states), nedge)
    return info, per, out


def dump_file_tables(ctx, r, job):
    fm = {}
    nedge = 0
    sibpx = 0
    for rec in r.json_lines("F"):
        t = fm.setdefault(rec["fmt"], {})
        ed = {}
        for e in rec["edges"]:
            ed[(e[0], e[1], e[2])] = tuple(e[3:])
        t[(rec["env"], rec["sib"], rec["mode"], rec["px"])] = ed
        sibpx = rec["sibpx"]
        nedge += len(ed)
    path = os.path.join(ctx.scratch, "%s.pkl" % job["name"])
    with open(path, "wb") as f:
        pickle.dump({"fmt": fm, "h": job["h"], "w": job["w"], "sibpx": sibpx}, f, protocol=pickle.HIGHEST_PROTOCOL)
    return fm, path, nedge


def run(ctx):
    repo.setup(ctx)
    import multiprocessing as mp
    rng = ctx.rng
    quick = ctx.quick
    ctx.rule = ("TLC explores the buffer machine (all calls Clear / Fill / Update x indexers - slice rectangles, list-on-one-axis rectangles, "
                "pointwise integer arrays; the same for Fill and Update - x source images from every reachable buffer content) and the tile-file machine (all calls Write(mode, tile) / ReadNone / ReadMasked(mode) from every file state, per "
                "format) and emits the complete transition tables; every emitted transition is executed on real toasty objects of every "
                "mode of the class (chains of calls on one real buffer; write/read histories on one real PyramidIO tile) and the projected "
                "real state is compared with TLC's. distinct = distinct (grid, mode, state, call) transitions replayed; all are non-trivial")
    # the replay workers are forked first, while this process is still single-threaded; they get their tables through files
    pool = mp.get_context("fork").Pool(8)
    try:
        _run(ctx, pool, rng, quick)
    finally:
        pool.terminate()
        pool.join()


def _run(ctx, pool, rng, quick):
    # ---- inputs
    t22, t23 = mask_tiles(2, 2), mask_tiles(2, 3)
    jobs = []
    if quick:
        jobs.append(buf_job("MCBuf22", 2, 2, t22, {(0,) * 4}, fancy_sample(rng, 2, 2, 24), ["slice"], True, 8,
                            lists=listrect_sample(rng, 2, 2, 20)))
        pri = sorted(t23)
        pr23 = {(0,) * 6, pattern(2, 3)} | set(rng.sample(pri, 6))
        sr23 = {pattern(2, 3), (2,) * 6} | set(rng.sample(pri, 6))
        jobs.append(buf_job("MCBuf23", 2, 3, sr23, pr23, fancy_sample(rng, 2, 3, 30), ["slice"], False, 3,
                            lists=listrect_sample(rng, 2, 3, 30)))
        ftiles = t22
    else:
        jobs.append(buf_job("MCBuf22", 2, 2, all_tiles(4), {(0,) * 4}, list(fancy_all(2, 2)), ["slice"], True, 8))
        jobs.append(buf_job("MCBuf22r", 2, 2, t22, {(0,) * 4}, [], ["slice", "rev"], True, 3))
        jobs.append(buf_job("MCBuf22l", 2, 2, t22, {(0,) * 4}, [], ["slice"], True, 3, lists=list(listrect_all(2, 2))))
        jobs.append(buf_job("MCBuf23", 2, 3, t23, t23, fancy_sample(rng, 2, 3, 150), ["slice"], False, 6,
                            lists=listrect_sample(rng, 2, 3, 150)))
        ftiles = all_tiles(4)
    jobs.append(file_job("MCFile", 2, 2, ftiles, ["png", "npy", "fits"], 3 if quick else 4))
    if quick:
        jobs.append(pair_job("MCPair", 1, 2, ["F32", "U8", "RGBA"], ["npy"], [(1, 2), (2, 0)], 2))
    else:
        jobs.append(pair_job("MCPair", 1, 2, MODES, ["npy", "png"], [(1, 2), (2, 0), (2, 1)], 4))
    done = start_tlc_jobs(ctx, jobs, timeout=6000)
    # ---- as the TLC jobs finish: tables to files, replay tasks to the pool
    pending = []
    edges = {}
    sample_src = {}
    ftab = None
    fdir = ctx.mkdtemp("tiles")
    failure = None
    for _ in jobs:
        job, r = done.get()
        if isinstance(r, BaseException):
            failure = failure or r
            continue
        ctx.tlc_runs.append(r.summary())
        ctx.states += r.distinct
        ctx.transitions += r.generated
        if job["kind"] == "buf":
            info, per, out = dump_buf_tables(ctx, r, job)
            if not out:
                ctx.machinery("TLC emitted no buffer states for %s" % job["name"])
            edges[job["name"]] = dict((c, {"states": out[c][1], "transitions": out[c][2]}) for c in out)
            if job["name"] == "MCBuf22":
                sample_src = {"info": info, "per": per}
            for m in MODES:
                if CLASS_OF[m] in out:
                    pending.append(("buf", pool.apply_async(replay_buffer, ((job["name"], m, out[CLASS_OF[m]][0]),))))
        elif job["kind"] == "pair":
            graph, path, nedge = dump_pair_tables(ctx, r, job)
            if not graph:
                ctx.machinery("TLC emitted no states of the two-position machine")
            edges[job["name"]] = dict(("%s/%s" % k, {"states": len(g), "transitions": sum(len(x) for x in g.values())}) for k, g in graph.items())
            for (fmt, m) in sorted(graph):
                pending.append(("pair", pool.apply_async(replay_pairs, ((job["name"], fmt, m, fdir, path),))))
        else:
            ftab, path, nedge = dump_file_tables(ctx, r, job)
            if not ftab:
                ctx.machinery("TLC emitted no file states")
            edges[job["name"]] = dict((f, {"states": len(ftab[f]), "transitions": sum(len(x) for x in ftab[f].values())}) for f in ftab)
            for fmt in sorted(ftab):
                nparts = {"png": 1, "npy": 5, "fits": 6}[fmt] if quick else {"png": 2, "npy": 24, "fits": 24}[fmt]
                step = 4 if fmt == "fits" else (2 if (quick and fmt == "npy") else 1)
                for p in range(nparts):
                    pending.append(("file", pool.apply_async(replay_files, ((job["name"], fmt, p, nparts, fdir, step, path),))))
    if failure is not None:
        raise failure
    ctx.note("tlc_tables", edges)
    ctx.exhaustive = True
    ctx.note("exhaustive_scope", "2x2 grid: every reachable buffer content x every call (fill and update alike with all slice / reversed-slice indexer "
             "quadruples, %s rectangles written with an integer list on one buffer axis, %s pointwise indexers, %s source images) and every tile-file state x every call, in TLC and in the replay; 2x3 grid: calls "
             "from a set of prior contents; fits histories: every 4th anchor state x every call (quick: npy every 2nd); two tile positions with two "
             "live buffers on one PyramidIO (1x2 corner of the 256x256 buffers): every reachable state x every Open / Mutate / Close call"
             % (("20 seeded", "24 seeded", "all 16 defined/undefined patterns") if quick else
                ("all %d" % sum(1 for _ in listrect_all(2, 2)), "all 625", "all 81 (list rectangles: the 16 patterns)")))
    per_mode, per_fmt, per_pair = {}, {}, {}
    for kind, res in pending:
        tag, what, stats, problems = res.get()
        ctx.count(stats["calls"])
        ctx.trace_ok(stats["calls"])
        ctx.nontrivial_count += stats["calls"]
        if kind == "buf":
            pm = per_mode.setdefault(what, {"calls": 0, "update_calls_with_non_slice_buffer_indexers": 0, "chains": 0, "longest_chain": 0})
            pm["calls"] += stats["calls"]
            pm["update_calls_with_non_slice_buffer_indexers"] += stats["update_non_slice"]
            pm["chains"] += stats["loads"]
            pm["longest_chain"] = max(pm["longest_chain"], stats["chain_max"])
        elif kind == "pair":
            per_pair[what] = dict((k, stats[k]) for k in ("calls", "states", "via_update_image", "nested", "direct_assignments",
                                                          "readonly_standins", "resets", "unvisited"))
            if stats["unvisited"] and not stats["bad"]:
                ctx.machinery("two-position replay left %d transitions unvisited for %s" % (stats["unvisited"], what))
        else:
            pf = per_fmt.setdefault(what, {"calls": 0, "writes": 0, "reads": 0})
            for k in pf:
                pf[k] += stats[k]
        for sev, key, msg, rep in problems:
            ctx.violation("C15:" + key, msg, rep)
        if stats["bad"] > len(problems):
            ctx.add_note("mismatches_not_listed", stats["bad"] - len(problems))
    ctx.note("buffer_replay", per_mode)
    ctx.note("file_replay", per_fmt)
    ctx.note("two_position_replay", per_pair)
    # ---- a few written-out cases
    info, per = sample_src["info"], sample_src["per"]
    big = [j for j, A in enumerate(info["idx"][:info["nrect"]]) if len(A["by"]) * len(A["bx"]) == 2 and "rev" in A["f"]]
    for cls in ("RGBA", "Int"):
        st = per.get(cls, {})
        for code in sorted(st)[30:32]:
            j, k = big[len(big) // 2], len(info["src"][cls]) // 2
            ctx.sample({"class": cls, "grid": [2, 2], "buffer": decode(code, 4, 3), "call": "update",
                        "indexers": describe(info["idx"][j]), "source": decode(info["src"][cls][k], 4, 3),
                        "specified_after": decode(int(st[code][2][j, k]), 4, 3)})
    for fmt in sorted(ftab)[:2]:
        key = sorted(ftab[fmt])[1]
        call = sorted(c for c in ftab[fmt][key] if c[0] == "write")[0]
        ctx.sample({"format": fmt, "other_loaders": key[0], "other_format_present": key[1], "file": [key[2], decode(key[3], 4, 3)],
                    "call": [call[0], call[1], decode(call[2], 4, 3)],
                    "specified_file_after": [ftab[fmt][key][call][2], decode(ftab[fmt][key][call][3], 4, 3)]})
    ctx.assume("integer modes are exercised with non-negative values only (the statement's domain for the larger-value rule)")
    ctx.assume("'an all-undefined tile is never stored' is asserted for the modes that can represent one (RGBA, F32, F64, F16x3); "
               "is_completely_masked is False by design for RGB and the integer modes and nothing is asserted about storing all-zero tiles")
    ctx.assume("fill and update are exercised with the same indexer families: slices (forward, reversed, whole-axis), rectangles written "
               "with an integer list / array on one buffer axis and a slice on the other (both orientations; the image side with slices or "
               "a list on one axis), and pointwise integer-array quadruples; no indexer addresses a buffer pixel twice")
    ctx.assume("a fully undefined F16x3 tile is represented with NaN in every channel (what clear() and fill produce); update treats a pixel "
               "with NaN in any channel as undefined while is_completely_masked asks for NaN in all, so a tile made only of partly-NaN "
               "pixels is stored: observed, not judged (buffer operations cannot create such pixels, only input data can)")
    ctx.assume("lossless formats and the modes they hold are the measured table of DESIGN 5/C15 (CanHold in Mask.tla); "
               "pixels are compared by value and mode, not byte order")
