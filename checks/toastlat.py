"""Shared by C04 / C05 / C12 / C06: run TLC on spec/ToastLattice.tla (theorems as ASSUMEs, the point-lookup state
machine, table emission) and build the lattice embedding psi from the tables TLC emitted."""
import json
import os

import numpy as np

from lib import lattice, tla

CFG = """SPECIFICATION LSpec
CONSTANTS
 R = %(R)d
 MaxDepth = %(D)d
 K = %(K)d
INVARIANT LookupHolds
INVARIANT NeverStuck
PROPERTY LookupNested
CHECK_DEADLOCK FALSE
"""

THEOREMS = ["T_Level1", "T_Level1Inc", "T_Div4", "T_Single", "T_Gen", "T_Sub", "T_Partition", "T_Nest", "T_DefLocal", "T_Fold", "T_LookupCentre", "T_AdmIsHolds"]


def mc_module(emit):
    defs = ["ASSUME %s" % t for t in THEOREMS]
    defs += [
        "DefTable == LET ps == SetToSeq(Lattice) IN [i \\in DOMAIN ps |-> <<ps[i], SetToSeq(Def(ps[i]))>>]",
        "AnchorPts == {<<H, H>>, <<0, 0>>, <<S, 0>>, <<0, S>>, <<S, S>>, <<S, H>>, <<H, 0>>, <<0, H>>, <<H, S>>}",
        "AnchorTable == LET aseq == SetToSeq(AnchorPts) IN [i \\in DOMAIN aseq |-> [p |-> <<aseq[i][1] \\div H, aseq[i][2] \\div H>>, sky |-> Anchor(aseq[i], FALSE), planet |-> Anchor(aseq[i], TRUE)]]",
        "TileTable == LET g == Gen(MaxDepth) IN [i \\in DOMAIN g |-> LET t == g[i] IN [pos |-> t.pos, c |-> <<t.c[1].pt, t.c[2].pt, t.c[3].pt, t.c[4].pt>>, inc |-> t.inc]]",
        "SubPos == {p \\in AllPos : p[1] + K + 1 <= R}",
        "SubTable == LET ss == SetToSeq(SubPos) IN [i \\in DOMAIN ss |-> LET t == TileAt(ss[i]) g == Sub(t.c[1], t.c[2], t.c[3], t.c[4], t.inc, K) IN"
        "   [pos |-> ss[i], grid |-> [r \\in 1..(2^K) |-> [c \\in 1..(2^K) |-> g[<<r - 1, c - 1>>].pt]]]]",
        ("AdmTable == LET ps == SetToSeq(Lattice) IN [i \\in DOMAIN ps |-> [p |-> ps[i], adm |-> [d \\in 1..MaxDepth |-> SetToSeq(Admissible(ps[i], d))]]]"
         if emit.get("adm") else "AdmUnused == 0"),   # TLC evaluates every constant definition eagerly: define the table only when wanted
        "FoldTable == SetToSeq({<<p, Mirror(p)>> : p \\in {q \\in Lattice : OnBoundary(q) /\\ Mirror(q) # q}})",
        "ASSUME JsonSerialize(IOEnv.OUT, [R |-> R, D |-> MaxDepth, K |-> K, defs |-> DefTable, anchors |-> AnchorTable, tiles |-> TileTable,"
        " sub |-> SubTable, adm |-> %s, fold |-> FoldTable])" % ("AdmTable" if emit.get("adm") else "<<>>"),
    ]
    return tla.module("MCToast", ["ToastLookup", "Json", "IOUtils", "SequencesExt"], defs)


class Tables(object):
    pass


def run_tlc(ctx, R, D, K, adm=False, lookup_states=True):
    outp = os.path.join(ctx.scratch, "toast-%d-%d-%d.json" % (R, D, K))
    r = ctx.tlc("MCToast", extra={"MCToast.tla": mc_module({"adm": adm})}, cfg_text=CFG % dict(R=R, D=D, K=K),
                env={"OUT": outp}, timeout=3000)
    raw = json.load(open(outp))
    t = Tables()
    t.R, t.D, t.K = raw["R"], raw["D"], raw["K"]
    t.defs = raw["defs"]
    t.ndef = lattice.validate_def(t.defs, t.R)
    t.anchors = {"sky": {}, "planet": {}}
    for a in raw["anchors"]:
        t.anchors["sky"][tuple(a["p"])] = tuple(a["sky"])
        t.anchors["planet"][tuple(a["p"])] = tuple(a["planet"])
    t.tiles = [{"pos": tuple(x["pos"]), "c": [tuple(p) for p in x["c"]], "inc": x["inc"]} for x in raw["tiles"]]
    t.sub = [{"pos": tuple(x["pos"]), "grid": x["grid"]} for x in raw["sub"]]
    t.adm = {tuple(x["p"]): [set(tuple(q) for q in lst) for lst in x["adm"]] for x in raw["adm"]} if adm else {}
    t.fold = [(tuple(a), tuple(b)) for a, b in raw["fold"]]
    t.result = r
    return t


def psi_for(tables, coordsys_name):
    return lattice.Psi(tables.anchors["planet" if coordsys_name == "planetary" else "sky"])


def coordsystems():
    from toasty.toast import ToastCoordinateSystem as CS
    return [("astronomical", CS.ASTRONOMICAL), ("planetary", CS.PLANETARY)]


def tile_vecs(tile):
    """Real tile corners -> (4, 3) unit vectors."""
    c = np.array([[float(p[0]), float(p[1])] for p in tile.corners])
    return lattice.lonlat_to_vec(c[:, 0], c[:, 1])


def selfcheck_grid(psi, rng, n=6):
    """lib/lattice.Psi.grid (vectorised) agrees with the memoised scalar recursion on sampled pixels."""
    worst = 0.0
    for _ in range(n):
        lv = rng.randint(1, 4)
        x, y = rng.randrange(2 ** lv), rng.randrange(2 ** lv)
        k = rng.randint(1, 5)
        g = psi.grid(lv, x, y, k)
        for _ in range(20):
            r, c = rng.randrange(2 ** k), rng.randrange(2 ** k)
            v = psi.centre(lv + k, (2 ** k) * x + c, (2 ** k) * y + r)
            worst = max(worst, float(np.abs(g[r, c] - v).max()))
    return worst
