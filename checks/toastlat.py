"""Shared by C04 / C05 / C12 / C06: run TLC on spec/ToastLattice.tla (theorems as ASSUMEs, the point-lookup state
machine, table emission) and build the lattice embedding psi from the tables TLC emitted."""
import json
import os

import numpy as np

from lib import lattice, tla

CFG = """SPECIFICATION LSpec
CONSTANTS
 R = %(R)d
 MaxDepth = %(D)d
 K = %(K)d
INVARIANT LookupHolds
INVARIANT NeverStuck
PROPERTY LookupNested
CHECK_DEADLOCK FALSE
"""

THEOREMS = ["T_Level1", "T_Level1Inc", "T_Div4", "T_Single", "T_Gen", "T_Sub", "T_Partition", "T_Nest", "T_DefLocal", "T_Fold", "T_LookupCentre", "T_AdmIsHolds"]


def mc_module(emit):
    defs = ["ASSUME %s" % t for t in THEOREMS]
    defs += [
        "DefTable == LET ps == SetToSeq(Lattice) IN [i \\in DOMAIN ps |-> <<ps[i], SetToSeq(Def(ps[i]))>>]",
        "AnchorPts == {<<H, H>>, <<0, 0>>, <<S, 0>>, <<0, S>>, <<S, S>>, <<S, H>>, <<H, 0>>, <<0, H>>, <<H, S>>}",
        "AnchorTable == LET aseq == SetToSeq(AnchorPts) IN [i \\in DOMAIN aseq |-> [p |-> <<aseq[i][1] \\div H, aseq[i][2] \\div H>>, sky |-> Anchor(aseq[i], FALSE), planet |-> Anchor(aseq[i], TRUE)]]",
        "TileTable == LET g == Gen(MaxDepth) IN [i \\in DOMAIN g |-> LET t == g[i] IN [pos |-> t.pos, c |-> <<t.c[1].pt, t.c[2].pt, t.c[3].pt, t.c[4].pt>>, inc |-> t.inc]]",
        "SubPos == {p \\in AllPos : p[1] + K + 1 <= R}",
        "SubTable == LET ss == SetToSeq(SubPos) IN [i \\in DOMAIN ss |-> LET t == TileAt(ss[i]) g == Sub(t.c[1], t.c[2], t.c[3], t.c[4], t.inc, K) IN"
        "   [pos |-> ss[i], grid |-> [r \\in 1..(2^K) |-> [c \\in 1..(2^K) |-> g[<<r - 1, c - 1>>].pt]]]]",
        ("AdmTable == LET ps == SetToSeq(Lattice) IN [i \\in DOMAIN ps |-> [p |-> ps[i], adm |-> [d \\in 1..MaxDepth |-> SetToSeq(Admissible(ps[i], d))]]]"
         if emit.get("adm") else "AdmUnused == 0"),   # TLC evaluates every constant definition eagerly: define the table only when wanted
        "FoldTable == SetToSeq({<<p, Mirror(p)>> : p \\in {q \\in Lattice : OnBoundary(q) /\\ Mirror(q) # q}})",
        "ASSUME JsonSerialize(IOEnv.OUT, [R |-> R, D |-> MaxDepth, K |-> K, defs |-> DefTable, anchors |-> AnchorTable, tiles |-> TileTable,"
        " sub |-> SubTable, adm |-> %s, fold |-> FoldTable])" % ("AdmTable" if emit.get("adm") else "<<>>"),
    ]
    return tla.module("MCToast", ["ToastLookup", "Json", "IOUtils", "SequencesExt"], defs)


class Tables(object):
    pass


def run_tlc(ctx, R, D, K, adm=False, lookup_states=True):
    outp = os.path.join(ctx.scratch, "toast-%d-%d-%d.json" % (R, D, K))
    r = ctx.tlc("MCToast", extra={"MCToast.tla": mc_module({"adm": adm})}, cfg_text=CFG % dict(R=R, D=D, K=K),
                env={"OUT": outp}, timeout=3000)
    raw = json.load(open(outp))
    t = Tables()
    t.R, t.D, t.K = raw["R"], raw["D"], raw["K"]
    t.defs = raw["defs"]
    t.ndef = lattice.validate_def(t.defs, t.R)
    t.anchors = {"sky": {}, "planet": {}}
    for a in raw["anchors"]:
        t.anchors["sky"][tuple(a["p"])] = tuple(a["sky"])
        t.anchors["planet"][tuple(a["p"])] = tuple(a["planet"])
    t.tiles = [{"pos": tuple(x["pos"]), "c": [tuple(p) for p in x["c"]], "inc": x["inc"]} for x in raw["tiles"]]
    t.sub = [{"pos": tuple(x["pos"]), "grid": x["grid"]} for x in raw["sub"]]
    t.adm = {tuple(x["p"]): [set(tuple(q) for q in lst) for lst in x["adm"]] for x in raw["adm"]} if adm else {}
    t.fold = [(tuple(a), tuple(b)) for a, b in raw["fold"]]
    t.result = r
    return t


def psi_for(tables, coordsys_name):
    return lattice.Psi(tables.anchors["planet" if coordsys_name == "planetary" else "sky"])


def coordsystems():
    from toasty.toast import ToastCoordinateSystem as CS
    return [("astronomical", CS.ASTRONOMICAL), ("planetary", CS.PLANETARY)]


def tile_vecs(tile):
    """Real tile corners -> (4, 3) unit vectors."""
    c = np.array([[float(p[0]), float(p[1])] for p in tile.corners])
    return lattice.lonlat_to_vec(c[:, 0], c[:, 1])


def selfcheck_grid(psi, rng, n=6):
    """lib/lattice.Psi.grid (vectorised) agrees with the memoised scalar recursion on sampled pixels."""
    worst = 0.0
    for _ in range(n):
        lv = rng.randint(1, 4)
        x, y = rng.randrange(2 ** lv), rng.randrange(2 ** lv)
        k = rng.randint(1, 5)
        g = psi.grid(lv, x, y, k)
        for _ in range(20):
            r, c = rng.randrange(2 ** k), rng.randrange(2 ** k)
            v = psi.centre(lv + k, (2 ** k) * x + c, (2 ** k) * y + r)
            worst = max(worst, float(np.abs(g[r, c] - v).max()))
    return worst


# ------------------------------------------------------------------------------------------------
# histories on a reported tile: what happens to a Tile after the library has handed it out
# ------------------------------------------------------------------------------------------------

class _StubChunks(object):
    """A chunked all-sky image of 64 x 32 pixels in a 4 x 2 grid of chunks (geometry only)."""
    shape = (32, 64)
    n_chunks = 8

    def chunk_spec(self, i):
        return (16 * (i % 4), 16 * (i // 4), 16, 16)


def library_consumers(grid=False):
    """The library's own consumers of Tile objects: the eight latitude/longitude footprint filters of a chunked
    plate-carree sampler, toast_tile_area and the pixel-grid function.  Each is a callable(tile)."""
    from toasty import samplers, toast
    out = []
    s = samplers.ChunkedPlateCarreeSampler(_StubChunks(), planetary=True)
    out += [s.filter(i) for i in range(s.n_chunks)]
    out.append(toast.toast_tile_area)
    if grid:
        out.append(lambda tile: toast.toast_tile_get_coords(tile) if tile.pos.n > 0 else None)
    return out


def hand_to_consumers(tile, consumers):
    """Show the tile to every consumer (their results are not judged here)."""
    for f in consumers:
        try:
            f(tile)
        except Exception:  # noqa - a consumer that cannot digest the tile is some other check's subject
            pass


def scribble(tile):
    """The caller owns what the library returned: overwrite, in place, every writeable array reachable from the tile's
    corners (as a caller converting its tile to degrees would).  Returns the number of arrays modified.  Only to be
    called when the tile itself is no longer needed."""
    n = 0
    seen = []
    stack = [tile.corners]
    while stack:
        o = stack.pop()
        if isinstance(o, np.ndarray):
            base = o
            while isinstance(base.base, np.ndarray):
                base = base.base
            if base.flags.writeable and not any(base is b for b in seen) and base.dtype.kind == "f":
                seen.append(base)
                base *= 57.29577951308232
                base += 1000.0
                n += 1
        elif isinstance(o, (tuple, list)):
            stack.extend(o)
    return n
