"""G10 (growth, DESIGN section 7) - transform stages (value maps, tile sets, routes) and guess_base_layer_level.

spec/TransformValues.tla transcribes _float_to_rgb_do_one / _float_to_rgba_do_one / _u8_to_rgb_do_one over exact
rationals (floor(255 sqrt(p/q)) decided in integers), the tile-set rule of _do_a_transform and the level loop of
guess_base_layer_level with FitsTiler._tile_toast's maximum.  TLC checks the contract sentences on every pixel case
(single-channel and three-channel, numeric / NaN / +inf / -inf), refutes the ideal "non-finite is undefined"
(as built: InfSaturates), and emits the expected bytes of every case; the cases are laid out into real 256x256
npy tiles and pushed through f16x3_to_rgb (API serial, API parallel=2, CLI `transform fx3-to-rgb` with --outdir),
_float_to_rgba and u8_to_rgb; every output pixel and the directory listing are compared.  Level cases become real
astropy WCS objects (square / anisotropic / rotated pixels, CUNIT deg and arcsec)."""
import contextlib
import io
import math
import os
import warnings

import numpy as np

from lib import repo, tla


def _margin_ok(p, q):
    """numeric inputs for the float32 / float64 routes: 255 sqrt(p/q) at least 1e-3 away from an integer (or exact)."""
    if p <= 0 or p >= q:
        return True
    v = 255.0 * math.sqrt(p / q)
    return abs(v - round(v)) > 1e-3


def _chan_value(c, clip):
    if c[0] == "nan":
        return float("nan")
    if c[0] == "pinf":
        return float("inf")
    if c[0] == "ninf":
        return float("-inf")
    return clip * c[1] / c[2]


def _listing(d):
    out = []
    for root, _dirs, files in os.walk(d):
        for f in files:
            out.append(os.path.relpath(os.path.join(root, f), d))
    return sorted(out)


def run(ctx):
    repo.setup(ctx)
    warnings.simplefilter("ignore")
    from toasty import transform, pyramid, cli
    from toasty.pyramid import PyramidIO, Pos
    from toasty.image import Image
    from astropy.wcs import WCS

    ctx.rule = ("pixel cases = every 1- and 3-channel combination of the channel values handed to TLC (numeric p/q of clip, NaN, "
                "+inf, -inf); distinct = (route, pixel case); level cases = (p, q) pixel scales x pixel shape x unit; all non-trivial")
    rng = ctx.rng
    # ---- channel values.  F16x3 tiles: squares (a/16)^2 (exact in float16 for power-of-two clips) + out-of-range values.
    sq = [0, 1, 3, 8, 11, 16] if ctx.quick else list(range(0, 17))
    nums16 = [(a * a, 256) for a in sq] + [(-1, 2), (3, 2), (2, 1)]
    # single-channel float32 / float64 tiles: arbitrary rationals, kept away from the truncation boundaries
    cand = [(p, q) for q in (3, 7, 10, 97, 1000, 4093) for p in range(1, q)]
    rng.shuffle(cand)
    nums32 = [pq for pq in cand if _margin_ok(*pq)][: (60 if ctx.quick else 400)] + [(0, 1), (1, 1), (-5, 3), (7, 2), (1, 4), (9, 16), (1, 4096)]

    mc = tla.module("MCTransformValues", ["TransformValues", "Json", "TLC"], [
        ("MCNums", tla.lit(set(nums16))),
        ("MCMono", tla.lit(set(nums32))),
        ("MCBytes", "{0, 1, 127, 128, 254, 255}"),
        'Emit == (route = "rgb") => PrintT(<<"PX", ToJson([px |-> px, rgb |-> Rgb(px), rgba |-> Rgba(px)])>>)',
        # single-channel cases over the richer rational domain, the tile-set and level theorems: evaluated once
        'MonoCases == {<<Num(pq)>> : pq \\in MCMono}',
        'ASSUME \\A m \\in MonoCases : LET c == m[1] IN (c[2] > 0 /\\ c[2] < c[3]) => LET k == ChanByte(c) IN k * k * c[3] <= 65025 * c[2] /\\ (k + 1) * (k + 1) * c[3] > 65025 * c[2]',
        'ASSUME \\A m \\in MonoCases, n \\in MonoCases : Le(m[1], n[1]) => ChanByte(m[1]) <= ChanByte(n[1])',
        'ASSUME PrintT(<<"MONO", ToJson({[px |-> m, rgb |-> Rgb(m), rgba |-> Rgba(m)] : m \\in MonoCases})>>)',
        'Sets1 == SUBSET {p \\in Pos : p[1] <= 1}',
        'ASSUME \\A s \\in Sets1, d \\in 0..MaxDepth : TS_OnlyVisitedLevels(s, d)',
        'ASSUME \\A s \\in Sets1, o \\in Sets1, d \\in 0..MaxDepth : TS_Idempotent(o, s, d) /\\ TS_DeeperCoversShallower(o, s, d)',
    ])
    cfg = ("SPECIFICATION Spec\nCONSTANTS\n Nums <- MCNums\n Bytes <- MCBytes\n MaxDepth = 2\n"
           "INVARIANT T_Range\nINVARIANT T_Ends\nINVARIANT T_SqrtBracket\nINVARIANT T_PerfectSquares\nINVARIANT T_UndefinedIsBlack\n"
           "INVARIANT T_DefinedIsOpaque\nINVARIANT T_AlphaIsBinary\nINVARIANT T_GrayReplicates\nINVARIANT T_ChannelsIndependent\n"
           "INVARIANT T_RgbaExtendsRgb\nINVARIANT InfSaturates\nINVARIANT Emit\nPROPERTY T_Monotone\nCHECK_DEADLOCK FALSE\n")
    r = ctx.tlc("MCTransformValues", extra={"MCTransformValues.tla": mc}, cfg_text=cfg, workers=8, timeout=900)
    px_cases = {}
    for rec in r.json_lines("PX"):
        px_cases[tuple(tuple(c) for c in rec["px"])] = rec
    mono = []
    for recs in r.json_lines("MONO"):
        mono.extend(recs)
    if len(px_cases) < 100 or not mono:
        ctx.machinery("TLC emitted %d pixel cases, %d single-channel cases" % (len(px_cases), len(mono)))
        return
    # negative control: the ideal statement must be refuted
    rn = ctx.tlc("MCTransformValues", extra={"MCTransformValues.tla": mc},
                 cfg_text=cfg.replace("INVARIANT InfSaturates\n", "INVARIANT Ideal_NonFiniteIsUndefined\n").replace("INVARIANT Emit\n", ""),
                 workers=4, timeout=300, expect_violation=True, count=False)
    if not rn.violated:
        ctx.machinery("TLC no longer refutes Ideal_NonFiniteIsUndefined (negative control)")
        return
    ctx.note("as_built_deviation:InfSaturates", "an infinite pixel is not undefined for the colour transform: +inf -> 255, -inf -> 0, alpha 255 "
             "(the finiteness test runs after ManualInterval has clipped); ideal refuted by TLC")

    three = [k for k in px_cases if len(k) == 3]
    one = [k for k in px_cases if len(k) == 1]
    # ---- lay the three-channel cases into F16x3 tiles, the single-channel ones into F32 / F64 tiles
    def tiles_for(cases, nchan):
        tiles = []
        per = 256 * 256
        order = list(cases)
        rng.shuffle(order)
        for t0 in range(0, len(order), per):
            tiles.append(order[t0:t0 + per])
        return tiles

    clips = [1.0, 2.0, 0.5] if ctx.quick else [1.0, 2.0, 0.5, 8.0, 0.125]
    positions = [Pos(0, 0, 0), Pos(1, 0, 1), Pos(1, 1, 1), Pos(2, 3, 0), Pos(2, 1, 2), Pos(3, 5, 6)]

    def run_float(route, nchan, dtype, cases, expect_of, clip, how):
        """how: 'api', 'par', 'cli-out', 'api-out'.  Returns nothing; reports."""
        base = ctx.mkdtemp("g10-%s" % route)
        pio = PyramidIO(os.path.join(base, "in"), default_format="npy")
        tl = tiles_for(cases, nchan)
        placed = {}
        depth = 2
        for ti, chunk in enumerate(tl):
            pos = positions[ti % len(positions)]
            if pos in placed:
                break
            idx = np.arange(256 * 256) % len(chunk)
            vals = np.array([[_chan_value(c[ch], clip) for ch in range(nchan)] for c in chunk], dtype=np.float64).astype(dtype)
            arr = vals[idx]
            arr = arr.reshape((256, 256, nchan)) if nchan == 3 else arr.reshape((256, 256))
            pio.write_image(pos, Image.from_array(arr), format="npy")
            placed[pos] = (chunk, idx)
        # a tile deeper than the requested depth must be left alone; shallower and equal levels are visited
        before = _listing(os.path.join(base, "in"))
        out_dir = os.path.join(base, "in")
        with contextlib.redirect_stdout(io.StringIO()), contextlib.redirect_stderr(io.StringIO()):
            if route == "rgb":
                if how == "api":
                    transform.f16x3_to_rgb(pio, depth, clip=clip, parallel=1)
                elif how == "par":
                    transform.f16x3_to_rgb(pio, depth, clip=clip, parallel=2)
                elif how == "api-out":
                    out_dir = os.path.join(base, "out")
                    transform.f16x3_to_rgb(pio, depth, clip=clip, parallel=1, pio_out=PyramidIO(out_dir))
                else:
                    out_dir = os.path.join(base, "out")
                    cli.entrypoint(["transform", "fx3-to-rgb", "--parallelism", "1", "--start", str(depth), "--clip", repr(clip),
                                    "--outdir", out_dir, os.path.join(base, "in")])
            else:
                from astropy import visualization as viz
                tr = viz.SqrtStretch() + viz.ManualInterval(0, clip)
                transform._float_to_rgba(pio, depth, tr, parallel=(2 if how == "par" else 1))
        ctx.count()
        pout = PyramidIO(out_dir, default_format="png")
        key = "G10:%s:%s" % (route, how)
        for pos, (chunk, idx) in placed.items():
            img = pout.read_image(pos, format="png") if os.path.exists(pout.tile_path(pos, format="png", makedirs=False)) else None
            if pos.n > depth:
                if img is not None:
                    ctx.violation(key + ":deeper-level-written", "tile %s is below the requested depth %d yet an output tile was written" % (pos, depth), {"pos": list(pos)})
                continue
            if img is None:
                ctx.violation(key + ":tile-missing", "input tile %s (level <= %d) has no output tile in %s" % (pos, depth, out_dir), {"pos": list(pos), "how": how})
                continue
            got = img.asarray().reshape((256 * 256, -1))
            want = np.array([expect_of(px_case) for px_case in chunk], dtype=np.int64)[idx]
            full = [chunk[j] for j in idx[:len(chunk)]]
            if got.shape[1] != want.shape[1]:
                ctx.violation(key + ":mode", "output tile %s has %d channels, specified %d" % (pos, got.shape[1], want.shape[1]), {"pos": list(pos)})
                continue
            bad = np.nonzero((got.astype(np.int64) != want).any(axis=1))[0]
            ctx.trace_ok(len(chunk))
            for c in chunk:
                ctx.distinct((route, c))
            if len(bad):
                i = int(bad[0])
                ctx.violation(key + ":pixel-values", "%s %s clip=%r dtype=%s: pixel case %s -> %s, TLC specifies %s (%d of 65536 pixels differ)"
                              % (route, how, clip, np.dtype(dtype).name, chunk[idx[i]], got[i].tolist(), want[i].tolist(), len(bad)),
                              {"route": route, "how": how, "clip": clip, "case": [list(c) for c in chunk[idx[i]]], "got": got[i].tolist(), "want": want[i].tolist()})
        # input pyramid untouched (apart from the outputs when in place)
        after = [f for f in _listing(os.path.join(base, "in")) if f.endswith(".npy")]
        if after != [f for f in before if f.endswith(".npy")]:
            ctx.violation(key + ":input-changed", "the set of input tiles changed during the transform", {"before": before, "after": after})
        if out_dir != os.path.join(base, "in"):
            extra = [f for f in _listing(os.path.join(base, "in")) if not f.endswith(".npy")]
            if extra:
                ctx.violation(key + ":wrote-into-input", "with a separate output pyramid files appeared in the input pyramid: %s" % extra[:4], {"files": extra[:10]})
        outs = [f for f in _listing(out_dir) if f.endswith(".png")]
        want_n = len([p for p in placed if p.n <= depth])
        if len(outs) != want_n:
            ctx.violation(key + ":tile-set", "%d output tiles, specified %d (Written(inSet, %d))" % (len(outs), want_n, depth), {"outs": outs})

    rgb_of = lambda c: px_cases[c]["rgb"]
    rgba_of = lambda c: px_cases[c]["rgba"]
    mono_map = {tuple(tuple(c) for c in m["px"]): m for m in mono}
    hows = ["api", "par", "api-out", "cli-out"]
    for i, clip in enumerate(clips):
        run_float("rgb", 3, np.float16, three, rgb_of, clip, hows[i % len(hows)])
    run_float("rgb", 3, np.float16, three, rgb_of, 1.0, "cli-out")
    run_float("rgba", 3, np.float16, three, rgba_of, 1.0, "api")
    for dtype in (np.float32, np.float64):
        for clip in (1.0, 3.0):
            run_float("rgb", 1, dtype, list(mono_map), lambda c: mono_map[c]["rgb"], clip, "api")
        run_float("rgba", 1, dtype, list(mono_map), lambda c: mono_map[c]["rgba"], 1.0, "api")
    run_float("rgb", 1, np.float32, one, rgb_of, 1.0, "api-out")

    # ---- u8 route: gray bytes replicated into the three channels of a JPEG tile (8x8 constant blocks; JPEG tolerance 2)
    base = ctx.mkdtemp("g10-u8")
    pio = PyramidIO(os.path.join(base, "in"), default_format="npy")
    vals = [0, 1, 127, 128, 254, 255, 17, 200]
    blocks = np.array([[vals[(bi + bj) % len(vals)] for bj in range(32)] for bi in range(32)], dtype=np.uint8)
    arr = np.kron(blocks, np.ones((8, 8), dtype=np.uint8))
    for pos in (Pos(0, 0, 0), Pos(1, 1, 0), Pos(3, 2, 2)):
        pio.write_image(pos, Image.from_array(arr), format="npy")
    with contextlib.redirect_stdout(io.StringIO()), contextlib.redirect_stderr(io.StringIO()):
        transform.u8_to_rgb(pio, 1, parallel=1)
    ctx.count()
    for pos in (Pos(0, 0, 0), Pos(1, 1, 0)):
        p = pio.tile_path(pos, format="jpg", makedirs=False)
        if not os.path.exists(p):
            ctx.violation("G10:u8:tile-missing", "u8_to_rgb wrote no jpg for %s" % (pos,), {"pos": list(pos)})
            continue
        got = pio.read_image(pos, format="jpg").asarray().astype(np.int64)
        ctx.trace_ok()
        if got.shape != (256, 256, 3) or np.abs(got - arr[..., None].astype(np.int64)).max() > 2:
            ctx.violation("G10:u8:pixel-values", "u8_to_rgb: decoded JPEG differs from the replicated byte by %d (> 2) at %s"
                          % (int(np.abs(got - arr[..., None]).max()) if got.shape == (256, 256, 3) else -1, pos), {"pos": list(pos)})
    if os.path.exists(pio.tile_path(Pos(3, 2, 2), format="jpg", makedirs=False)):
        ctx.violation("G10:u8:deeper-level-written", "u8_to_rgb(depth 1) wrote a level-3 tile", {})

    # ---- guess_base_layer_level
    lv = [(2, 1), (999, 1000), (1001, 1000), (3, 4), (1001, 2000), (999, 2000), (1, 3), (1, 5), (1001, 4000), (999, 4000), (1, 1000), (1001, 1024000),
          (999, 1024000), (1, 100000), (3, 100000), (1, 7), (5, 7)]
    lmod = tla.module("MCLevels", ["TransformValues", "Json", "TLC"], [
        ("LV", tla.lit(set(lv))),
        ("LVN", "{<<0, 1>>}"),
        "ASSUME \\A s \\in LV : L_AtLeastOne(s[1], s[2]) /\\ L_CoarseIsOne(s[1], s[2]) /\\ L_Least(s[1], s[2]) /\\ L_HalvingAddsOne(s[1], s[2])",
        "ASSUME \\A s \\in LV, t \\in LV : L_Monotone(s[1], s[2], t[1], t[2])",
        'ASSUME PrintT(<<"LV", ToJson({[p |-> s[1], q |-> s[2], level |-> Level(s[1], s[2])] : s \\in LV})>>)',
        'ASSUME PrintT(<<"SL", ToJson({[a |-> s, b |-> t, start |-> StartLevel({s, t})] : s \\in LV, t \\in LV})>>)',
    ])
    rl = ctx.tlc("MCLevels", extra={"MCLevels.tla": lmod}, cfg_text="SPECIFICATION Spec\nCONSTANTS\n Nums <- LVN\n Bytes = {}\n MaxDepth = 0\nINVARIANT T_Range\nCHECK_DEADLOCK FALSE\n", workers=1, timeout=300)
    levels = [x for recs in rl.json_lines("LV") for x in recs]
    if len(levels) != len(lv):
        ctx.machinery("TLC emitted %d level cases, expected %d" % (len(levels), len(lv)))
        return
    base_arcmin = 21.095

    def wcs_for(p, q, shape_kind, unit):
        side_deg = base_arcmin / 60.0 * p / q
        f = {"square": 1.0, "aniso": 1.37, "rot": 1.0}[shape_kind]
        w = WCS(naxis=2)
        w.wcs.ctype = ["RA---TAN", "DEC--TAN"]
        w.wcs.crval = [30.0, 10.0]
        w.wcs.crpix = [50.0, 50.0]
        k = 3600.0 if unit == "arcsec" else 1.0
        if shape_kind == "rot":
            c, s = math.cos(0.7), math.sin(0.7)
            w.wcs.cd = np.array([[-c, s], [s, c]]) * side_deg * k
        else:
            w.wcs.cd = np.array([[-side_deg * f, 0.0], [0.0, side_deg / f]]) * k
        w.wcs.cunit = [unit, unit]
        return w

    for rec in levels:
        for kind in ("square", "aniso", "rot"):
            for unit in ("deg", "arcsec"):
                ctx.count()
                ctx.trace_ok()
                ctx.distinct(("level", rec["p"], rec["q"], kind, unit))
                try:
                    got = pyramid.guess_base_layer_level(wcs_for(rec["p"], rec["q"], kind, unit))
                except Exception as e:  # noqa
                    ctx.violation("G10:level:raises", "guess_base_layer_level raised %r for side = 21.095' * %d/%d (%s, %s)" % (e, rec["p"], rec["q"], kind, unit), rec)
                    continue
                if got != rec["level"]:
                    ctx.violation("G10:level:answer", "guess_base_layer_level = %r for side = 21.095' * %d/%d (%s pixels, CUNIT %s); TLC specifies %d"
                                  % (got, rec["p"], rec["q"], kind, unit, rec["level"]), dict(rec, kind=kind, unit=unit, got=int(got)))
    ctx.sample(levels[0])
    ctx.sample(px_cases[three[0]])
    ctx.note("level_cases", len(levels) * 6)
    ctx.note("pixel_cases", {"three_channel": len(three), "single_channel_f16_domain": len(one), "single_channel_rational": len(mono)})
    ctx.assume("the hand-over of positions to workers is WorkQueue.tla's (C03); numeric single-channel inputs are kept 1e-3 away from a "
               "truncation boundary (float32 rounding), three-channel float16 inputs are exact squares; exact level boundaries "
               "(side = 21.095' / 2^j) are excluded because the pixel area is a float")
