"""C03 - parallel stages hand every work item to exactly one worker and then terminate.

Spec: spec/WorkQueue.tla (producer / bounded queue / feeder / workers / shutdown handshake), instantiated for
the four stages of toasty that share this protocol.
  (1) TLC, exhaustive + liveness: AtMostOnce, ReturnedImpliesAll, NoLossAtSet, Bounded, Ends.
  (2) spec -> code (M2): TLC-simulated behaviours are stepped through the REAL visit_leaves / transform code
      running on a fake multiprocessing whose primitives are scheduling points; the projected state of the real
      run (queue buffer, pipe, semaphore, reader lock, flag, every actor's program position, callback log,
      outcome) must equal the spec state after every step.
  (3) direct exploration of the real code (all four stages) under random and adversarial schedules derived from
      the spec's actions; property monitors decide.
  (4) real processes: per-pid logs, each item exactly once, all workers gone at return.
"""
import itertools
import os
import time

from lib import repo, simmp, simrun, tla
from lib.tlc import parse_sim_stream

CFG = """SPECIFICATION Spec
CONSTANTS
 NItems = %(n)d
 NW = %(w)d
 Cap = %(cap)d
 FaultSets <- %(faults)s
 Checked = TRUE
 FlagFirst = TRUE
 PipeCap = 99
 JoinChecked = TRUE
INVARIANT AtMostOnce
INVARIANT ReturnedImpliesAll
INVARIANT NoLossAtSet
INVARIANT Bounded
INVARIANT NeverSwallowed
INVARIANT RaisedOnlyOnFault
PROPERTY Ends
PROPERTY ReturnsWhenFaultFree
CHECK_DEADLOCK FALSE
"""

SIMCFG = """SPECIFICATION SimSpec
CONSTANTS
 NItems = %(n)d
 NW = %(w)d
 Cap = %(cap)d
 FaultSets <- %(faults)s
 Checked = TRUE
 FlagFirst = TRUE
 PipeCap = 99
 JoinChecked = TRUE
INVARIANT AtMostOnce
INVARIANT ReturnedImpliesAll
INVARIANT Emit
CHECK_DEADLOCK FALSE
"""


# ------------------------------------------------------------------------------------------------
# stage adaptors: run one real stage with `parallel` workers; the harness callback brackets the item with
# cb_start / cb_end sync points and raises for items in `faults` (used by C19).
# ------------------------------------------------------------------------------------------------

class UnpicklableError(Exception):
    """An exception instance that cannot cross a process boundary (it carries a lock)."""

    def __init__(self, msg):
        Exception.__init__(self, msg)
        import threading
        self.lock = threading.Lock()


def raise_fault(flavour, key):
    """plain: an ordinary exception; unpicklable: one that cannot be sent through a queue; signal: the worker is
    killed (negative exit status), as by the OOM killer or a crash in native code."""
    if flavour == "unpicklable":
        raise UnpicklableError("injected fault at %r" % (key,))
    if flavour == "signal":
        raise simmp.Killed()
    if flavour == "oserror":
        raise IsADirectoryError(21, "injected fault at %r" % (key,))
    if flavour in ("oserror-eagain", "oserror-eio", "oserror-estale"):
        # the errnos of "transient" I/O trouble (NFS / Lustre hiccups); here the trouble persists: the item fails every time
        import errno as _errno
        code = {"oserror-eagain": _errno.EAGAIN, "oserror-eio": _errno.EIO, "oserror-estale": _errno.ESTALE}[flavour]
        raise OSError(code, "injected fault at %r" % (key,))
    if flavour == "oserror-noerrno":
        # what damaged inputs produce (PIL: "image file is truncated", astropy: "Empty or corrupt FITS file"): errno is None
        raise OSError("injected fault at %r" % (key,))
    if flavour == "exit-status":
        # an error reported the way command-line code does: sys.exit with a message (exit status 1)
        raise SystemExit("injected fault at %r" % (key,))
    raise ValueError("injected fault at %r" % (key,))


class Stage(object):
    name = None
    key = None

    def items(self):
        """Serial-mode item list (the reference set), as hashable keys in producer order."""
        raise NotImplementedError

    def main(self, parallel, log, faults=()):
        raise NotImplementedError

    flavour = "plain"

    def _cb(self, key, log, faults, extra=None):
        simmp.cb_sync("cb_start", (key, extra), log)
        if key in faults:
            raise_fault(self.flavour, key)
        simmp.cb_sync("cb_end", (key, extra), log)


class LeafStage(Stage):
    def __init__(self, label, depth, kind="toast", accept=None, apex=None, coordsys=None):
        self.name = "visit_leaves[%s]" % label
        self.key = "visit_leaves"
        self.depth, self.kind, self.accept, self.apex, self.coordsys = depth, kind, accept, apex, coordsys

    def pyramid(self):
        from toasty.pyramid import Pyramid, Pos
        if self.kind == "generic":
            p = Pyramid.new_generic(self.depth)
        elif self.accept is None:
            p = Pyramid.new_toast(self.depth)
        else:
            acc = self.accept
            p = Pyramid.new_toast_filtered(self.depth, lambda t: tuple(t.pos) in acc)
        if self.apex is not None:
            p = p.subpyramid(Pos(*self.apex))
        return p

    def items(self):
        out = []
        with simrun.quiet():
            self.pyramid().visit_leaves(lambda pos, tile: out.append(tuple(pos)), parallel=1)
        return out

    def main(self, parallel, log, faults=()):
        def cb(pos, tile):
            geo = None
            if self.kind != "generic":
                geo = None if tile is None else tuple(tile.pos)
            self._cb(tuple(pos), log, faults, geo)
        return lambda: self.pyramid().visit_leaves(cb, parallel=parallel)


class TransformStage(Stage):
    def __init__(self, depth):
        self.name = "transform[depth %d]" % depth
        self.key = "transform"
        self.depth = depth

    def items(self):
        from toasty.pyramid import generate_pos
        return [tuple(p) for p in generate_pos(self.depth)]

    def main(self, parallel, log, faults=()):
        from toasty import transform

        def do_one(buf, pos, pio_in, pio_out):
            self._cb(tuple(pos), log, faults)
        return lambda: transform._do_a_transform(None, self.depth, lambda: None, do_one, parallel=parallel)


_MT_HOOK = {"index": {}, "cb": None, "installed": False}


class MultiTanStage(Stage):
    """MultiTanProcessor.tile over a small FITS collection; the per-item hook is the sub-tiling's
    generate_populated_positions(), which the worker calls exactly once per input image."""

    def __init__(self, ctx, n_images, shape=(50, 60), mef=False):
        self.name = "multi_tan[%d images of %dx%d%s]" % (n_images, shape[1], shape[0], ", as the HDUs of one file listed once per HDU" if mef else "")
        self.key = "multi_tan"
        self.n = n_images
        self.mef = mef
        self.hdu_index = None
        self.dir = ctx.mkdtemp("mtan")
        import numpy as np
        from astropy.io import fits
        from astropy.wcs import WCS
        self.paths = []
        hdus = []
        for i in range(n_images):
            w = WCS(naxis=2)
            w.wcs.ctype = ["RA---TAN", "DEC--TAN"]
            w.wcs.crval = [10.0, 20.0]
            w.wcs.cd = [[-1e-3, 0], [0, 1e-3]]
            w.wcs.crpix = [40.5 - 30 * i, 30.5]
            data = np.full(shape, float(i + 1), dtype=np.float32)
            if mef:
                hdus.append(fits.ImageHDU(data=data, header=w.to_header()))
                continue
            p = os.path.join(self.dir, "in%d.fits" % i)
            fits.PrimaryHDU(data=data, header=w.to_header()).writeto(p)
            self.paths.append(p)
        if mef:
            p = os.path.join(self.dir, "all.fits")
            fits.HDUList([fits.PrimaryHDU()] + hdus).writeto(p)
            self.paths = [p] * n_images
            self.hdu_index = list(range(1, n_images + 1))

    def items(self):
        return list(range(self.n))

    def main(self, parallel, log, faults=()):
        from toasty import multi_tan, collection, study, pyramid, builder
        stage = self

        def run():
            import tempfile
            out = tempfile.mkdtemp(dir=stage.dir)
            coll = collection.SimpleFitsCollection(stage.paths, hdu_index=stage.hdu_index) if stage.hdu_index else collection.SimpleFitsCollection(stage.paths)
            proc = multi_tan.MultiTanProcessor(coll)
            pio = pyramid.PyramidIO(out, default_format="fits")
            bld = builder.Builder(pio)
            proc.compute_global_pixelization(bld)
            index = {id(d.sub_tiling): i for i, d in enumerate(proc._descs)}
            def key_of(x):      # queue items are (image, description); anything else is not an item of the spec's
                try:
                    return index.get(id(x[1].sub_tiling), -1)
                except Exception:  # noqa
                    return -1
            stage.key_of = key_of
            # the hook stays installed after this function returns or raises: in a simulated run the workers share this
            # memory and may still be delivering items while the parent is already unwinding
            _MT_HOOK["index"], _MT_HOOK["cb"] = index, (lambda i: stage._cb(i, log, faults))
            if not _MT_HOOK["installed"]:
                orig = study.StudyTiling.generate_populated_positions

                def hooked(self_tiling):
                    i = _MT_HOOK["index"].get(id(self_tiling))
                    if i is not None:
                        _MT_HOOK["cb"](i)
                    return orig(self_tiling)
                study.StudyTiling.generate_populated_positions = hooked
                _MT_HOOK["installed"] = True
            proc.tile(pio, parallel=parallel)
        return run


class MultiWcsStage(Stage):
    def __init__(self, ctx, n_images):
        self.name = "multi_wcs[%d images]" % n_images
        self.key = "multi_wcs"
        self.n = n_images
        self.dir = ctx.mkdtemp("mwcs")
        import numpy as np
        from astropy.io import fits
        from astropy.wcs import WCS
        self.paths = []
        for i in range(n_images):
            w = WCS(naxis=2)
            w.wcs.ctype = ["RA---TAN", "DEC--TAN"]
            w.wcs.crval = [10.0 + 0.02 * i, 20.0]
            w.wcs.cd = [[-1e-3, 0], [0, 1e-3]]
            w.wcs.crpix = [15.5, 10.5]
            data = np.full((20, 30), float(i + 1), dtype=np.float32)
            p = os.path.join(self.dir, "in%d.fits" % i)
            fits.PrimaryHDU(data=data, header=w.to_header()).writeto(p)
            self.paths.append(p)

    def items(self):
        return list(range(self.n))

    def main(self, parallel, log, faults=()):
        from toasty import multi_wcs, collection, pyramid, builder
        stage = self

        def run():
            import tempfile
            import numpy as np
            out = tempfile.mkdtemp(dir=stage.dir)
            coll = collection.SimpleFitsCollection(stage.paths)
            proc = multi_wcs.MultiWcsProcessor(coll)
            pio = pyramid.PyramidIO(out, default_format="fits")
            bld = builder.Builder(pio)
            proc.compute_global_pixelization(bld)

            def reproject_function(inp, output_projection=None, shape_out=None, return_footprint=False, **kw):
                arr, _wcs = inp
                v = int(round(float(np.nanmax(arr)))) - 1
                stage._cb((v), log, faults)
                return np.full(shape_out, float(v + 1), dtype=np.float32)
            proc.tile(pio, reproject_function, parallel=parallel)
        return run


# ------------------------------------------------------------------------------------------------
# monitors on one simulated / real run
# ------------------------------------------------------------------------------------------------

def judge(ctx, stage, items, out, log, policy, replay_info):
    """C03's sentences on a fault-free run."""
    started = [p[0] for tag, p, who in log if tag == "cb_start"]
    ended = [p[0] for tag, p, who in log if tag == "cb_end"]
    key = "C03:%s" % stage.key
    rep = dict(replay_info, stage=stage.name, policy=policy, status=out.status, trace_tail=[list(map(str, t)) for t in out.trace[-40:]])
    if out.status == "hang":
        return ctx.violation(key + ":hang", "%s never returns under schedule policy %s (%d of %d items done)" % (stage.name, policy, len(ended), len(items)), rep)
    if out.status == "limit":
        ctx.drift("%s: step limit reached under %s" % (stage.name, policy))
        return False
    if out.status == "raised":
        return ctx.violation(key + ":raised", "%s raised %r without any injected fault" % (stage.name, out.exc), rep)
    bad = False
    if sorted(map(repr, ended)) != sorted(map(repr, items)):
        missing = [i for i in items if i not in ended]
        dup = sorted({i for i in ended if ended.count(i) > 1})
        bad = ctx.violation(key + ":items", "%s returned normally but processed %d of %d items (missing %s, duplicated %s) under %s"
                            % (stage.name, len(set(ended)), len(items), missing[:4], dup[:4], policy), rep)
    if len(started) != len(set(started)):
        bad = ctx.violation(key + ":twice", "%s handed an item to two workers under %s" % (stage.name, policy), rep) or bad
    if out.workers_alive_at_return:
        bad = ctx.violation(key + ":workers-alive", "%s returned while workers %s were still running under %s" % (stage.name, out.workers_alive_at_return, policy), rep) or bad
    for tag, p, who in log:
        if tag == "cb_start" and p[1] is not None and p[1] != p[0]:
            bad = ctx.violation(key + ":geometry", "%s delivered leaf %s with the tile geometry of %s" % (stage.name, p[0], p[1]), rep) or bad
            break
    return bad


# ------------------------------------------------------------------------------------------------
# spec -> code replay
# ------------------------------------------------------------------------------------------------

WPC_OF_OP = {"start": "idle", "is_set": "idle", "rlock": "ready", "poll": "locked", "cb_start": "cb", "cb_end": "running"}


def make_replay(stage, items, nw):
    idx = {it: i + 1 for i, it in enumerate(items)}
    log = []
    _gkey = globals()["_key"]
    _key = lambda x: getattr(stage, "key_of", _gkey)(x)      # noqa: E731 - resolved at use: the stage defines it when it runs

    def setup(S):
        S.step("main", "ok")                       # the parent starts running
        # the parent creates the workers before its first put; bring every worker to its first flag read
        for w in range(1, nw + 1):
            name = "w%d" % w
            if S.pending(name) is None:
                raise KeyError("worker %s was not started before the first put" % name)
            S.step(name, "ok")                      # ('start',)

    def do_action(S, rec):
        act, who = rec["act"], rec["who"]
        w = "w%d" % who
        q = "q1"
        feeder = "feeder:%s:main" % q

        def need(actor, opname):
            p = S.pending(actor)
            if p is None or p[0] != opname:
                raise KeyError("%s is at %r, spec action %s needs %s" % (actor, p, act, opname))
        def joiner(S):
            """The helper thread through which the parent waits for the queue's feeder (started on demand)."""
            p = S.pending("main")
            if p is None or p[0] != "join" or not str(p[1]).startswith("main/"):
                raise KeyError("main is at %r, spec action %s needs the wait for the feeder thread" % (p, act))
            if S.pending(p[1]) == ("start",):
                S.step(p[1], "ok")
            return p[1]

        def raise_path(S, rec):
            """check_workers found a dead worker: it sets the flag (one more step of the code) and raises."""
            if rec["outcome"] == "raised" and (S.pending("main") or ("",))[0] == "event_set":
                S.step("main", "ok")
        if act == "PPut":
            need("main", "put"); S.step("main", "ok")
        elif act == "PPutFull":
            need("main", "put"); S.step("main", "full_timeout")
            raise_path(S, rec)
        elif act == "PClose":
            need("main", "close"); S.step("main", "ok")
        elif act == "PJoinThread":
            p = S.pending("main")
            if p is not None and p[0] == "join_thread":          # join_thread() called by the parent itself
                S.step("main", "ok")
            else:                                                # ... or by a helper thread the parent waits for
                t = joiner(S)
                need(t, "join_thread"); S.step(t, "ok")
                S.step("main", "ok")
        elif act == "PJoinThreadPoll":
            joiner(S)
            S.step("main", "join_timeout")
            raise_path(S, rec)
        elif act == "PSetEv":
            need("main", "event_set"); S.step("main", "ok")
        elif act == "PJoinW":
            need("main", "join")
            if str(S.pending("main")[1]).startswith("main/"):
                raise KeyError("main still waits for the feeder thread, spec action PJoinW needs the join of a worker")
            S.step("main", "ok")
        elif act == "Flush":
            S.step(feeder, "flush")
        elif act == "WSample":
            need(w, "is_set"); S.step(w, "ok")
        elif act == "WAcquire":
            need(w, "rlock"); S.step(w, "acquired")
        elif act == "WLockTimeout":
            need(w, "rlock"); S.step(w, "timeout")
        elif act == "WRecv":
            need(w, "poll"); S.step(w, "item")
        elif act == "WPollTimeout":
            need(w, "poll"); S.step(w, "empty")
        elif act == "WCbStart":
            need(w, "cb_start"); S.step(w, "ok")
        elif act == "WCbEnd":
            need(w, "cb_end"); S.step(w, "ok")
        else:
            raise KeyError("unknown spec action %s" % act)

    def project(S):
        q = S.queues.get("q1")
        ev = S.events[-1] if S.events else None
        st = {}
        st["buf"] = [idx.get(_key(x), -1) for x in (q.buf["main"] if q else [])]
        st["pipe"] = [idx.get(_key(x), -1) for x in (q.pipe if q else [])]
        st["sem"] = q.inflight if q else 0
        rl = q.rlock if q else None
        st["rlock"] = 0 if rl is None else int(rl[1:])
        st["doneEv"] = bool(ev.flag) if ev else False
        st["started"] = [idx.get(p[0], -1) for tag, p, who in log if tag == "cb_start"]
        st["processed"] = [idx.get(p[0], -1) for tag, p, who in log if tag == "cb_end"]
        wpc = []
        for w in range(1, nw + 1):
            name = "w%d" % w
            a = S.actors.get(name)
            p = S.pending(name)
            if a is not None and a["state"] == "done":
                wpc.append("dead" if a.get("exitcode") else "exited")
            else:
                wpc.append(WPC_OF_OP.get(p[0], "?" + p[0]) if p else "?")
        st["wpc"] = wpc
        m = S.actors["main"]
        if m["state"] == "done":
            st["outcome"] = "raised" if m.get("exc") is not None else "returned"
        else:
            st["outcome"] = "running"
        return st

    def expect(rec):
        return {"buf": rec["buf"], "pipe": rec["pipe"], "sem": rec["sem"], "rlock": rec["rlock"], "doneEv": rec["doneEv"],
                "started": rec["started"], "processed": rec["processed"], "wpc": rec["wpc"], "outcome": rec["outcome"]}
    return log, setup, do_action, project, expect


def _key(x):
    """Queue items of the real stages -> the stage's item key."""
    if isinstance(x, tuple) and len(x) == 2 and hasattr(x[0], "n"):      # (pos, tile) of visit_leaves
        return tuple(x[0])
    if hasattr(x, "n") and hasattr(x, "x"):                              # Pos of transform
        return tuple(x)
    return x


def replay_stage(ctx, stage, nw, nbeh, depth, faultsets="NoFaults", judge_faults=False, keyprefix="C03", pipecap=99):
    """Simulate the spec with the stage's real item count and queue capacity; replay each behaviour."""
    items = stage.items()
    # learn the capacity the code uses from a dry run
    log0 = []
    out0 = simrun.run(stage.main(nw, log0), simrun.pol_random(ctx.rng))
    cap = out0.maxsizes.get("q1", 0)
    if not cap or len(out0.maxsizes) != 1:
        ctx.drift("%s does not use exactly one bounded multiprocessing.Queue any more (%s); spec replay skipped" % (stage.name, out0.maxsizes))
        return 0
    cfg = (SIMCFG % dict(n=len(items), w=nw, cap=cap, faults=faultsets)).replace("PipeCap = 99", "PipeCap = %d" % pipecap)
    r = ctx.tlc("WorkQueueSim", cfg_text=cfg, simulate=nbeh, depth=depth, workers=1, timeout=300)
    behs = parse_sim_stream(r.json_lines("TR"), ["faults"])
    okc = 0
    drifted = False
    for b in behs:
        faults = {items[i - 1] for i in b[0]["faults"]}
        log, setup, do_action, project, expect = make_replay(stage, items, nw)
        try:
            n, info = simrun.replay(stage.main(nw, log, faults), b, setup, do_action, project, expect)
            okc += 1
            ctx.trace_ok()
            ctx.distinct(("replay", stage.key, tuple((x["act"], x["who"]) for x in b[1:])))
        except simrun.ReplayMismatch as e:
            if not drifted:
                ctx.drift("%s: replay of a TLC behaviour diverged: %s %s" % (stage.name, e, e.detail))
                drifted = True
            ctx.add_note("replay_divergences")
    if drifted:
        # DESIGN 2.1: TLC's exhaustive result no longer transfers to this code; explore it directly, harder
        explore(ctx, stage, nw, list(simrun.POLICIES), 12 if ctx.quick else 60)
    if behs:
        b = behs[len(behs) // 2]
        ctx.sample({"stage": stage.name, "replayed_behaviour": [[x["act"], x["who"]] for x in b[1:]][:60], "faults": b[0]["faults"],
                    "final_outcome": b[-1]["outcome"]})
    return okc


def explore(ctx, stage, nw, policies, runs_per_policy, judge_fn=judge):
    items = stage.items()
    n = 0
    for pol in policies:
        for k in range(runs_per_policy):
            log = []
            out = simrun.run(stage.main(nw, log), simrun.POLICIES[pol](ctx.rng))
            ctx.count()
            n += 1
            judge_fn(ctx, stage, items, out, log, pol, {"seed": ctx.seed, "run": k, "workers": nw})
            ctx.distinct(("sched", stage.key, nw, tuple((a, o) for a, _op, o in out.trace)))
    return n


# ------------------------------------------------------------------------------------------------
# real processes
# ------------------------------------------------------------------------------------------------

def real_leaf_run(ctx, depth, parallel, accept=None):
    """Real processes; callbacks draw tickets from a shared counter (before the work at start, after it at end) so that the
    recording is totally ordered without wall-clock time; monitors decide; TLC must explain the recording (code -> spec)."""
    import multiprocessing as mp
    from toasty.pyramid import Pyramid
    d = ctx.mkdtemp("real")
    ticket = mp.Value("i", 0)

    def cb(pos, tile):
        with ticket.get_lock():
            ticket.value += 1
            t0 = ticket.value
        x = 0
        for i in range(3000):
            x += i
        with ticket.get_lock():
            ticket.value += 1
            t1 = ticket.value
        with open(os.path.join(d, "log-%d" % os.getpid()), "a") as f:
            f.write("%d %d %d %s %d %d %d\n" % (pos.n, pos.x, pos.y, "ok" if (tile is None or tuple(tile.pos) == tuple(pos)) else "geo", t0, t1, os.getpid()))
    if accept is None:
        p = Pyramid.new_toast(depth)
    else:
        p = Pyramid.new_toast_filtered(depth, lambda t: tuple(t.pos) in accept)
    ref = []
    with simrun.quiet():
        (Pyramid.new_toast(depth) if accept is None else Pyramid.new_toast_filtered(depth, lambda t: tuple(t.pos) in accept)).visit_leaves(
            lambda pos, tile: ref.append(tuple(pos)), parallel=1)

    def body():
        with simrun.quiet():
            p.visit_leaves(cb, parallel=parallel)
            return [c.pid for c in mp.active_children() if c.is_alive()]
    from lib import guard
    kind, val = guard.run_guarded(body, 120)
    rep0 = {"depth": depth, "parallel": parallel, "accept": sorted(accept) if accept else None}
    alive = []
    if kind == "timeout":
        ctx.violation("C03:visit_leaves:hang-real", "real-process visit_leaves(parallel=%d) did not return within the 120 s backstop" % parallel, rep0)
    elif kind == "raised":
        ctx.violation("C03:visit_leaves:raised-real", "real-process visit_leaves(parallel=%d) raised %s" % (parallel, val), rep0)
    else:
        alive = val
    seen = []
    ev = []
    geo_bad = False
    for fn in os.listdir(d):
        for line in open(os.path.join(d, fn)):
            a = line.split()
            pos = (int(a[0]), int(a[1]), int(a[2]))
            seen.append(pos)
            geo_bad = geo_bad or a[3] != "ok"
            ev.append((int(a[4]), "s", pos, int(a[6])))
            ev.append((int(a[5]), "e", pos, int(a[6])))
    ctx.count()
    rep = {"depth": depth, "parallel": parallel, "accept": sorted(accept) if accept else None}
    bad = False
    if sorted(seen) != sorted(ref):
        bad = ctx.violation("C03:visit_leaves:items-real", "real-process visit_leaves(parallel=%d) processed %d items, serial mode %d (missing %s)"
                            % (parallel, len(seen), len(ref), sorted(set(ref) - set(seen))[:4]), rep)
    if alive:
        bad = ctx.violation("C03:visit_leaves:workers-alive-real", "visit_leaves returned with %d live worker processes" % len(alive), rep) or bad
    if geo_bad:
        bad = ctx.violation("C03:visit_leaves:geometry-real", "a leaf was delivered with another tile's geometry", rep) or bad
    ctx.distinct(("real", depth, parallel, None if accept is None else tuple(sorted(accept))))
    # code -> spec
    ev.sort()
    pids = []
    for _t, _k, _p, pid in ev:
        if pid not in pids:
            pids.append(pid)
    if kind == "ok" and len(ref) <= 6 and len(pids) <= parallel:
        idx = {it: i + 1 for i, it in enumerate(ref)}          # producer order = serial order
        trace = [[k, idx.get(pos, 0), pids.index(pid) + 1] for _t, k, pos, pid in ev]
        mod = tla.module("TraceConf", ["WorkQueueTrace"], [("NoFaults", "{{}}"), ("TraceSeq", tla.lit(trace))])
        cfg = ("SPECIFICATION TSpec\nCONSTANTS\n NItems = %d\n NW = %d\n Cap = %d\n FaultSets <- NoFaults\n Checked = TRUE\n FlagFirst = TRUE\n PipeCap = 99\n JoinChecked = TRUE\n Trace <- TraceSeq\n"
               "INVARIANT NotExplained\nINVARIANT AtMostOnce\nINVARIANT Bounded\nCHECK_DEADLOCK FALSE\n" % (len(ref), parallel, 2 * parallel))
        r = ctx.tlc("TraceConf", extra={"TraceConf.tla": mod}, cfg_text=cfg, expect_violation=True, timeout=900, count=False)
        if r.violated == "NotExplained":
            ctx.trace_ok()
            ctx.add_note("real_process_traces_accepted_by_tlc")
        elif not bad:
            ctx.drift("real-process visit_leaves trace (%d events, %d workers) is not a behaviour of WorkQueue according to TLC (%s)" % (len(trace), parallel, r.violated))


def run(ctx):
    repo.setup(ctx)
    ctx.rule = ("TLC explores spec/WorkQueue.tla exhaustively (all interleavings of producer, feeder, worker sub-steps and timeouts) "
                "for small item/worker/capacity constants; TLC-simulated behaviours are replayed step by step into the real stages on a fake "
                "multiprocessing with state comparison; the real stages are additionally explored under seeded random and adversarial schedule "
                "policies and with real processes. distinct = distinct schedules (full action sequences) / replayed behaviours; a schedule is "
                "non-trivial when it contains at least one item delivery")
    q = ctx.quick
    # (1) TLC exhaustive
    confs = [dict(n=4, w=2, cap=2), dict(n=4, w=2, cap=1)] if q else \
            [dict(n=4, w=2, cap=2), dict(n=4, w=2, cap=1), dict(n=3, w=3, cap=2), dict(n=5, w=2, cap=4), dict(n=4, w=3, cap=6), dict(n=3, w=3, cap=1)]
    import concurrent.futures
    jobs = [lambda c=c: ctx.tlc("MCWorkQueue", cfg_text=CFG % dict(c, faults="NoFaults"), timeout=1800, workers=4) for c in confs]
    # the OS pipe between feeder and workers: items larger than the pipe (PipeCap 0: images), a pipe of one item
    for c, pc in ([(confs[0], 0), (confs[1], 1)] if q else [(c, pc) for c in confs[:4] for pc in (0, 1)]):
        jobs.append(lambda c=c, pc=pc: ctx.tlc("MCWorkQueue", cfg_text=(CFG % dict(c, faults="NoFaults")).replace("PipeCap = 99", "PipeCap = %d" % pc), timeout=1800, workers=4))
    with concurrent.futures.ThreadPoolExecutor(max_workers=4) as ex:
        for f in [ex.submit(j) for j in jobs]:
            f.result()
    # (2) spec -> code replay
    l1 = [(1, 0, 0), (1, 1, 0), (1, 0, 1), (1, 1, 1)]
    acc5 = frozenset(l1[:2]) | {(2, 0, 0), (2, 1, 1), (2, 2, 0), (2, 3, 0), (2, 3, 1)}
    stages = [LeafStage("toast depth 1", 1), LeafStage("toast filtered depth 2, 5 leaves", 2, accept=acc5),
              LeafStage("generic sub-pyramid", 2, kind="generic", apex=(1, 1, 0)), TransformStage(1)]
    nb = 40 if q else 400
    for st in stages:
        replay_stage(ctx, st, 2, nb, 150)
    if not q:
        replay_stage(ctx, stages[0], 3, 200, 200)
    # (3) direct exploration of all four stages
    pols = list(simrun.POLICIES)
    allstages = stages + [LeafStage("toast depth 2", 2), LeafStage("planetary depth 1", 1),
                          LeafStage("toast sub-pyramid", 2, apex=(1, 0, 1)), TransformStage(2),
                          # degenerate item sets: exactly one leaf (depth 0; apex on the leaf level; a filter selecting one leaf), two leaves
                          LeafStage("toast depth 0", 0), LeafStage("generic depth 0", 0, kind="generic"),
                          LeafStage("apex on the leaf level", 2, apex=(2, 1, 2)), LeafStage("generic apex on the leaf level", 1, kind="generic", apex=(1, 1, 0)),
                          LeafStage("filter selecting one leaf", 2, accept=frozenset({(1, 1, 0), (2, 3, 1)})),
                          LeafStage("filter selecting two leaves", 2, accept=frozenset({(1, 0, 1), (2, 0, 2), (2, 1, 3)})), TransformStage(0)]
    for st in allstages:
        explore(ctx, st, 2, pols, 3 if q else 30)
        explore(ctx, st, 3, ["random", "flag-race", "starve-feeder"], 2 if q else 20)
    mt = MultiTanStage(ctx, 3)
    mw = MultiWcsStage(ctx, 3)
    # images larger than the OS pipe (64 KiB): the feeder blocks in the middle of every write until a worker receives
    mtbig = MultiTanStage(ctx, 4, shape=(150, 160))
    mtmef = MultiTanStage(ctx, 3, mef=True)
    for st in (mt, mw, mtbig, mtmef):
        explore(ctx, st, 2, ["random", "flag-race", "starve-feeder", "eager-timeout"], 2 if q else 15)
    replay_stage(ctx, mtbig, 2, 15 if q else 150, 150, pipecap=0)
    # (3a') the same stages when the dispatching process is PID 1 (a container's entry point): every worker's parent pid is 1
    # from the start - which must not be mistaken for "orphaned"
    real_getppid = os.getppid
    os.getppid = lambda: 1
    try:
        for st in [LeafStage("toast depth 2", 2), TransformStage(1), mt]:
            explore(ctx, st, 2, ["eager-timeout", "starve-feeder", "random"], 1 if q else 6)
    finally:
        os.getppid = real_getppid
    # (3b) a worker killed while it holds an item (negative exit status, e.g. the OOM killer): whatever else happens, the
    # stage must not RETURN NORMALLY with that item unprocessed (how the failure is reported is C19's subject)
    for st in [LeafStage("toast depth 2", 2), TransformStage(1), mt]:
        items = st.items()
        for k in range(2 if q else 8):
            victim = items[ctx.rng.randrange(len(items))]
            st.flavour = "signal"
            log = []
            out = simrun.run(st.main(2, log, faults={victim}), simrun.POLICIES[ctx.rng.choice(["random", "starve-feeder", "workers-last"])](ctx.rng))
            st.flavour = "plain"
            ctx.count()
            done = [p[0] for tag, p, who in log if tag == "cb_end"]
            if out.status == "returned" and victim not in done:
                ctx.violation("C03:%s:returned-after-worker-killed" % st.key,
                              "%s returned normally although the worker holding item %s was killed and the item was never processed" % (st.name, victim),
                              {"stage": st.name, "victim": victim, "trace_tail": [list(map(str, t)) for t in out.trace[-30:]]})
    # (4) real processes
    real_leaf_run(ctx, 1, 2)
    if not q:
        real_leaf_run(ctx, 2, 3)
        real_leaf_run(ctx, 2, 5, accept=acc5)
        real_leaf_run(ctx, 3, 4)
    ctx.assume("CPython's multiprocessing.Queue/Event/Process behave like the fake ones of lib/simmp.py (step structure read from multiprocessing/queues.py 3.12); the real-process runs sample that")
    ctx.assume("timeouts may fire whenever their wait condition holds (the property quantifies over every interleaving)")
