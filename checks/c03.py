"""C03 - parallel stages hand every work item to exactly one worker and then terminate.

Spec: spec/WorkQueue.tla (producer / bounded queue / feeder / workers / shutdown handshake), instantiated for
the four stages of toasty that share this protocol.
  (1) TLC, exhaustive + liveness: AtMostOnce, ReturnedImpliesAll, NoLossAtSet, Bounded, Ends.
  (2) spec -> code (M2): TLC-simulated behaviours are stepped through the REAL visit_leaves / transform code
      running on a fake multiprocessing whose primitives are scheduling points; the projected state of the real
      run (queue buffer, pipe, semaphore, reader lock, flag, every actor's program position, callback log,
      outcome) must equal the spec state after every step.
  (3) direct exploration of the real code (all four stages) under random and adversarial schedules derived from
      the spec's actions; property monitors decide.
  (4) real processes: per-pid logs, each item exactly once, all workers gone at return.
  (5) a fault of the PRODUCER's iterable part-way through the item stream while the workers stay healthy
      (spec/WorkQueueProd.tla: PFail): TLC proves ReturnedImpliesAll for the admissible reactions and refutes it for
      "wind down and return"; behaviours with PFail are replayed into the real stages, and all four stages are run
      with the fault injected under the scheduler and with real processes: a normal return with items never
      handed to a worker is a violation, an exception is fine.
  (6) histories on ONE Pyramid object (spec/LeafHistory.tla): counts / visits, then subpyramid() or a depth change,
      then a serial or parallel visit: TLC emits the leaf set of the pyramid as it is after every step; every visit
      of the replayed history must deliver exactly that set, each leaf once, with its own geometry.
"""
import ast
import contextlib
import itertools
import os
import time

from lib import repo, simmp, simrun, tla
from lib.tlc import parse_sim_stream

CFG = """SPECIFICATION Spec
CONSTANTS
 NItems = %(n)d
 NW = %(w)d
 Cap = %(cap)d
 FaultSets <- %(faults)s
 Checked = TRUE
 FlagFirst = TRUE
 PipeCap = 99
 JoinChecked = TRUE
INVARIANT AtMostOnce
INVARIANT ReturnedImpliesAll
INVARIANT NoLossAtSet
INVARIANT Bounded
INVARIANT NeverSwallowed
INVARIANT RaisedOnlyOnFault
PROPERTY Ends
PROPERTY ReturnsWhenFaultFree
CHECK_DEADLOCK FALSE
"""

PCFG = """SPECIFICATION PSpec
CONSTANTS
 NItems = %(n)d
 NW = %(w)d
 Cap = %(cap)d
 FaultSets <- NoFaults
 Checked = TRUE
 FlagFirst = TRUE
 PipeCap = 99
 JoinChecked = TRUE
 ProdFaultAt <- AnyK
 Reactions <- %(react)s
INVARIANT AtMostOnce
INVARIANT ReturnedImpliesAll
INVARIANT ReturnedImpliesAllPut
INVARIANT NoLossAtSetP
INVARIANT Bounded
INVARIANT RaisedOnlyOnFaultP
INVARIANT OnlyPutItems
PROPERTY EndsP
PROPERTY ReturnsWhenHealthy
PROPERTY RaisesWhenProducerFails
CHECK_DEADLOCK FALSE
"""

PSIMCFG = """SPECIFICATION SimSpec
CONSTANTS
 NItems = %(n)d
 NW = %(w)d
 Cap = %(cap)d
 FaultSets <- NoFaults
 Checked = TRUE
 FlagFirst = TRUE
 PipeCap = 99
 JoinChecked = TRUE
 ProdFaultAt = %(ks)s
 Reactions <- AsCoded
INVARIANT AtMostOnce
INVARIANT ReturnedImpliesAll
INVARIANT ReturnedImpliesAllPut
INVARIANT Emit
CHECK_DEADLOCK FALSE
"""

SIMCFG = """SPECIFICATION SimSpec
CONSTANTS
 NItems = %(n)d
 NW = %(w)d
 Cap = %(cap)d
 FaultSets <- %(faults)s
 Checked = TRUE
 FlagFirst = TRUE
 PipeCap = 99
 JoinChecked = TRUE
INVARIANT AtMostOnce
INVARIANT ReturnedImpliesAll
INVARIANT Emit
CHECK_DEADLOCK FALSE
"""


# ------------------------------------------------------------------------------------------------
# stage adaptors: run one real stage with `parallel` workers; the harness callback brackets the item with
# cb_start / cb_end sync points and raises for items in `faults` (used by C19).
# ------------------------------------------------------------------------------------------------

class UnpicklableError(Exception):
    """An exception instance that cannot cross a process boundary (it carries a lock)."""

    def __init__(self, msg):
        Exception.__init__(self, msg)
        import threading
        self.lock = threading.Lock()


def raise_fault(flavour, key):
    """plain: an ordinary exception; unpicklable: one that cannot be sent through a queue; signal: the worker is
    killed (negative exit status), as by the OOM killer or a crash in native code."""
    if flavour == "unpicklable":
        raise UnpicklableError("injected fault at %r" % (key,))
    if flavour == "signal":
        raise simmp.Killed()
    if flavour == "oserror":
        raise IsADirectoryError(21, "injected fault at %r" % (key,))
    if flavour in ("oserror-eagain", "oserror-eio", "oserror-estale"):
        # the errnos of "transient" I/O trouble (NFS / Lustre hiccups); here the trouble persists: the item fails every time
        import errno as _errno
        code = {"oserror-eagain": _errno.EAGAIN, "oserror-eio": _errno.EIO, "oserror-estale": _errno.ESTALE}[flavour]
        raise OSError(code, "injected fault at %r" % (key,))
    if flavour == "oserror-noerrno":
        # what damaged inputs produce (PIL: "image file is truncated", astropy: "Empty or corrupt FITS file"): errno is None
        raise OSError("injected fault at %r" % (key,))
    if flavour == "exit-status":
        # an error reported the way command-line code does: sys.exit with a message (exit status 1)
        raise SystemExit("injected fault at %r" % (key,))
    raise ValueError("injected fault at %r" % (key,))


class ProducerFault(RuntimeError):
    """What the producer's iterable raises when the harness makes it fail."""


def _workers_started():
    """Has the stage started worker processes (simulated or real)?  Producer faults are armed only then: the subject is a
    fault DURING the dispatch, with workers waiting for items."""
    S = simmp.S
    if S is not None and S.me() is not None:
        return any(p.started for p in S.procs)
    import multiprocessing as mp
    return bool(mp.active_children())


class Injector(object):
    """Fault of the producer's iterable.  The stage calls tick() at every event of its producer-side sources while workers
    exist (before each element an iterable yields, where it ends, at each evaluation of the tile filter).  In record mode
    the ticks note how many puts the parent had completed; in fault mode the j-th tick raises (after a sync point, so that
    the scheduler - and a replayed TLC behaviour - decides when)."""

    def __init__(self):
        self.mode = "off"
        self.j = None
        self.n = 0
        self.puts_before = []
        self.fired = []
        self.log = None

    def reset(self, mode="off", j=None, log=None):
        self.mode, self.j, self.n, self.puts_before, self.fired, self.log = mode, j, 0, [], [], log

    def tick(self, what):
        if self.mode == "off" or not _workers_started():
            return
        S = simmp.S
        insim = S is not None and S.me() is not None
        if insim and S.me() != "main":
            return
        j = self.n
        self.n += 1
        if self.mode == "record":
            self.puts_before.append(sum(1 for a, op, o in S.trace if a == "main" and op[0] == "put" and o == "ok") if insim else -1)
            return
        if j == self.j:
            self.fired.append(what)
            if insim:
                simmp.cb_sync("pfail", (what,), self.log)
            raise ProducerFault("injected fault of the producer's iterable at %s" % (what,))

    def wrap(self, it, name):
        """The iterable `it`, failing where told to."""
        def gen():
            for x in it:
                self.tick("%s: element %r" % (name, getattr(x, "pos", getattr(x, "collection_id", x))))
                yield x
            self.tick("%s: end" % name)
        return gen()


class Stage(object):
    name = None
    key = None
    real_dir = None          # real-process mode: callbacks append to per-pid files here instead of posting sync points

    def items(self):
        """Serial-mode item list (the reference set), as hashable keys in producer order."""
        raise NotImplementedError

    def main(self, parallel, log, faults=()):
        raise NotImplementedError

    flavour = "plain"

    def _cb(self, key, log, faults, extra=None):
        if self.real_dir is not None:
            return self._cb_real(key, extra)
        simmp.cb_sync("cb_start", (key, extra), log)
        if key in faults:
            raise_fault(self.flavour, key)
        simmp.cb_sync("cb_end", (key, extra), log)

    def _cb_real(self, key, extra):
        fn = os.path.join(self.real_dir, "log-%d" % os.getpid())
        with open(fn, "a") as f:
            f.write("s\t%r\t%r\n" % (key, extra))
        x = 0
        for i in range(2000):
            x += i
        with open(fn, "a") as f:
            f.write("e\t%r\t%r\n" % (key, extra))

    # ---- producer faults
    @property
    def inj(self):
        if "_inj" not in self.__dict__:
            self._inj = Injector()
            self._pf_table = {}
        return self._inj

    def calibrate(self, ctx, nw):
        """Learn, from one recorded run under the scheduler, which tick of the producer's sources comes after the (k-1)-th put
        and before the k-th: k -> tick index (program order of the parent: the same under every schedule)."""
        inj = self.inj
        if nw in self._pf_table:
            return self._pf_table[nw]
        inj.reset("record")
        log = []
        out = simrun.run(self.main(nw, log), simrun.pol_random(ctx.rng))
        pb = list(inj.puts_before)
        inj.reset("off")
        n = len(self.items())
        table = {}
        if out.status == "returned":
            for k in range(1, n + 2):
                js = [j for j, b in enumerate(pb) if b == k - 1]
                if js:
                    table[k] = js[-1]
        self._pf_table[nw] = table
        return table

    def arm(self, ctx, nw, k, log=None):
        """Make the producer's iterable raise instead of delivering its k-th item (k = number of items + 1: where it should have
        ended); k = 0 / None: healthy.  Returns False if this stage has no such point."""
        if not k:
            self.inj.reset("off")
            return True
        t = self.calibrate(ctx, nw)
        if k not in t:
            self.inj.reset("off")
            return False
        self.inj.reset("fault", t[k], log)
        return True


@contextlib.contextmanager
def patched(obj, name, make):
    """Temporarily replace obj.name by make(original) - the harness's way of letting a position generator of the library fail."""
    orig = getattr(obj, name)
    setattr(obj, name, make(orig))
    try:
        yield
    finally:
        setattr(obj, name, orig)


class LeafStage(Stage):
    def __init__(self, label, depth, kind="toast", accept=None, apex=None, coordsys=None, via="generator"):
        self.name = "visit_leaves[%s]" % label
        self.key = "visit_leaves"
        self.depth, self.kind, self.accept, self.apex, self.coordsys = depth, kind, accept, apex, coordsys
        self.via = via           # where a producer fault is injected: the position generator, or the user's tile filter
        if via == "filter":
            self.name += " (faults: tile filter)"

    def pyramid(self):
        from toasty.pyramid import Pyramid, Pos
        if self.kind == "generic":
            p = Pyramid.new_generic(self.depth)
        elif self.accept is None:
            p = Pyramid.new_toast(self.depth)
        else:
            acc = self.accept
            if self.via == "filter":
                inj = self.inj

                def flt(t):
                    inj.tick("tile filter evaluated at %s" % (tuple(t.pos),))
                    return tuple(t.pos) in acc
                p = Pyramid.new_toast_filtered(self.depth, flt)
            else:
                p = Pyramid.new_toast_filtered(self.depth, lambda t: tuple(t.pos) in acc)
        if self.apex is not None:
            p = p.subpyramid(Pos(*self.apex))
        return p

    def items(self):
        out = []
        with simrun.quiet():
            self.pyramid().visit_leaves(lambda pos, tile: out.append(tuple(pos)), parallel=1)
        return out

    @contextlib.contextmanager
    def sources(self):
        """The position generators the pyramid draws from, able to fail (only while a producer fault is being recorded / injected)."""
        inj = self.inj
        if inj.mode == "off" or self.via != "generator":
            yield
            return
        from toasty import pyramid, toast
        mk = lambda name: (lambda orig: (lambda *a, **k: inj.wrap(orig(*a, **k), name)))      # noqa: E731
        with patched(pyramid, "generate_pos", mk("generate_pos")), patched(toast, "generate_tiles", mk("generate_tiles")), \
                patched(toast, "generate_tiles_filtered", mk("generate_tiles_filtered")):
            yield

    def main(self, parallel, log, faults=()):
        def cb(pos, tile):
            geo = None
            if self.kind != "generic":
                geo = None if tile is None else tuple(tile.pos)
            self._cb(tuple(pos), log, faults, geo)

        def run():
            with self.sources():
                self.pyramid().visit_leaves(cb, parallel=parallel)
        return run


class TransformStage(Stage):
    def __init__(self, depth):
        self.name = "transform[depth %d]" % depth
        self.key = "transform"
        self.depth = depth

    def items(self):
        from toasty.pyramid import generate_pos
        return [tuple(p) for p in generate_pos(self.depth)]

    def main(self, parallel, log, faults=()):
        from toasty import transform

        def do_one(buf, pos, pio_in, pio_out):
            self._cb(tuple(pos), log, faults)
        inj = self.inj

        def run():
            if inj.mode == "off":
                return transform._do_a_transform(None, self.depth, lambda: None, do_one, parallel=parallel)
            with patched(transform, "generate_pos", lambda orig: (lambda *a, **k: inj.wrap(orig(*a, **k), "generate_pos"))):
                return transform._do_a_transform(None, self.depth, lambda: None, do_one, parallel=parallel)
        return run


def failing_collection(inner, inj):
    """A user-defined ImageCollection that delegates to `inner`; its images() iterator can be made to raise part-way."""
    from toasty import collection

    class FailingCollection(collection.ImageCollection):
        def descriptions(self):
            return inner.descriptions()

        def images(self):
            return inj.wrap(inner.images(), "images()")

        def export_simple(self):
            return inner.export_simple()
    return FailingCollection()


def _tiling_content(t):
    """A StudyTiling identified by its contents (queue items are pickled between real processes: object identity is lost)."""
    try:
        return tuple(sorted((k, int(v)) for k, v in vars(t).items()))
    except Exception:  # noqa
        return None


_MT_HOOK = {"index": {}, "content": {}, "cb": None, "installed": False}


class MultiTanStage(Stage):
    """MultiTanProcessor.tile over a small FITS collection; the per-item hook is the sub-tiling's
    generate_populated_positions(), which the worker calls exactly once per input image."""

    def __init__(self, ctx, n_images, shape=(50, 60), mef=False):
        self.name = "multi_tan[%d images of %dx%d%s]" % (n_images, shape[1], shape[0], ", as the HDUs of one file listed once per HDU" if mef else "")
        self.key = "multi_tan"
        self.n = n_images
        self.mef = mef
        self.hdu_index = None
        self.dir = ctx.mkdtemp("mtan")
        import numpy as np
        from astropy.io import fits
        from astropy.wcs import WCS
        self.paths = []
        hdus = []
        for i in range(n_images):
            w = WCS(naxis=2)
            w.wcs.ctype = ["RA---TAN", "DEC--TAN"]
            w.wcs.crval = [10.0, 20.0]
            w.wcs.cd = [[-1e-3, 0], [0, 1e-3]]
            w.wcs.crpix = [40.5 - 30 * i, 30.5]
            data = np.full(shape, float(i + 1), dtype=np.float32)
            if mef:
                hdus.append(fits.ImageHDU(data=data, header=w.to_header()))
                continue
            p = os.path.join(self.dir, "in%d.fits" % i)
            fits.PrimaryHDU(data=data, header=w.to_header()).writeto(p)
            self.paths.append(p)
        if mef:
            p = os.path.join(self.dir, "all.fits")
            fits.HDUList([fits.PrimaryHDU()] + hdus).writeto(p)
            self.paths = [p] * n_images
            self.hdu_index = list(range(1, n_images + 1))

    def items(self):
        return list(range(self.n))

    def main(self, parallel, log, faults=()):
        from toasty import multi_tan, collection, study, pyramid, builder
        stage = self

        def run():
            import tempfile
            out = tempfile.mkdtemp(dir=stage.dir)
            coll = collection.SimpleFitsCollection(stage.paths, hdu_index=stage.hdu_index) if stage.hdu_index else collection.SimpleFitsCollection(stage.paths)
            if stage.inj.mode != "off":
                coll = failing_collection(coll, stage.inj)
            proc = multi_tan.MultiTanProcessor(coll)
            pio = pyramid.PyramidIO(out, default_format="fits")
            bld = builder.Builder(pio)
            proc.compute_global_pixelization(bld)
            index = {id(d.sub_tiling): i for i, d in enumerate(proc._descs)}
            def key_of(x):      # queue items are (image, description); anything else is not an item of the spec's
                try:
                    return index.get(id(x[1].sub_tiling), -1)
                except Exception:  # noqa
                    return -1
            stage.key_of = key_of
            # the hook stays installed after this function returns or raises: in a simulated run the workers share this
            # memory and may still be delivering items while the parent is already unwinding
            _MT_HOOK["index"], _MT_HOOK["cb"] = index, (lambda i: stage._cb(i, log, faults))
            _MT_HOOK["content"] = {_tiling_content(d.sub_tiling): i for i, d in enumerate(proc._descs)} if stage.real_dir is not None else {}
            if not _MT_HOOK["installed"]:
                orig = study.StudyTiling.generate_populated_positions

                def hooked(self_tiling):
                    i = _MT_HOOK["index"].get(id(self_tiling))
                    if i is None and _MT_HOOK["content"]:
                        i = _MT_HOOK["content"].get(_tiling_content(self_tiling))
                    if i is not None:
                        _MT_HOOK["cb"](i)
                    return orig(self_tiling)
                study.StudyTiling.generate_populated_positions = hooked
                _MT_HOOK["installed"] = True
            proc.tile(pio, parallel=parallel)
        return run


class MultiWcsStage(Stage):
    def __init__(self, ctx, n_images):
        self.name = "multi_wcs[%d images]" % n_images
        self.key = "multi_wcs"
        self.n = n_images
        self.dir = ctx.mkdtemp("mwcs")
        import numpy as np
        from astropy.io import fits
        from astropy.wcs import WCS
        self.paths = []
        for i in range(n_images):
            w = WCS(naxis=2)
            w.wcs.ctype = ["RA---TAN", "DEC--TAN"]
            w.wcs.crval = [10.0 + 0.02 * i, 20.0]
            w.wcs.cd = [[-1e-3, 0], [0, 1e-3]]
            w.wcs.crpix = [15.5, 10.5]
            data = np.full((20, 30), float(i + 1), dtype=np.float32)
            p = os.path.join(self.dir, "in%d.fits" % i)
            fits.PrimaryHDU(data=data, header=w.to_header()).writeto(p)
            self.paths.append(p)

    def items(self):
        return list(range(self.n))

    def main(self, parallel, log, faults=()):
        from toasty import multi_wcs, collection, pyramid, builder
        stage = self

        def run():
            import tempfile
            import numpy as np
            out = tempfile.mkdtemp(dir=stage.dir)
            coll = collection.SimpleFitsCollection(stage.paths)
            if stage.inj.mode != "off":
                coll = failing_collection(coll, stage.inj)
            proc = multi_wcs.MultiWcsProcessor(coll)
            pio = pyramid.PyramidIO(out, default_format="fits")
            bld = builder.Builder(pio)
            proc.compute_global_pixelization(bld)

            def reproject_function(inp, output_projection=None, shape_out=None, return_footprint=False, **kw):
                arr, _wcs = inp
                v = int(round(float(np.nanmax(arr)))) - 1
                stage._cb((v), log, faults)
                return np.full(shape_out, float(v + 1), dtype=np.float32)
            proc.tile(pio, reproject_function, parallel=parallel)
        return run


# ------------------------------------------------------------------------------------------------
# monitors on one simulated / real run
# ------------------------------------------------------------------------------------------------

def judge(ctx, stage, items, out, log, policy, replay_info):
    """C03's sentences on a fault-free run."""
    started = [p[0] for tag, p, who in log if tag == "cb_start"]
    ended = [p[0] for tag, p, who in log if tag == "cb_end"]
    key = "C03:%s" % stage.key
    rep = dict(replay_info, stage=stage.name, policy=policy, status=out.status, trace_tail=[list(map(str, t)) for t in out.trace[-40:]])
    if out.status == "hang":
        return ctx.violation(key + ":hang", "%s never returns under schedule policy %s (%d of %d items done)" % (stage.name, policy, len(ended), len(items)), rep)
    if out.status == "limit":
        ctx.drift("%s: step limit reached under %s" % (stage.name, policy))
        return False
    if out.status == "raised":
        return ctx.violation(key + ":raised", "%s raised %r without any injected fault" % (stage.name, out.exc), rep)
    bad = False
    if sorted(map(repr, ended)) != sorted(map(repr, items)):
        missing = [i for i in items if i not in ended]
        dup = sorted({i for i in ended if ended.count(i) > 1})
        bad = ctx.violation(key + ":items", "%s returned normally but processed %d of %d items (missing %s, duplicated %s) under %s"
                            % (stage.name, len(set(ended)), len(items), missing[:4], dup[:4], policy), rep)
    if len(started) != len(set(started)):
        bad = ctx.violation(key + ":twice", "%s handed an item to two workers under %s" % (stage.name, policy), rep) or bad
    if out.workers_alive_at_return:
        bad = ctx.violation(key + ":workers-alive", "%s returned while workers %s were still running under %s" % (stage.name, out.workers_alive_at_return, policy), rep) or bad
    for tag, p, who in log:
        if tag == "cb_start" and p[1] is not None and p[1] != p[0]:
            bad = ctx.violation(key + ":geometry", "%s delivered leaf %s with the tile geometry of %s" % (stage.name, p[0], p[1]), rep) or bad
            break
    return bad


def judge_pfault(ctx, stage, items, out, log, policy, k, replay_info):
    """C03's sentence "returns only after all items have been fully processed" when the producer's iterable failed part-way while
    the workers stayed healthy: an exception is fine; a NORMAL return is not, unless every item was processed all the same."""
    fired = list(stage.inj.fired)
    if not fired:
        # the fault point was never reached (the code draws its items differently now): an ordinary run
        return judge(ctx, stage, items, out, log, policy, replay_info)
    started = [p[0] for tag, p, who in log if tag == "cb_start"]
    ended = [p[0] for tag, p, who in log if tag == "cb_end"]
    key = "C03:%s" % stage.key
    rep = dict(replay_info, stage=stage.name, policy=policy, status=out.status, producer_fault=fired[0], k=k,
               trace_tail=[list(map(str, t)) for t in out.trace[-40:]])
    bad = False
    if out.status == "returned" and sorted(map(repr, ended)) != sorted(map(repr, items)):
        missing = [i for i in items if i not in ended]
        bad = ctx.violation(key + ":returned-after-producer-fault",
                            "%s returned normally although its item stream failed part-way (%s) with healthy workers: %d of %d items were never "
                            "handed to any worker (%s ...) under %s" % (stage.name, fired[0], len(missing), len(items), missing[:4], policy), rep)
    elif out.status == "returned" and out.workers_alive_at_return:
        bad = ctx.violation(key + ":workers-alive", "%s returned while workers %s were still running under %s" % (stage.name, out.workers_alive_at_return, policy), rep)
    elif out.status in ("hang", "limit"):
        ctx.drift("%s: does not end (%s) after a fault of the producer's iterable (%s) under %s - outside C03's sentences" % (stage.name, out.status, fired[0], policy))
    if len(started) != len(set(started)):
        bad = ctx.violation(key + ":twice", "%s handed an item to two workers under %s" % (stage.name, policy), rep) or bad
    return bad


# ------------------------------------------------------------------------------------------------
# spec -> code replay
# ------------------------------------------------------------------------------------------------

WPC_OF_OP = {"start": "idle", "is_set": "idle", "rlock": "ready", "poll": "locked", "cb_start": "cb", "cb_end": "running"}


def make_replay(stage, items, nw):
    idx = {it: i + 1 for i, it in enumerate(items)}
    log = []
    _gkey = globals()["_key"]
    _key = lambda x: getattr(stage, "key_of", _gkey)(x)      # noqa: E731 - resolved at use: the stage defines it when it runs

    def setup(S):
        S.step("main", "ok")                       # the parent starts running
        # the parent creates the workers before its first put; bring every worker to its first flag read
        for w in range(1, nw + 1):
            name = "w%d" % w
            if S.pending(name) is None:
                raise KeyError("worker %s was not started before the first put" % name)
            S.step(name, "ok")                      # ('start',)

    def do_action(S, rec):
        act, who = rec["act"], rec["who"]
        w = "w%d" % who
        q = "q1"
        feeder = "feeder:%s:main" % q

        def need(actor, opname):
            p = S.pending(actor)
            if p is None or p[0] != opname:
                raise KeyError("%s is at %r, spec action %s needs %s" % (actor, p, act, opname))
        def joiner(S):
            """The helper thread through which the parent waits for the queue's feeder (started on demand)."""
            p = S.pending("main")
            if p is None or p[0] != "join" or not str(p[1]).startswith("main/"):
                raise KeyError("main is at %r, spec action %s needs the wait for the feeder thread" % (p, act))
            if S.pending(p[1]) == ("start",):
                S.step(p[1], "ok")
            return p[1]

        def raise_path(S, rec):
            """check_workers found a dead worker: it sets the flag (one more step of the code) and raises."""
            if rec["outcome"] == "raised" and (S.pending("main") or ("",))[0] == "event_set":
                S.step("main", "ok")
        if act == "PFail":
            need("main", "pfail"); S.step("main", "ok")
        elif act == "PPut":
            need("main", "put"); S.step("main", "ok")
        elif act == "PPutFull":
            need("main", "put"); S.step("main", "full_timeout")
            raise_path(S, rec)
        elif act == "PClose":
            need("main", "close"); S.step("main", "ok")
        elif act == "PJoinThread":
            p = S.pending("main")
            if p is not None and p[0] == "join_thread":          # join_thread() called by the parent itself
                S.step("main", "ok")
            else:                                                # ... or by a helper thread the parent waits for
                t = joiner(S)
                need(t, "join_thread"); S.step(t, "ok")
                S.step("main", "ok")
        elif act == "PJoinThreadPoll":
            joiner(S)
            S.step("main", "join_timeout")
            raise_path(S, rec)
        elif act == "PSetEv":
            need("main", "event_set"); S.step("main", "ok")
        elif act == "PJoinW":
            need("main", "join")
            if str(S.pending("main")[1]).startswith("main/"):
                raise KeyError("main still waits for the feeder thread, spec action PJoinW needs the join of a worker")
            S.step("main", "ok")
        elif act == "Flush":
            S.step(feeder, "flush")
        elif act == "WSample":
            need(w, "is_set"); S.step(w, "ok")
        elif act == "WAcquire":
            need(w, "rlock"); S.step(w, "acquired")
        elif act == "WLockTimeout":
            need(w, "rlock"); S.step(w, "timeout")
        elif act == "WRecv":
            need(w, "poll"); S.step(w, "item")
        elif act == "WPollTimeout":
            need(w, "poll"); S.step(w, "empty")
        elif act == "WCbStart":
            need(w, "cb_start"); S.step(w, "ok")
        elif act == "WCbEnd":
            need(w, "cb_end"); S.step(w, "ok")
        else:
            raise KeyError("unknown spec action %s" % act)

    def project(S):
        q = S.queues.get("q1")
        ev = S.events[-1] if S.events else None
        st = {}
        st["buf"] = [idx.get(_key(x), -1) for x in (q.buf["main"] if q else [])]
        st["pipe"] = [idx.get(_key(x), -1) for x in (q.pipe if q else [])]
        st["sem"] = q.inflight if q else 0
        rl = q.rlock if q else None
        st["rlock"] = 0 if rl is None else int(rl[1:])
        st["doneEv"] = bool(ev.flag) if ev else False
        st["started"] = [idx.get(p[0], -1) for tag, p, who in log if tag == "cb_start"]
        st["processed"] = [idx.get(p[0], -1) for tag, p, who in log if tag == "cb_end"]
        wpc = []
        for w in range(1, nw + 1):
            name = "w%d" % w
            a = S.actors.get(name)
            p = S.pending(name)
            if a is not None and a["state"] == "done":
                wpc.append("dead" if a.get("exitcode") else "exited")
            else:
                wpc.append(WPC_OF_OP.get(p[0], "?" + p[0]) if p else "?")
        st["wpc"] = wpc
        m = S.actors["main"]
        if m["state"] == "done":
            st["outcome"] = "raised" if m.get("exc") is not None else "returned"
        else:
            st["outcome"] = "running"
        return st

    def expect(rec):
        return {"buf": rec["buf"], "pipe": rec["pipe"], "sem": rec["sem"], "rlock": rec["rlock"], "doneEv": rec["doneEv"],
                "started": rec["started"], "processed": rec["processed"], "wpc": rec["wpc"], "outcome": rec["outcome"]}
    return log, setup, do_action, project, expect


def _key(x):
    """Queue items of the real stages -> the stage's item key."""
    if isinstance(x, tuple) and len(x) == 2 and hasattr(x[0], "n"):      # (pos, tile) of visit_leaves
        return tuple(x[0])
    if hasattr(x, "n") and hasattr(x, "x"):                              # Pos of transform
        return tuple(x)
    return x


def replay_stage(ctx, stage, nw, nbeh, depth, faultsets="NoFaults", judge_faults=False, keyprefix="C03", pipecap=99, prod=0):
    """Simulate the spec with the stage's real item count and queue capacity; replay each behaviour.  prod = number of
    producer-fault positions to mix in (WorkQueueProd: about prod/(prod+1) of the behaviours then carry a PFail)."""
    items = stage.items()
    # learn the capacity the code uses from a dry run
    log0 = []
    out0 = simrun.run(stage.main(nw, log0), simrun.pol_random(ctx.rng))
    cap = out0.maxsizes.get("q1", 0)
    if not cap or len(out0.maxsizes) != 1:
        ctx.drift("%s does not use exactly one bounded multiprocessing.Queue any more (%s); spec replay skipped" % (stage.name, out0.maxsizes))
        return 0
    ks = []
    if prod:
        table = stage.calibrate(ctx, nw)
        ks = sorted(ctx.rng.sample(sorted(table), min(prod, len(table))))
        if not ks:
            ctx.drift("%s: no point found at which its producer-side iterable can be made to fail during the dispatch" % stage.name)
    if ks:
        cfg = (PSIMCFG % dict(n=len(items), w=nw, cap=cap, ks="{%s}" % ", ".join(map(str, [0] + ks)))).replace("PipeCap = 99", "PipeCap = %d" % pipecap)
        r = ctx.tlc("WorkQueueProdSim", cfg_text=cfg, simulate=nbeh, depth=depth, workers=1, timeout=300)
        behs = parse_sim_stream(r.json_lines("TR"), ["faults", "pfail"])
    else:
        cfg = (SIMCFG % dict(n=len(items), w=nw, cap=cap, faults=faultsets)).replace("PipeCap = 99", "PipeCap = %d" % pipecap)
        r = ctx.tlc("WorkQueueSim", cfg_text=cfg, simulate=nbeh, depth=depth, workers=1, timeout=300)
        behs = parse_sim_stream(r.json_lines("TR"), ["faults"])
    okc = 0
    drifted = False
    npf = 0
    for b in behs:
        faults = {items[i - 1] for i in b[0]["faults"]}
        log, setup, do_action, project, expect = make_replay(stage, items, nw)
        k = b[0].get("pfail", 0)
        stage.arm(ctx, nw, k, log)
        try:
            n, info = simrun.replay(stage.main(nw, log, faults), b, setup, do_action, project, expect)
            okc += 1
            ctx.trace_ok()
            ctx.distinct(("replay", stage.key, k, tuple((x["act"], x["who"]) for x in b[1:])))
            if any(x["act"] == "PFail" for x in b[1:]):
                npf += 1
        except simrun.ReplayMismatch as e:
            if not drifted:
                ctx.drift("%s: replay of a TLC behaviour diverged: %s %s" % (stage.name, e, e.detail))
                drifted = True
            ctx.add_note("replay_divergences")
        finally:
            stage.arm(ctx, nw, 0)
    if npf:
        ctx.add_note("replayed_behaviours_with_producer_fault", npf)
    if drifted:
        # DESIGN 2.1: TLC's exhaustive result no longer transfers to this code; explore it directly, harder
        explore(ctx, stage, nw, list(simrun.POLICIES), 12 if ctx.quick else 60)
        if ks:
            explore_pfault(ctx, stage, nw, list(simrun.POLICIES), 3 if ctx.quick else 12)
    if behs:
        b = behs[len(behs) // 2]
        ctx.sample({"stage": stage.name, "replayed_behaviour": [[x["act"], x["who"]] for x in b[1:]][:60], "faults": b[0]["faults"],
                    "producer_fault_at": b[0].get("pfail", 0), "final_outcome": b[-1]["outcome"]})
    return okc


def explore_pfault(ctx, stage, nw, policies, runs_per_policy):
    """The stage under the scheduler with its producer-side iterable failing at a seeded position k of the item stream."""
    items = stage.items()
    table = stage.calibrate(ctx, nw)
    if not table:
        ctx.drift("%s: no point found at which its producer-side iterable can be made to fail during the dispatch" % stage.name)
        return 0
    n = 0
    for pol in policies:
        for r_ in range(runs_per_policy):
            k = ctx.rng.choice(sorted(table))
            log = []
            stage.arm(ctx, nw, k, log)
            try:
                out = simrun.run(stage.main(nw, log), simrun.POLICIES[pol](ctx.rng))
                ctx.count()
                n += 1
                judge_pfault(ctx, stage, items, out, log, pol, k, {"seed": ctx.seed, "run": r_, "workers": nw})
                ctx.distinct(("sched-pfault", stage.key, nw, k, tuple((a, o) for a, _op, o in out.trace)))
            finally:
                stage.arm(ctx, nw, 0)
    return n


def explore(ctx, stage, nw, policies, runs_per_policy, judge_fn=judge):
    items = stage.items()
    n = 0
    for pol in policies:
        for k in range(runs_per_policy):
            log = []
            out = simrun.run(stage.main(nw, log), simrun.POLICIES[pol](ctx.rng))
            ctx.count()
            n += 1
            judge_fn(ctx, stage, items, out, log, pol, {"seed": ctx.seed, "run": k, "workers": nw})
            ctx.distinct(("sched", stage.key, nw, tuple((a, o) for a, _op, o in out.trace)))
    return n


# ------------------------------------------------------------------------------------------------
# real processes
# ------------------------------------------------------------------------------------------------

def real_leaf_run(ctx, depth, parallel, accept=None):
    """Real processes; callbacks draw tickets from a shared counter (before the work at start, after it at end) so that the
    recording is totally ordered without wall-clock time; monitors decide; TLC must explain the recording (code -> spec)."""
    import multiprocessing as mp
    from toasty.pyramid import Pyramid
    d = ctx.mkdtemp("real")
    ticket = mp.Value("i", 0)

    def cb(pos, tile):
        with ticket.get_lock():
            ticket.value += 1
            t0 = ticket.value
        x = 0
        for i in range(3000):
            x += i
        with ticket.get_lock():
            ticket.value += 1
            t1 = ticket.value
        with open(os.path.join(d, "log-%d" % os.getpid()), "a") as f:
            f.write("%d %d %d %s %d %d %d\n" % (pos.n, pos.x, pos.y, "ok" if (tile is None or tuple(tile.pos) == tuple(pos)) else "geo", t0, t1, os.getpid()))
    if accept is None:
        p = Pyramid.new_toast(depth)
    else:
        p = Pyramid.new_toast_filtered(depth, lambda t: tuple(t.pos) in accept)
    ref = []
    with simrun.quiet():
        (Pyramid.new_toast(depth) if accept is None else Pyramid.new_toast_filtered(depth, lambda t: tuple(t.pos) in accept)).visit_leaves(
            lambda pos, tile: ref.append(tuple(pos)), parallel=1)

    def body():
        with simrun.quiet():
            p.visit_leaves(cb, parallel=parallel)
            return [c.pid for c in mp.active_children() if c.is_alive()]
    from lib import guard
    kind, val = guard.run_guarded(body, 120)
    rep0 = {"depth": depth, "parallel": parallel, "accept": sorted(accept) if accept else None}
    alive = []
    if kind == "timeout":
        ctx.violation("C03:visit_leaves:hang-real", "real-process visit_leaves(parallel=%d) did not return within the 120 s backstop" % parallel, rep0)
    elif kind == "raised":
        ctx.violation("C03:visit_leaves:raised-real", "real-process visit_leaves(parallel=%d) raised %s" % (parallel, val), rep0)
    else:
        alive = val
    seen = []
    ev = []
    geo_bad = False
    for fn in os.listdir(d):
        for line in open(os.path.join(d, fn)):
            a = line.split()
            pos = (int(a[0]), int(a[1]), int(a[2]))
            seen.append(pos)
            geo_bad = geo_bad or a[3] != "ok"
            ev.append((int(a[4]), "s", pos, int(a[6])))
            ev.append((int(a[5]), "e", pos, int(a[6])))
    ctx.count()
    rep = {"depth": depth, "parallel": parallel, "accept": sorted(accept) if accept else None}
    bad = False
    if sorted(seen) != sorted(ref):
        bad = ctx.violation("C03:visit_leaves:items-real", "real-process visit_leaves(parallel=%d) processed %d items, serial mode %d (missing %s)"
                            % (parallel, len(seen), len(ref), sorted(set(ref) - set(seen))[:4]), rep)
    if alive:
        bad = ctx.violation("C03:visit_leaves:workers-alive-real", "visit_leaves returned with %d live worker processes" % len(alive), rep) or bad
    if geo_bad:
        bad = ctx.violation("C03:visit_leaves:geometry-real", "a leaf was delivered with another tile's geometry", rep) or bad
    ctx.distinct(("real", depth, parallel, None if accept is None else tuple(sorted(accept))))
    # code -> spec
    ev.sort()
    pids = []
    for _t, _k, _p, pid in ev:
        if pid not in pids:
            pids.append(pid)
    if kind == "ok" and len(ref) <= 6 and len(pids) <= parallel:
        idx = {it: i + 1 for i, it in enumerate(ref)}          # producer order = serial order
        trace = [[k, idx.get(pos, 0), pids.index(pid) + 1] for _t, k, pos, pid in ev]
        mod = tla.module("TraceConf", ["WorkQueueTrace"], [("NoFaults", "{{}}"), ("TraceSeq", tla.lit(trace))])
        cfg = ("SPECIFICATION TSpec\nCONSTANTS\n NItems = %d\n NW = %d\n Cap = %d\n FaultSets <- NoFaults\n Checked = TRUE\n FlagFirst = TRUE\n PipeCap = 99\n JoinChecked = TRUE\n Trace <- TraceSeq\n"
               "INVARIANT NotExplained\nINVARIANT AtMostOnce\nINVARIANT Bounded\nCHECK_DEADLOCK FALSE\n" % (len(ref), parallel, 2 * parallel))
        r = ctx.tlc("TraceConf", extra={"TraceConf.tla": mod}, cfg_text=cfg, expect_violation=True, timeout=900, count=False)
        if r.violated == "NotExplained":
            ctx.trace_ok()
            ctx.add_note("real_process_traces_accepted_by_tlc")
        elif not bad:
            ctx.drift("real-process visit_leaves trace (%d events, %d workers) is not a behaviour of WorkQueue according to TLC (%s)" % (len(trace), parallel, r.violated))


def real_stage_run(ctx, stage, parallel, k=0):
    """One stage with real worker processes (callbacks append to per-pid files), optionally with its producer-side iterable failing
    at position k of the item stream.  Runs in a forked child in its own process group (the unchanged code leaves its daemonic
    workers polling when the producer raises; they are killed with the group)."""
    import multiprocessing as mp
    from lib import guard
    items = stage.items()
    if not stage.arm(ctx, parallel, k):
        ctx.drift("%s: no point found at which its producer-side iterable can be made to fail at item %d" % (stage.name, k))
        return
    d = ctx.mkdtemp("realstage")
    stage.real_dir = d
    fn = stage.main(parallel, None)

    def body():
        status = "returned"
        with simrun.quiet():
            try:
                fn()
            except BaseException as e:  # noqa
                status = "raised: %r" % (e,)
        alive = [c.pid for c in mp.active_children() if c.is_alive()]
        # the unchanged code leaves its (daemonic) workers polling the abandoned queue when the producer raises: end them here,
        # this child leaves through os._exit and would orphan them
        for c in mp.active_children():
            c.kill()
        for c in mp.active_children():
            c.join(5)
        return status, alive, list(stage.inj.fired)
    try:
        kind, val = guard.run_guarded(body, 120)
    finally:
        stage.real_dir = None
        stage.arm(ctx, parallel, 0)
    ctx.count()
    key = "C03:%s" % stage.key
    rep = {"stage": stage.name, "parallel": parallel, "producer_fault_at": k}
    if kind == "timeout":
        if k:
            ctx.drift("%s with real processes did not end within the 120 s backstop after a fault of the producer's iterable" % stage.name)
        else:
            ctx.violation(key + ":hang-real", "real-process %s (parallel=%d) did not return within the 120 s backstop" % (stage.name, parallel), rep)
        return
    if kind == "raised":
        ctx.machinery("real-process run of %s broke: %s" % (stage.name, val))
        return
    status, alive, fired = val
    ended, started = [], []
    for fn_ in os.listdir(d):
        for line in open(os.path.join(d, fn_)):
            tag, item, _extra = line.rstrip("\n").split("\t")
            item = ast.literal_eval(item)
            (started if tag == "s" else ended).append(item)
    rep["status"] = status
    rep["producer_fault"] = fired[:1]
    ctx.distinct(("real-stage", stage.key, parallel, k))
    if status != "returned":
        if not fired:
            ctx.violation(key + ":raised-real", "real-process %s (parallel=%d) raised without any injected fault: %s" % (stage.name, parallel, status), rep)
        return          # the producer's iterable failed and the stage raised: fine
    if sorted(map(repr, ended)) != sorted(map(repr, items)):
        missing = [i for i in items if i not in ended]
        if fired:
            ctx.violation(key + ":returned-after-producer-fault-real",
                          "%s with %d real worker processes returned normally although its item stream failed part-way (%s): %d of %d items were "
                          "never handed to any worker (%s ...)" % (stage.name, parallel, fired[0], len(missing), len(items), missing[:4]), rep)
        else:
            ctx.violation(key + ":items-real", "real-process %s (parallel=%d) processed %d items, serial mode %d (missing %s)"
                          % (stage.name, parallel, len(ended), len(items), missing[:4]), rep)
    if len(started) != len(set(map(repr, started))):
        ctx.violation(key + ":twice-real", "real-process %s handed an item to two workers" % stage.name, rep)
    if alive:
        ctx.violation(key + ":workers-alive-real", "%s returned with %d live worker processes" % (stage.name, len(alive)), rep)


# ------------------------------------------------------------------------------------------------
# histories on one Pyramid object (spec/LeafHistory.tla)
# ------------------------------------------------------------------------------------------------

HCFG = """SPECIFICATION HSpec
CONSTANTS
 HKinds <- MCKinds
 HAccepts <- MCAccepts
 HDepths <- MCDepths
 HApexes <- MCApexes
 HLen = %d
INVARIANT HistoryFree
INVARIANT Emit
PROPERTY ObservationsPure
CHECK_DEADLOCK FALSE
"""


def _all_positions(maxd):
    return frozenset((n, x, y) for n in range(0, maxd + 1) for x in range(2 ** n) for y in range(2 ** n))


def _random_filter(rng, maxd):
    """A user filter as an accept set: a random subtree-closed-ish selection (each accepted tile's children accepted with p = 0.7)."""
    acc = set()
    frontier = [(1, x, y) for x in range(2) for y in range(2)]
    while frontier:
        nxt = []
        for t in frontier:
            if rng.random() < 0.7:
                acc.add(t)
                if t[0] < maxd:
                    n, x, y = t
                    nxt.extend((n + 1, 2 * x + i, 2 * y + j) for i in range(2) for j in range(2))
        frontier = nxt
    return frozenset(acc)


def replay_history(ctx, rec, accepts, full_index):
    """One real Pyramid object driven through a TLC history; every visit must deliver the leaf set the spec records for that step."""
    from toasty.pyramid import Pyramid, Pos
    kind, ai, hist = rec["kind"], rec["ai"], rec["hist"]
    acc = accepts[ai - 1]
    d0 = rec["d0"]
    if kind == "generic":
        p = Pyramid.new_generic(d0)
    elif ai == full_index:
        p = Pyramid.new_toast(d0)
    else:
        p = Pyramid.new_toast_filtered(d0, lambda t: tuple(t.pos) in acc)
    done = []
    case = {"kind": kind, "filter": None if (kind == "generic" or ai == full_index) else sorted(acc), "initial_depth": d0}
    for step in hist:
        op = step["op"]
        done.append([op] + ([list(step["arg"])] if step["arg"] else []))
        exp = sorted(tuple(q) for q in step["leaves"])
        try:
            with simrun.quiet():
                if op == "count_leaf":
                    p.count_leaf_tiles()
                elif op == "count_live":
                    p.count_live_tiles()
                elif op == "count_ops":
                    p.count_operations()
                elif op == "subpyramid":
                    p.subpyramid(Pos(*step["arg"]))
                elif op == "set_depth":
                    p.depth = step["arg"][0]
        except Exception as e:  # noqa - the counts are C13's subject
            ctx.drift("history %s on one %s Pyramid: %s raised %r (counts are judged by C13); history abandoned" % (done, kind, op, e))
            return
        if op not in ("visit_serial", "visit_parallel"):
            continue
        seen, geo_bad = [], []
        rep = dict(case, history=done, expected_leaves=exp)
        if op == "visit_serial":
            def cb(pos, tile):
                seen.append(tuple(pos))
                if kind == "toast" and step["depth"] > 0 and (tile is None or tuple(tile.pos) != tuple(pos)):
                    geo_bad.append(tuple(pos))
            try:
                with simrun.quiet():
                    p.visit_leaves(cb, parallel=1)
            except Exception as e:  # noqa
                ctx.violation("C03:visit_leaves:history-raised", "after the history %s on one Pyramid object the serial visit raised %r" % (done[:-1], e), rep)
                return
            how = "serial visit"
        else:
            log = []

            def cbp(pos, tile):
                geo = None if (kind != "toast" or step["depth"] == 0) else (None if tile is None else tuple(tile.pos))
                simmp.cb_sync("cb_start", (tuple(pos), geo), log)
                simmp.cb_sync("cb_end", (tuple(pos), geo), log)
            out = simrun.run(lambda: p.visit_leaves(cbp, parallel=2), simrun.pol_random(ctx.rng))
            how = "visit with 2 workers"
            if out.status != "returned":
                ctx.violation("C03:visit_leaves:history-%s" % ("hang" if out.status in ("hang", "limit") else "raised"),
                              "after the history %s on one Pyramid object the %s ended as %s %r" % (done[:-1], how, out.status, out.exc), rep)
                return
            seen = [q[0] for tag, q, who in log if tag == "cb_end"]
            if kind == "toast" and step["depth"] > 0:
                geo_bad = [q[0] for tag, q, who in log if tag == "cb_start" and q[1] != q[0]]
            if out.workers_alive_at_return:
                ctx.violation("C03:visit_leaves:workers-alive", "visit_leaves returned while workers %s were still running" % out.workers_alive_at_return, rep)
        ctx.count()
        if sorted(seen) != exp:
            extra = sorted(set(seen) - set(exp))
            missing = sorted(set(exp) - set(seen))
            dup = sorted({q for q in seen if seen.count(q) > 1})
            ctx.violation("C03:visit_leaves:history-items",
                          "after the history %s on one %s Pyramid object the %s handed out %d leaves; the leaf tiles that pass the filter and lie in the "
                          "sub-pyramid as it is now are %d (not leaves of the current pyramid: %s; never delivered: %s; delivered twice: %s)"
                          % (done[:-1], kind, how, len(seen), len(exp), extra[:4], missing[:4], dup[:4]), dict(rep, delivered=sorted(seen)[:40]))
        if geo_bad:
            ctx.violation("C03:visit_leaves:geometry", "after the history %s a leaf was delivered with another tile's geometry: %s" % (done[:-1], geo_bad[:3]), rep)
    ctx.trace_ok()
    ctx.distinct(("history", kind, ai, tuple(tuple(x[0:1]) + tuple(map(tuple, x[1:])) for x in done)))


def history_inputs(ctx):
    """The inputs of the object-history model (enumerated here, handed to TLC): filters as accept sets, depths, apexes, history length."""
    q = ctx.quick
    maxd = 2 if q else 3
    full = _all_positions(maxd)
    l1 = [(1, 0, 0), (1, 1, 0), (1, 0, 1), (1, 1, 1)]
    acc5 = frozenset(l1[:2]) | {(2, 0, 0), (2, 1, 1), (2, 2, 0), (2, 3, 0), (2, 3, 1)}
    if not q:
        acc5 = acc5 | {(3, 0, 0), (3, 1, 1), (3, 4, 0), (3, 5, 1), (3, 6, 2), (3, 7, 3), (3, 2, 3)}
    accepts = [full, acc5]          # index 1 = no user filter (Pyramid.new_toast)
    while len(accepts) < (3 if q else 5):
        a = _random_filter(ctx.rng, maxd)
        if a and a not in accepts:
            accepts.append(a)
    depths = [1, 2] if q else [1, 2, 3]
    apexes = [(1, 1, 0), (1, 0, 1), (2, 0, 0)] if q else [(1, 1, 0), (1, 0, 1), (2, 0, 0), (2, 3, 1), (3, 4, 0)]
    return accepts, depths, apexes, (3 if q else 4)


def history_tlc(ctx, inputs):
    accepts, depths, apexes, hlen = inputs
    defs = [("MCKinds", tla.lit({"generic", "toast"})), ("MCAccepts", tla.lit([set(a) for a in accepts])), ("MCDepths", tla.lit(set(depths))),
            ("MCApexes", tla.lit(set(apexes))),
            'Emit == Complete => PrintT(<<"H", ToJson([kind |-> kind, ai |-> ai, d0 |-> d0, hist |-> hist])>>)']
    mod = tla.module("MCLeafHistory", ["LeafHistory", "Json"], defs)
    return ctx.tlc("MCLeafHistory", extra={"MCLeafHistory.tla": mod}, cfg_text=HCFG % hlen, workers=4, timeout=1800)


def history_replay(ctx, r, inputs):
    accepts = inputs[0]
    q = ctx.quick
    recs = r.json_lines("H")
    if not recs:
        ctx.machinery("TLC emitted no object histories")
        return

    def interesting(x):
        """an observation, then a change of the configuration, then a visit: the order in which remembered results can go stale"""
        ops = [h["op"] for h in x["hist"]]
        chg = [i for i, o in enumerate(ops) if o in ("subpyramid", "set_depth")]
        return bool(chg) and any(o not in ("subpyramid", "set_depth") for o in ops[:chg[-1]])
    first = [x for x in recs if interesting(x)]
    rest = [x for x in recs if not interesting(x)]
    ctx.rng.shuffle(first)
    ctx.rng.shuffle(rest)
    chosen = (first[:120] + rest[:30]) if q else (first + rest)
    for x in chosen:
        replay_history(ctx, x, accepts, 1)
    ctx.note("object_histories", {"emitted_by_tlc": len(recs), "replayed": len(chosen), "of_which_observe_change_visit": len([x for x in chosen if interesting(x)])})
    x = chosen[0]
    ctx.sample({"object_history": [[h["op"], h["arg"], sorted(map(tuple, h["leaves"]))[:8]] for h in x["hist"]], "kind": x["kind"], "filter": x["ai"]}, force=True)


def run(ctx):
    repo.setup(ctx)
    _t = [time.time()]

    def lap(what):
        if os.environ.get("C03_TIMING"):
            import sys
            sys.stderr.write("C03 timing: %-28s %6.1f s\n" % (what, time.time() - _t[0]))
        _t[0] = time.time()
    ctx.rule = ("TLC explores spec/WorkQueue.tla exhaustively (all interleavings of producer, feeder, worker sub-steps and timeouts) "
                "for small item/worker/capacity constants; TLC-simulated behaviours are replayed step by step into the real stages on a fake "
                "multiprocessing with state comparison; the real stages are additionally explored under seeded random and adversarial schedule "
                "policies and with real processes. distinct = distinct schedules (full action sequences) / replayed behaviours; a schedule is "
                "non-trivial when it contains at least one item delivery")
    q = ctx.quick
    # (1) TLC exhaustive
    confs = [dict(n=4, w=2, cap=2), dict(n=4, w=2, cap=1)] if q else \
            [dict(n=4, w=2, cap=2), dict(n=4, w=2, cap=1), dict(n=3, w=3, cap=2), dict(n=5, w=2, cap=4), dict(n=4, w=3, cap=6), dict(n=3, w=3, cap=1)]
    import concurrent.futures
    jobs = [lambda c=c: ctx.tlc("MCWorkQueue", cfg_text=CFG % dict(c, faults="NoFaults"), timeout=1800, workers=4) for c in confs]
    # the same protocol with the producer's iterable failing at every position k (k = 0: healthy), for both admissible reactions
    pconfs = [dict(n=3, w=2, cap=2)] if q else [dict(n=4, w=2, cap=2), dict(n=4, w=2, cap=1), dict(n=3, w=3, cap=2)]
    jobs += [lambda c=c: ctx.tlc("MCWorkQueueProd", cfg_text=PCFG % dict(c, react="Admissible"), timeout=1800, workers=4) for c in pconfs]
    # the OS pipe between feeder and workers: items larger than the pipe (PipeCap 0: images), a pipe of one item
    for c, pc in ([(confs[0], 0), (confs[1], 1)] if q else [(c, pc) for c in confs[:4] for pc in (0, 1)]):
        jobs.append(lambda c=c, pc=pc: ctx.tlc("MCWorkQueue", cfg_text=(CFG % dict(c, faults="NoFaults")).replace("PipeCap = 99", "PipeCap = %d" % pc), timeout=1800, workers=4))
    if not q:
        jobs.append(lambda: ctx.tlc("MCWorkQueueProd", cfg_text=(PCFG % dict(confs[0], react="Admissible")).replace("PipeCap = 99", "PipeCap = 0"), timeout=1800, workers=4))
    # negative control: winding the workers down and then RETURNING after the producer's iterable failed must be refuted
    neg = lambda: ctx.tlc("MCWorkQueueProd", cfg_text=PCFG % dict(n=3, w=2, cap=2, react="Swallow"), timeout=600, workers=2,      # noqa: E731
                          expect_violation=True, count=False)
    hin = history_inputs(ctx)
    with concurrent.futures.ThreadPoolExecutor(max_workers=4) as ex:
        fs = [ex.submit(j) for j in jobs]
        fneg = ex.submit(neg)
        fhist = ex.submit(history_tlc, ctx, hin)          # spec/LeafHistory.tla: the object histories replayed in (6)
        for f in fs:
            f.result()
        rneg = fneg.result()
        rhist = fhist.result()
    if rneg.violated not in ("ReturnedImpliesAll", "ReturnedImpliesAllPut"):
        ctx.machinery("negative control: TLC did not refute ReturnedImpliesAll for a stage that returns normally after its producer failed (%s)" % rneg.violated)
    else:
        ctx.note("negative_control_wind_down_return", "refuted by TLC (%s)" % rneg.violated)
    lap("tlc exhaustive")
    # (2) spec -> code replay
    l1 = [(1, 0, 0), (1, 1, 0), (1, 0, 1), (1, 1, 1)]
    acc5 = frozenset(l1[:2]) | {(2, 0, 0), (2, 1, 1), (2, 2, 0), (2, 3, 0), (2, 3, 1)}
    stages = [LeafStage("toast depth 1", 1), LeafStage("toast filtered depth 2, 5 leaves", 2, accept=acc5),
              LeafStage("generic sub-pyramid", 2, kind="generic", apex=(1, 1, 0)), TransformStage(1)]
    nb = 60 if q else 600
    for st in stages:
        replay_stage(ctx, st, 2, nb, 150, prod=2)        # about a third of the behaviours healthy, the others with PFail at two seeded positions
    if not q:
        replay_stage(ctx, stages[0], 3, 200, 200)
        replay_stage(ctx, stages[1], 3, 200, 200, prod=3)
    lap("replay 4 stages")
    # (3) direct exploration of all four stages
    pols = list(simrun.POLICIES)
    allstages = stages + [LeafStage("toast depth 2", 2), LeafStage("planetary depth 1", 1),
                          LeafStage("toast sub-pyramid", 2, apex=(1, 0, 1)), TransformStage(2),
                          # degenerate item sets: exactly one leaf (depth 0; apex on the leaf level; a filter selecting one leaf), two leaves
                          LeafStage("toast depth 0", 0), LeafStage("generic depth 0", 0, kind="generic"),
                          LeafStage("apex on the leaf level", 2, apex=(2, 1, 2)), LeafStage("generic apex on the leaf level", 1, kind="generic", apex=(1, 1, 0)),
                          LeafStage("filter selecting one leaf", 2, accept=frozenset({(1, 1, 0), (2, 3, 1)})),
                          LeafStage("filter selecting two leaves", 2, accept=frozenset({(1, 0, 1), (2, 0, 2), (2, 1, 3)})), TransformStage(0)]
    for st in allstages:
        explore(ctx, st, 2, pols, 3 if q else 30)
        explore(ctx, st, 3, ["random", "flag-race", "starve-feeder"], 2 if q else 20)
    lap("explore leaf/transform")
    mt = MultiTanStage(ctx, 3)
    mw = MultiWcsStage(ctx, 3)
    # images larger than the OS pipe (64 KiB): the feeder blocks in the middle of every write until a worker receives
    mtbig = MultiTanStage(ctx, 4, shape=(150, 160))
    mtmef = MultiTanStage(ctx, 3, mef=True)
    for st in (mt, mw, mtbig, mtmef):
        explore(ctx, st, 2, ["random", "flag-race", "starve-feeder", "eager-timeout"], 2 if q else 15)
    replay_stage(ctx, mtbig, 2, 15 if q else 150, 150, pipecap=0)
    lap("explore multi + replay mtbig")
    # (3p) a fault of the producer's iterable part-way through the item stream, workers healthy: the position generator / the user's tile
    # filter (visit_leaves), the position generator (transform), the collection's images() (multi_tan, multi_wcs)
    leaf_filter = LeafStage("toast filtered depth 2, 5 leaves", 2, accept=acc5, via="filter")
    pstages = [stages[1], leaf_filter, stages[2], TransformStage(1), mt, mw]
    if not q:
        pstages += [stages[0], LeafStage("toast sub-pyramid", 2, apex=(1, 0, 1)), TransformStage(2), mtbig, mtmef]
    for st in pstages:
        explore_pfault(ctx, st, 2, ["random", "eager-timeout", "workers-last"], 1 if q else 12)
        explore_pfault(ctx, st, 3, ["main-first"] if q else ["random", "main-first"], 1 if q else 8)
    if not q:
        replay_stage(ctx, leaf_filter, 2, 200, 150, prod=3)
        replay_stage(ctx, mt, 2, 100, 150, prod=2)
    lap("explore producer faults")
    # (3a') the same stages when the dispatching process is PID 1 (a container's entry point): every worker's parent pid is 1
    # from the start - which must not be mistaken for "orphaned"
    real_getppid = os.getppid
    os.getppid = lambda: 1
    try:
        for st in [LeafStage("toast depth 2", 2), TransformStage(1), mt]:
            explore(ctx, st, 2, ["eager-timeout", "starve-feeder", "random"], 1 if q else 6)
    finally:
        os.getppid = real_getppid
    # (3b) a worker killed while it holds an item (negative exit status, e.g. the OOM killer): whatever else happens, the
    # stage must not RETURN NORMALLY with that item unprocessed (how the failure is reported is C19's subject)
    for st in [LeafStage("toast depth 2", 2), TransformStage(1), mt]:
        items = st.items()
        for k in range(2 if q else 8):
            victim = items[ctx.rng.randrange(len(items))]
            st.flavour = "signal"
            log = []
            out = simrun.run(st.main(2, log, faults={victim}), simrun.POLICIES[ctx.rng.choice(["random", "starve-feeder", "workers-last"])](ctx.rng))
            st.flavour = "plain"
            ctx.count()
            done = [p[0] for tag, p, who in log if tag == "cb_end"]
            if out.status == "returned" and victim not in done:
                ctx.violation("C03:%s:returned-after-worker-killed" % st.key,
                              "%s returned normally although the worker holding item %s was killed and the item was never processed" % (st.name, victim),
                              {"stage": st.name, "victim": victim, "trace_tail": [list(map(str, t)) for t in out.trace[-30:]]})
    lap("pid1 + worker killed")
    # (4) real processes
    real_leaf_run(ctx, 1, 2)
    lap("real leaf run")
    # ... and with the producer's iterable failing part-way (all four stages)
    for st in [stages[1], TransformStage(1), mt, mw]:
        real_stage_run(ctx, st, 2, k=ctx.rng.randrange(2, len(st.items()) + 1))
    if not q:
        for st in [leaf_filter, stages[2], TransformStage(2), mtbig, mw]:
            real_stage_run(ctx, st, 3, k=ctx.rng.randrange(1, len(st.items()) + 2))
        for st in [TransformStage(1), mt, mw]:
            real_stage_run(ctx, st, 2, k=0)
    lap("real producer-fault runs")
    # (6) histories on one Pyramid object
    history_replay(ctx, rhist, hin)
    lap("object histories")
    if not q:
        real_leaf_run(ctx, 2, 3)
        real_leaf_run(ctx, 2, 5, accept=acc5)
        real_leaf_run(ctx, 3, 4)
    ctx.assume("CPython's multiprocessing.Queue/Event/Process behave like the fake ones of lib/simmp.py (step structure read from multiprocessing/queues.py 3.12); the real-process runs sample that")
    ctx.assume("timeouts may fire whenever their wait condition holds (the property quantifies over every interleaving)")
    ctx.assume("a producer-side fault is an exception raised by the iterable the parent draws its items from (position generator, tile filter, "
               "collection.images()) while worker processes exist; what the stage must do then is only: not return normally with items undelivered")
    ctx.assume("object histories: subpyramid() at most once per object and never deeper than the depth (its documented contract); the user filter is a pure function of the position")
